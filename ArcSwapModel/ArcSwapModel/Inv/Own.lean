import ArcSwapModel.M.Frame

/-!
# Node ownership: per-thread bookkeeping is never shared (C11), `start_cooldown`'s assertion (C13)

`owns` is the node a thread may write debts and generations into: the node in its `LocalNode`
(unless it has just sent it to cooldown), or the node it has allocated and is linking into the
list.  Every step of every sub-machine changes the `in_use` words and a thread's `owns` in one of
five ways (`OwnStep`); the invariant `OwnInv` (an owned node is `USED`; no two threads own the same
node; owned nodes exist) is preserved by each of them.
-/

namespace M
open Consts

/-- how one step may change the node states and the moving thread's ownership -/
inductive OwnStep (s : Shared) (o : Option Nat) (s' : Shared) (o' : Option Nat) : Prop
  | same (hiu : ∀ m, (s'.nodes m).inUse = (s.nodes m).inUse) (hn : s'.nNodes = s.nNodes) (ho : o' = o)
  | release (n : Nat) (v : Nat) (h : (s.nodes n).inUse ≠ nodeUsed)
      (hiu : ∀ m, (s'.nodes m).inUse = if m = n then v else (s.nodes m).inUse)
      (hn : s'.nNodes = s.nNodes) (ho : o' = o)
  | claim (n : Nat) (h : (s.nodes n).inUse = nodeUnused) (hlt : n < s.nNodes ∨ True)
      (hiu : ∀ m, (s'.nodes m).inUse = if m = n then nodeUsed else (s.nodes m).inUse)
      (hn : s'.nNodes = s.nNodes) (hob : o = none) (ho : o' = some n)
  | fresh (hiu : ∀ m, (s'.nodes m).inUse = if m = s.nNodes then nodeUsed else (s.nodes m).inUse)
      (hn : s'.nNodes = s.nNodes + 1) (hob : o = none) (ho : o' = some s.nNodes)
  | cool (n : Nat) (hob : o = some n)
      (hiu : ∀ m, (s'.nodes m).inUse = if m = n then nodeCooldown else (s.nodes m).inUse)
      (hn : s'.nNodes = s.nNodes) (ho : o' = none)

/-- ownership as seen from a `Node::get` in progress (`base` = what the thread owns otherwise) -/
def ownsNG (base : Option Nat) : NG → Option Nat
  | .allocCas (some k) _ => some k
  | .done n => some n
  | _ => base

theorem stepNG_own (s : Shared) (b : Bool) (ng : NG) :
    OwnStep s (ownsNG none ng) (stepNG s b ng).1 (ownsNG none (stepNG s b ng).2.1) := by
  cases ng with
  | trav =>
    simp only [stepNG]
    cases s.head <;> exact .same (fun _ => rfl) rfl rfl
  | cc0 n =>
    simp only [stepNG]
    split
    · rename_i h
      refine .release n nodeChecking (by rw [h]; exact (Consts.node_states_distinct.2.1).symm) (fun m => ?_) rfl rfl
      by_cases hm : m = n
      · subst hm; simp
      · simp [hm]
    · exact .same (fun _ => rfl) rfl rfl
  | cc1 n =>
    simp only [stepNG]
    exact .same (fun _ => rfl) rfl rfl
  | cc2 n idle =>
    simp only [stepNG]
    split
    · rename_i h
      refine .release n (if idle then nodeUnused else nodeCooldown) (by rw [h]; exact Consts.node_checking_distinct.1) (fun m => ?_) rfl rfl
      by_cases hm : m = n
      · subst hm; simp
      · simp [hm]
    · exact .same (fun _ => by simp) (by simp) rfl
  | claim n =>
    simp only [stepNG]
    split
    · rename_i h
      refine .claim n h (Or.inr trivial) (fun m => ?_) rfl rfl rfl
      by_cases hm : m = n
      · subst hm; simp
      · simp [hm]
    · simp only [NG.afterNode]
      cases (s.nodes n).next <;> exact .same (fun _ => rfl) rfl rfl
  | allocLoad => exact .same (fun _ => rfl) rfl rfl
  | allocCas me h =>
    cases me with
    | some k =>
      simp only [stepNG]
      split
      · refine .same (fun m => ?_) rfl rfl
        by_cases hm : m = k
        · subst hm; simp
        · simp [hm]
      · refine .same (fun m => ?_) rfl rfl
        by_cases hm : m = k
        · subst hm; simp
        · simp [hm]
    | none =>
      simp only [stepNG]
      split
      · refine .fresh (fun m => ?_) rfl rfl rfl
        by_cases hm : m = s.nNodes
        · subst hm; simp [Shared.setNode, upd]
        · simp [Shared.setNode, upd, hm]
      · refine .fresh (fun m => ?_) rfl rfl rfl
        by_cases hm : m = s.nNodes
        · subst hm; simp [Shared.setNode, upd]
        · simp [Shared.setNode, upd, hm]
  | done n => exact .same (fun _ => rfl) rfl rfl


/-! ## frame facts for `in_use` -/

theorem setNode_inUse (s : Shared) (n m : Nat) (f : Node → Node) (hf : ∀ nd, (f nd).inUse = nd.inUse) :
    ((s.setNode n f).nodes m).inUse = (s.nodes m).inUse := by
  by_cases hm : m = n
  · subst hm; simp [hf]
  · simp [hm]

theorem dbgInUse_nodes (s : Shared) (n : Nat) (site : String) : (dbgInUse s n site).nodes = s.nodes := by
  unfold dbgInUse; split <;> simp
theorem dbgInUse_nNodes (s : Shared) (n : Nat) (site : String) : (dbgInUse s n site).nNodes = s.nNodes := by
  unfold dbgInUse; split <;> simp

theorem ite_setFault_nodes (x : Shared) (c : Prop) [Decidable c] (f : Fault) :
    (if c then x else x.setFault f).nodes = x.nodes := by split <;> simp
theorem ite_setFault_nNodes (x : Shared) (c : Prop) [Decidable c] (f : Fault) :
    (if c then x else x.setFault f).nNodes = x.nNodes := by split <;> simp

/-- a step that touches no `in_use` word, allocates no node and leaves the ownership view alone -/
macro "own_same" : tactic =>
  `(tactic| (refine OwnStep.same (fun m => ?_) ?_ ?_ <;>
      first
        | rfl
        | (simp only [setFault_nodes, setFault_nNodes, incObj_nodes, incObj_nNodes, decObj_nodes, decObj_nNodes,
                      dbgInUse_nodes, dbgInUse_nNodes, setNode_nNodes]; done)
        | (simp only [setFault_nodes, incObj_nodes, decObj_nodes, dbgInUse_nodes]
           first | rfl | exact setNode_inUse _ _ _ _ (fun _ => rfl))
        | exact setNode_inUse _ _ _ _ (fun _ => rfl)))

/-! ## `start_cooldown` -/

def ownsCD : CD → Option Nat
  | .res n => some n
  | .swap n => some n
  | _ => none

theorem stepCD_own (s : Shared) (cd : CD) : OwnStep s (ownsCD cd) (stepCD s cd).1 (ownsCD (stepCD s cd).2.1) := by
  cases cd with
  | res n => simp only [stepCD]; own_same
  | swap n =>
    simp only [stepCD]
    refine .cool n rfl (fun m => ?_) ?_ rfl
    · rw [ite_setFault_nodes]; by_cases hm : m = n <;> simp [hm]
    · rw [ite_setFault_nNodes]; rfl
  | rel n => simp only [stepCD]; own_same
  | done => exact .same (fun _ => rfl) rfl rfl

/-! ## load -/

def ownsLP (l : Locals) : LP → Option Nat
  | .get ng => ownsNG none ng
  | .reget ng => ownsNG none ng
  | .cool cd => ownsCD cd
  | _ => l.node


theorem stepLP_own (cfg : Cfg) (c : Nat) (s : Shared) (l : Locals) (b : Bool) (lp : LP) :
    OwnStep s (ownsLP l lp) (stepLP cfg c s l b lp).1
      (ownsLP (stepLP cfg c s l b lp).2.1 (stepLP cfg c s l b lp).2.2.1) := by
  cases lp with
  | start =>
    simp only [stepLP]
    cases hl : l.node with
    | none => simp only [ownsLP, ownsNG, hl]; exact .same (fun _ => rfl) rfl rfl
    | some n => simp only; split <;> (simp only [ownsLP, hl]; exact .same (fun _ => rfl) rfl rfl)
  | get ng =>
    have h := stepNG_own s b ng
    simp only [stepLP]
    generalize stepNG s b ng = x at *
    obtain ⟨s', ng', evs⟩ := x
    cases ng' with
    | done n => simp only; split <;> simpa [ownsLP, ownsNG] using h
    | _ => simpa [ownsLP] using h
  | reget ng =>
    have h := stepNG_own s b ng
    simp only [stepLP]
    generalize stepNG s b ng = x at *
    obtain ⟨s', ng', evs⟩ := x
    cases ng' with
    | done n => simpa [ownsLP, ownsNG] using h
    | _ => simpa [ownsLP] using h
  | cool cd =>
    have h := stepCD_own s cd
    simp only [stepLP]
    generalize stepCD s cd = x at *
    obtain ⟨s', cd', evs⟩ := x
    cases cd' with
    | done => simpa [ownsLP, ownsNG, ownsCD] using h
    | _ => simpa [ownsLP] using h
  | a1 => simp only [stepLP]; split <;> (simp only [ownsLP]; own_same)
  | nfDbg p => simp only [stepLP]; split <;> (simp only [ownsLP]; own_same)
  | probe p i => simp only [stepLP]; (repeat' split) <;> (simp only [ownsLP]; own_same)
  | pswap p idx => simp only [stepLP]; (repeat' split) <;> (simp only [ownsLP]; own_same)
  | a3 p idx => simp only [stepLP]; (repeat' split) <;> (simp only [ownsLP]; own_same)
  | a4 p idx => simp only [stepLP]; (repeat' split) <;> (simp only [ownsLP]; own_same)
  | a4dec p => simp only [stepLP]; (simp only [ownsLP]; own_same)
  | nhDbg =>
    simp only [stepLP]
    cases hl : l.node with
    | none => simp only [ownsLP, hl]; own_same
    | some n => simp only; split <;> (simp only [ownsLP, ownsCD, hl]; own_same)
  | f1 => simp only [stepLP, ownsLP]; own_same
  | f2 g => simp only [stepLP]; (repeat' split) <;> (simp only [ownsLP]; own_same)
  | f3 g => simp only [stepLP]; split <;> (simp only [ownsLP]; own_same)
  | chDbg g cand => simp only [stepLP]; split <;> (simp only [ownsLP]; own_same)
  | f4 g cand => simp only [stepLP]; (repeat' split) <;> (simp only [ownsLP]; own_same)
  | f5 g cand => simp only [stepLP]; (repeat' split) <;> (simp only [ownsLP]; own_same)
  | fokInc cand => simp only [stepLP, ownsLP]; own_same
  | fokPay cand => simp only [stepLP]; (repeat' split) <;> (simp only [ownsLP]; own_same)
  | fokDec cand => simp only [stepLP, ownsLP]; own_same
  | fr1 cand j => simp only [stepLP]; split <;> (simp only [ownsLP]; own_same)
  | fr2 cand j r => simp only [stepLP, ownsLP]; own_same
  | frPay cand r => simp only [stepLP]; (repeat' split) <;> (simp only [ownsLP]; own_same)
  | frDec cand r => simp only [stepLP, ownsLP]; own_same
  | done p d => exact .same (fun _ => rfl) rfl rfl


theorem stepGD_own (s : Shared) (gd : GD) (o : Option Nat) : OwnStep s o (stepGD s gd).1 o := by
  cases gd with
  | pay p n idx => simp only [stepGD]; (repeat' split) <;> own_same
  | dec p => simp only [stepGD]; own_same
  | done => exact .same (fun _ => rfl) rfl rfl

theorem stepGI_own (s : Shared) (gi : GI) (o : Option Nat) : OwnStep s o (stepGI s gi).1 o := by
  cases gi with
  | inc p n idx => simp only [stepGI]; own_same
  | pay p n idx => simp only [stepGI]; (repeat' split) <;> own_same
  | dec p => simp only [stepGI]; own_same
  | done => exact .same (fun _ => rfl) rfl rfl

/-! ## the debt walk -/

def ownsPP (l : Locals) : PP → Option Nat
  | .get ng => ownsNG none ng
  | .hload _ ld => ownsLP l ld
  | _ => l.node

theorem stepPP_own (cfg : Cfg) (p c : Nat) (s : Shared) (l : Locals) (b : Bool) (pp : PP) :
    OwnStep s (ownsPP l pp) (stepPP cfg p c s l b pp).1
      (ownsPP (stepPP cfg p c s l b pp).2.1 (stepPP cfg p c s l b pp).2.2.1) := by
  cases pp with
  | start =>
    simp only [stepPP]
    cases hl : l.node with
    | none => simp only [ownsPP, ownsNG, hl]; exact .same (fun _ => rfl) rfl rfl
    | some n => simp only; split <;> (simp only [ownsPP, hl]; exact .same (fun _ => rfl) rfl rfl)
  | get ng =>
    have h := stepNG_own s b ng
    simp only [stepPP]
    generalize stepNG s b ng = x at *
    obtain ⟨s', ng', evs⟩ := x
    cases ng' with
    | done n => simp only; split <;> simpa [ownsPP, ownsNG] using h
    | _ => simpa [ownsPP] using h
  | hload h ld =>
    have hh := stepLP_own cfg c s l b ld
    simp only [stepPP]
    generalize stepLP cfg c s l b ld = x at *
    obtain ⟨s', l', ld', evs⟩ := x
    cases ld' with
    | done r d => simp only; split <;> simpa [ownsPP, ownsLP] using hh
    | _ => simpa [ownsPP] using hh
  | hinto h r gi =>
    have hh := stepGI_own s gi l.node
    simp only [stepPP]
    generalize stepGI s gi = x at *
    obtain ⟨s', gi', evs⟩ := x
    cases gi' <;> simpa [ownsPP] using hh
  | inc => simp only [stepPP, ownsPP]; own_same
  | trav => simp only [stepPP]; split <;> (simp only [ownsPP]; own_same)
  | res n => simp only [stepPP]; split <;> (simp only [ownsPP]; own_same)
  | hDbg0 h => simp only [stepPP, ownsPP]; own_same
  | hDbg1 h => simp only [stepPP]; (repeat' split) <;> (simp only [ownsPP]; own_same)
  | h1 h => simp only [stepPP, PP.dispatch]; (repeat' split) <;> (simp only [ownsPP]; own_same)
  | h2 h => simp only [stepPP]; (repeat' split) <;> (simp only [ownsPP, ownsLP]; own_same)
  | h3 h => simp only [stepPP, PP.dispatch]; (repeat' split) <;> (simp only [ownsPP]; own_same)
  | hres h => simp only [stepPP, ownsPP, ownsLP]; own_same
  | h4 h r => simp only [stepPP, ownsPP]; own_same
  | h5 h r t => simp only [stepPP, ownsPP]; own_same
  | h6 h r t m => simp only [stepPP, ownsPP]; own_same
  | h7 h r t m => simp only [stepPP, PP.dispatch]; (repeat' split) <;> (simp only [ownsPP]; own_same)
  | h8 h t => simp only [stepPP, ownsPP]; own_same
  | hdrop h r => simp only [stepPP, PP.dispatch]; (repeat' split) <;> (simp only [ownsPP]; own_same)
  | hend h => simp only [stepPP]; split <;> (simp only [ownsPP]; own_same)
  | hrel h => simp only [stepPP, ownsPP]; own_same
  | slot n j => simp only [stepPP, PP.nextSlot]; (repeat' split) <;> (simp only [ownsPP]; own_same)
  | slotInc n j => simp only [stepPP, PP.nextSlot]; (repeat' split) <;> (simp only [ownsPP]; own_same)
  | rel n => simp only [stepPP]; (repeat' split) <;> (simp only [ownsPP]; own_same)
  | fin => simp only [stepPP]; split <;> (simp only [ownsPP]; own_same)
  | dec => simp only [stepPP, ownsPP]; own_same
  | done => exact .same (fun _ => rfl) rfl rfl


@[simp] theorem writeCell_nodes (s : Shared) (c p : Nat) : (s.writeCell c p).nodes = s.nodes := rfl
@[simp] theorem writeCell_nNodes (s : Shared) (c p : Nat) : (s.writeCell c p).nNodes = s.nNodes := rfl

/-! ## compare_and_swap, rcu -/

def ownsCP (l : Locals) : CP → Option Nat
  | .load ld => ownsLP l ld
  | .pay _ pp => ownsPP l pp
  | _ => l.node

theorem stepCP_own (cfg : Cfg) (c cur new : Nat) (s : Shared) (l : Locals) (b : Bool) (cp : CP) :
    OwnStep s (ownsCP l cp) (stepCP cfg c cur new s l b cp).1
      (ownsCP (stepCP cfg c cur new s l b cp).2.1 (stepCP cfg c cur new s l b cp).2.2.1) := by
  cases cp with
  | load ld =>
    have hh := stepLP_own cfg c s l b ld
    simp only [stepCP]
    generalize stepLP cfg c s l b ld = x at *
    obtain ⟨s', l', ld', evs⟩ := x
    cases ld' with
    | done r d => simp only; (repeat' split) <;> simpa [ownsCP, ownsLP, ownsPP] using hh
    | _ => simpa [ownsCP] using hh
  | dropNew old => simp only [stepCP, ownsCP]; own_same
  | cx old =>
    simp only [stepCP]
    (repeat' split) <;> (simp only [ownsCP, ownsPP, ownsLP]; first | own_same | exact .same (fun _ => rfl) rfl rfl)
  | pay old pp =>
    have hh := stepPP_own cfg old.ptr c s l b pp
    simp only [stepCP]
    generalize stepPP cfg old.ptr c s l b pp = x at *
    obtain ⟨s', l', pp', evs⟩ := x
    cases pp' with
    | done => simp only; split <;> simpa [ownsCP, ownsPP] using hh
    | _ => simpa [ownsCP] using hh
  | decOld old => simp only [stepCP, ownsCP]; own_same
  | dropOld gd =>
    have hh := stepGD_own s gd l.node
    simp only [stepCP]
    generalize stepGD s gd = x at *
    obtain ⟨s', gd', evs⟩ := x
    cases gd' <;> simpa [ownsCP, ownsLP] using hh
  | done old => exact .same (fun _ => rfl) rfl rfl

def ownsRP (l : Locals) : RP → Option Nat
  | .load ld => ownsLP l ld
  | .cas _ _ cp => ownsCP l cp
  | _ => l.node

theorem alloc_nodes (s : Shared) (v : Nat) : (alloc s v).1.nodes = s.nodes ∧ (alloc s v).1.nNodes = s.nNodes := by
  simp [alloc]

theorem stepRP_own (cfg : Cfg) (c : Nat) (s : Shared) (l : Locals) (b : Bool) (tries : Nat) (rp : RP) :
    OwnStep s (ownsRP l rp) (stepRP cfg c s l b tries rp).1
      (ownsRP (stepRP cfg c s l b tries rp).2.1 (stepRP cfg c s l b tries rp).2.2.1) := by
  cases rp with
  | load ld =>
    have hh := stepLP_own cfg c s l b ld
    simp only [stepRP]
    generalize stepLP cfg c s l b ld = x at *
    obtain ⟨s', l', ld', evs⟩ := x
    cases ld' with
    | done r d => simpa [ownsRP, ownsLP] using hh
    | _ => simpa [ownsRP] using hh
  | attempt cur =>
    simp only [stepRP, ownsRP, ownsCP, ownsLP]
    refine .same (fun m => ?_) ?_ rfl
    · rw [(alloc_nodes _ _).1]; split <;> simp
    · rw [(alloc_nodes _ _).2]; split <;> simp
  | cas cur a cp =>
    have hh := stepCP_own cfg c cur.ptr a s l b cp
    simp only [stepRP]
    generalize stepCP cfg c cur.ptr a s l b cp = x at *
    obtain ⟨s', l', cp', evs⟩ := x
    cases cp' with
    | done prev => simp only; (repeat' split) <;> simpa [ownsRP, ownsCP] using hh
    | _ => simpa [ownsRP] using hh
  | intoPrev cur prev gi =>
    have hh := stepGI_own s gi l.node
    simp only [stepRP]
    generalize stepGI s gi = x at *
    obtain ⟨s', gi', evs⟩ := x
    cases gi' with
    | done => simp only; split <;> simpa [ownsRP] using hh
    | _ => simpa [ownsRP] using hh
  | dropCur res gd =>
    have hh := stepGD_own s gd l.node
    simp only [stepRP]
    generalize stepGD s gd = x at *
    obtain ⟨s', gd', evs⟩ := x
    cases gd' <;> simpa [ownsRP] using hh
  | dropCurLoop prev gd =>
    have hh := stepGD_own s gd l.node
    simp only [stepRP]
    generalize stepGD s gd = x at *
    obtain ⟨s', gd', evs⟩ := x
    cases gd' <;> simpa [ownsRP] using hh
  | done r => exact .same (fun _ => rfl) rfl rfl


/-! ## threads -/

def ownsT (th : Thread) : Option Nat :=
  match th.op with
  | .load _ _ ld => ownsLP th.loc ld
  | .loadFull _ _ ld => ownsLP th.loc ld
  | .swapPay _ _ _ _ pp => ownsPP th.loc pp
  | .cinto _ _ _ pp => ownsPP th.loc pp
  | .dropc _ _ pp => ownsPP th.loc pp
  | .cas _ _ _ _ _ _ cp => ownsCP th.loc cp
  | .rcu _ _ _ rp => ownsRP th.loc rp
  | .exitCool cd => ownsCD cd
  | _ => th.loc.node

/-- starting an operation touches no node and leaves the thread's node alone -/
theorem beginOp_own (st : State) (t : Nat) (o : Op) :
    (∀ m, ((beginOp st t o).1.sh.nodes m).inUse = (st.sh.nodes m).inUse) ∧
    (beginOp st t o).1.sh.nNodes = st.sh.nNodes ∧
    ownsT ((beginOp st t o).1.th t) = (st.th t).loc.node ∧
    (∀ t', t' ≠ t → (beginOp st t o).1.th t' = st.th t') := by
  cases o <;> simp only [beginOp] <;> (repeat' split) <;>
    simp [ownsT, ownsLP, ownsPP, ownsCP, ownsRP, upd, alloc, Shared.setFault] <;>
    (try (intro t' ht'; simp [ht'])) <;> (try (split <;> simp)) <;>
    (try (intro t' h1 h2; exact absurd h2 h1))


theorem OwnStep.transfer {s : Shared} {o : Option Nat} {s1 s2 : Shared} {o' o'' : Option Nat}
    (h : OwnStep s o s1 o') (hn : s2.nodes = s1.nodes) (hk : s2.nNodes = s1.nNodes) (ho : o'' = o') :
    OwnStep s o s2 o'' := by
  subst ho
  cases h with
  | same hiu hn' ho => exact .same (fun m => by rw [hn]; exact hiu m) (by rw [hk]; exact hn') ho
  | release n v h hiu hn' ho => exact .release n v h (fun m => by rw [hn]; exact hiu m) (by rw [hk]; exact hn') ho
  | claim n h hlt hiu hn' hob ho => exact .claim n h hlt (fun m => by rw [hn]; exact hiu m) (by rw [hk]; exact hn') hob ho
  | fresh hiu hn' hob ho => exact .fresh (fun m => by rw [hn]; exact hiu m) (by rw [hk]; exact hn') hob ho
  | cool n hob hiu hn' ho => exact .cool n hob (fun m => by rw [hn]; exact hiu m) (by rw [hk]; exact hn') ho

/-- closes `OwnStep … ∧ (others unchanged)` from the sub-machine's lemma `hh`, after the result
    state has been exposed -/
macro "fin_own" hh:ident : tactic =>
  `(tactic| (constructor
             · exact OwnStep.transfer $hh (by simp) (by simp)
                 (by simp [ownsT, ownsLP, ownsPP, ownsCP, ownsRP, ownsCD, ownsNG, upd])
             · intro t' h; simp [upd, h]))

/-- a step of thread `t`: how it changes the node states and `t`'s ownership; nobody else's thread
    state changes -/
theorem microStep_own (st : State) (t : Nat) (b : Bool) :
    OwnStep st.sh (ownsT (st.th t)) (microStep st t b).1.sh (ownsT ((microStep st t b).1.th t)) ∧
    (∀ t', t' ≠ t → (microStep st t b).1.th t' = st.th t') := by
  cases hop : (st.th t).op with
  | finished =>
    simp only [microStep, hop]
    exact ⟨.same (fun _ => rfl) rfl rfl, fun _ _ => trivial⟩
  | idle =>
    have ho : ownsT (st.th t) = (st.th t).loc.node := by simp [ownsT, hop]
    rw [ho]
    simp only [microStep, hop]
    cases hp : (st.th t).prog with
    | nil =>
      simp only
      refine ⟨.same (fun _ => rfl) rfl ?_, fun t' h => by simp [upd, h]⟩
      simp only [upd_same, ownsT]
      cases (st.th t).loc.node <;> simp [ownsCD]
    | cons po rest =>
      obtain ⟨txt, o⟩ := po
      simp only
      refine ⟨.same (beginOp_own _ t o).1 (beginOp_own _ t o).2.1 ?_, fun t' h => ?_⟩
      · rw [(beginOp_own _ t o).2.2.1]; simp [upd]
      · rw [(beginOp_own _ t o).2.2.2 t' h]; simp [upd, h]
  | exitCool cd =>
    have ho : ownsT (st.th t) = ownsCD cd := by simp [ownsT, hop]
    rw [ho]
    have hh := stepCD_own st.sh cd
    simp only [microStep, hop]
    generalize stepCD st.sh cd = x at *
    obtain ⟨s', cd', evs⟩ := x
    cases cd' <;> (simp only []; fin_own hh)
  | load c g ld =>
    have ho : ownsT (st.th t) = ownsLP (st.th t).loc ld := by simp [ownsT, hop]
    rw [ho]
    have hh := stepLP_own st.cfg c st.sh (st.th t).loc b ld
    simp only [microStep, hop]
    generalize stepLP st.cfg c st.sh (st.th t).loc b ld = x at *
    obtain ⟨s', l', ld', evs⟩ := x
    cases ld' <;> (simp only []; fin_own hh)
  | loadFull c h ld =>
    have ho : ownsT (st.th t) = ownsLP (st.th t).loc ld := by simp [ownsT, hop]
    rw [ho]
    have hh := stepLP_own st.cfg c st.sh (st.th t).loc b ld
    simp only [microStep, hop]
    generalize stepLP st.cfg c st.sh (st.th t).loc b ld = x at *
    obtain ⟨s', l', ld', evs⟩ := x
    cases ld' <;> (simp only []; (try split) <;> fin_own hh)
  | loadFullInto c h p gi =>
    have ho : ownsT (st.th t) = (st.th t).loc.node := by simp [ownsT, hop]
    rw [ho]
    have hh := stepGI_own st.sh gi (st.th t).loc.node
    simp only [microStep, hop]
    generalize stepGI st.sh gi = x at *
    obtain ⟨s', gi', evs⟩ := x
    cases gi' <;> (simp only []; fin_own hh)
  | cloneh h h2 a =>
    have ho : ownsT (st.th t) = (st.th t).loc.node := by simp [ownsT, hop]
    rw [ho]
    simp only [microStep, hop]
    refine ⟨?_, fun t' h => by simp [upd, h]⟩
    refine .same (fun m => ?_) ?_ (by simp [ownsT, upd]) <;> simp
  | droph a =>
    have ho : ownsT (st.th t) = (st.th t).loc.node := by simp [ownsT, hop]
    rw [ho]
    simp only [microStep, hop]
    refine ⟨?_, fun t' h => by simp [upd, h]⟩
    refine .same (fun m => ?_) ?_ (by simp [ownsT, upd]) <;> simp
  | dropg gd =>
    have ho : ownsT (st.th t) = (st.th t).loc.node := by simp [ownsT, hop]
    rw [ho]
    have hh := stepGD_own st.sh gd (st.th t).loc.node
    simp only [microStep, hop]
    generalize stepGD st.sh gd = x at *
    obtain ⟨s', gd', evs⟩ := x
    cases gd' <;> (simp only []; fin_own hh)
  | ginto h p gi =>
    have ho : ownsT (st.th t) = (st.th t).loc.node := by simp [ownsT, hop]
    rw [ho]
    have hh := stepGI_own st.sh gi (st.th t).loc.node
    simp only [microStep, hop]
    generalize stepGI st.sh gi = x at *
    obtain ⟨s', gi', evs⟩ := x
    cases gi' <;> (simp only []; fin_own hh)
  | swapSw c a out isStore =>
    have ho : ownsT (st.th t) = (st.th t).loc.node := by simp [ownsT, hop]
    rw [ho]
    simp only [microStep, hop]
    split
    · refine ⟨.same (fun m => rfl) rfl (by simp [ownsT, ownsPP, upd]), fun t' h => by simp [upd, h]⟩
    · exact ⟨.same (fun _ => rfl) rfl (by simp [ownsT, hop]), fun _ _ => rfl⟩
  | swapPay c out old isStore pp =>
    have ho : ownsT (st.th t) = ownsPP (st.th t).loc pp := by simp [ownsT, hop]
    rw [ho]
    have hh := stepPP_own st.cfg old c st.sh (st.th t).loc b pp
    simp only [microStep, hop]
    generalize stepPP st.cfg old c st.sh (st.th t).loc b pp = x at *
    obtain ⟨s', l', pp', evs⟩ := x
    cases pp' <;> (simp only []; (repeat' split) <;> fin_own hh)
  | swapDrop c old =>
    have ho : ownsT (st.th t) = (st.th t).loc.node := by simp [ownsT, hop]
    rw [ho]
    simp only [microStep, hop]
    refine ⟨?_, fun t' h => by simp [upd, h]⟩
    refine .same (fun m => ?_) ?_ (by simp [ownsT, upd]) <;> simp
  | cas c cur keep curPtr new g cp =>
    have ho : ownsT (st.th t) = ownsCP (st.th t).loc cp := by simp [ownsT, hop]
    rw [ho]
    have hh := stepCP_own st.cfg c curPtr new st.sh (st.th t).loc b cp
    simp only [microStep, hop]
    generalize stepCP st.cfg c curPtr new st.sh (st.th t).loc b cp = x at *
    obtain ⟨s', l', cp', evs⟩ := x
    cases cp' <;> (simp only []; (try (cases cur <;> cases keep)) <;> fin_own hh)
  | rcu c out tries rp =>
    have ho : ownsT (st.th t) = ownsRP (st.th t).loc rp := by simp [ownsT, hop]
    rw [ho]
    have hh := stepRP_own st.cfg c st.sh (st.th t).loc b tries rp
    simp only [microStep, hop]
    generalize stepRP st.cfg c st.sh (st.th t).loc b tries rp = x at *
    obtain ⟨s', l', rp', tr', evs⟩ := x
    cases rp' <;> (simp only []; fin_own hh)
  | cinto c h p pp =>
    have ho : ownsT (st.th t) = ownsPP (st.th t).loc pp := by simp [ownsT, hop]
    rw [ho]
    have hh := stepPP_own st.cfg p c st.sh (st.th t).loc b pp
    simp only [microStep, hop]
    generalize stepPP st.cfg p c st.sh (st.th t).loc b pp = x at *
    obtain ⟨s', l', pp', evs⟩ := x
    cases pp' <;> (simp only []; fin_own hh)
  | dropc c p pp =>
    have ho : ownsT (st.th t) = ownsPP (st.th t).loc pp := by simp [ownsT, hop]
    rw [ho]
    have hh := stepPP_own st.cfg p c st.sh (st.th t).loc b pp
    simp only [microStep, hop]
    generalize stepPP st.cfg p c st.sh (st.th t).loc b pp = x at *
    obtain ⟨s', l', pp', evs⟩ := x
    cases pp' <;> (simp only []; (try split) <;> fin_own hh)
  | dropcDec c p =>
    have ho : ownsT (st.th t) = (st.th t).loc.node := by simp [ownsT, hop]
    rw [ho]
    simp only [microStep, hop]
    refine ⟨?_, fun t' h => by simp [upd, h]⟩
    refine .same (fun m => ?_) ?_ (by simp [ownsT, upd]) <;> simp

end M

namespace M
open Consts

/-! ## The invariant -/

structure OwnInv (st : State) : Prop where
  /-- an owned node exists -/
  lt : ∀ t n, ownsT (st.th t) = some n → n < st.sh.nNodes
  /-- … and is marked in use -/
  used : ∀ t n, ownsT (st.th t) = some n → (st.sh.nodes n).inUse = nodeUsed
  /-- … by nobody else -/
  excl : ∀ t t' n, t ≠ t' → ownsT (st.th t) = some n → ownsT (st.th t') ≠ some n
  /-- nodes that do not exist yet look `USED` (so they can be neither claimed nor released) -/
  beyond : ∀ n, st.sh.nNodes ≤ n → (st.sh.nodes n).inUse = nodeUsed

theorem OwnInv.step {st : State} (h : OwnInv st) (t : Nat) (b : Bool) : OwnInv (microStep st t b).1 := by
  obtain ⟨hs, hoth⟩ := microStep_own st t b
  have hd := Consts.node_states_distinct
  generalize (microStep st t b).1 = st' at *
  -- ownership of the other threads is what it was
  have oth : ∀ t', t' ≠ t → ownsT (st'.th t') = ownsT (st.th t') := fun t' ht' => by rw [hoth t' ht']
  cases hs with
  | same hiu hn ho =>
    have all : ∀ t', ownsT (st'.th t') = ownsT (st.th t') := fun t' => by
      by_cases ht : t' = t
      · subst ht; exact ho
      · exact oth t' ht
    refine ⟨fun t' n hh => ?_, fun t' n hh => ?_, fun t1 t2 n hne h1 => ?_, fun n hn' => ?_⟩
    · rw [hn]; exact h.lt t' n (all t' ▸ hh)
    · rw [hiu]; exact h.used t' n (all t' ▸ hh)
    · rw [all t2]; exact h.excl t1 t2 n hne (all t1 ▸ h1)
    · rw [hiu]; exact h.beyond n (hn ▸ hn')
  | release n v hc hiu hn ho =>
    have all : ∀ t', ownsT (st'.th t') = ownsT (st.th t') := fun t' => by
      by_cases ht : t' = t
      · subst ht; exact ho
      · exact oth t' ht
    have nobody : ∀ t', ownsT (st.th t') ≠ some n := fun t' hh => hc (h.used t' n hh)
    have hlt : n < st.sh.nNodes := by
      by_cases hl : n < st.sh.nNodes
      · exact hl
      · exact absurd (h.beyond n (by omega)) hc
    refine ⟨fun t' m hh => ?_, fun t' m hh => ?_, fun t1 t2 m hne h1 => ?_, fun m hm => ?_⟩
    · rw [hn]; exact h.lt t' m (all t' ▸ hh)
    · rw [hiu]
      have hm : m ≠ n := fun e => nobody t' (e ▸ (all t' ▸ hh))
      simp only [hm, ↓reduceIte]; exact h.used t' m (all t' ▸ hh)
    · rw [all t2]; exact h.excl t1 t2 m hne (all t1 ▸ h1)
    · rw [hiu]
      have hm' : m ≠ n := by rw [hn] at hm; omega
      simp only [hm', ↓reduceIte]; exact h.beyond m (hn ▸ hm)
  | claim n hc _ hiu hn hob ho =>
    have nobody : ∀ t', ownsT (st.th t') ≠ some n := fun t' hh => by
      have := h.used t' n hh; rw [hc] at this; exact hd.1 this
    have hlt : n < st.sh.nNodes := by
      by_cases hl : n < st.sh.nNodes
      · exact hl
      · have := h.beyond n (by omega); rw [hc] at this; exact absurd this hd.1
    refine ⟨fun t' m hh => ?_, fun t' m hh => ?_, fun t1 t2 m hne h1 h2 => ?_, fun m hm => ?_⟩
    · rw [hn]
      by_cases ht : t' = t
      · subst ht; rw [ho] at hh; cases hh; exact hlt
      · exact h.lt t' m (oth t' ht ▸ hh)
    · rw [hiu]
      by_cases ht : t' = t
      · subst ht; rw [ho] at hh; cases hh; simp
      · have hh' := oth t' ht ▸ hh
        have hm : m ≠ n := fun e => nobody t' (e ▸ hh')
        simp only [hm, ↓reduceIte]; exact h.used t' m hh'
    · by_cases ht1 : t1 = t
      · subst ht1
        rw [ho] at h1; cases h1
        have ht2 : t2 ≠ t1 := fun e => hne e.symm
        exact nobody t2 (oth t2 ht2 ▸ h2)
      · by_cases ht2 : t2 = t
        · subst ht2
          rw [ho] at h2; cases h2
          exact nobody t1 (oth t1 ht1 ▸ h1)
        · exact h.excl t1 t2 m hne (oth t1 ht1 ▸ h1) (oth t2 ht2 ▸ h2)
    · rw [hiu]
      have hm' : m ≠ n := by rw [hn] at hm; omega
      simp only [hm', ↓reduceIte]; exact h.beyond m (hn ▸ hm)
  | fresh hiu hn hob ho =>
    have nobody : ∀ t', ownsT (st.th t') ≠ some st.sh.nNodes := fun t' hh => by
      have := h.lt t' _ hh; omega
    refine ⟨fun t' m hh => ?_, fun t' m hh => ?_, fun t1 t2 m hne h1 h2 => ?_, fun m hm => ?_⟩
    · rw [hn]
      by_cases ht : t' = t
      · subst ht; rw [ho] at hh; cases hh; omega
      · have := h.lt t' m (oth t' ht ▸ hh); omega
    · rw [hiu]
      by_cases ht : t' = t
      · subst ht; rw [ho] at hh; cases hh; simp
      · have hh' := oth t' ht ▸ hh
        have hm : m ≠ st.sh.nNodes := fun e => nobody t' (e ▸ hh')
        simp only [hm, ↓reduceIte]; exact h.used t' m hh'
    · by_cases ht1 : t1 = t
      · subst ht1
        rw [ho] at h1; cases h1
        have ht2 : t2 ≠ t1 := fun e => hne e.symm
        exact nobody t2 (oth t2 ht2 ▸ h2)
      · by_cases ht2 : t2 = t
        · subst ht2
          rw [ho] at h2; cases h2
          exact nobody t1 (oth t1 ht1 ▸ h1)
        · exact h.excl t1 t2 m hne (oth t1 ht1 ▸ h1) (oth t2 ht2 ▸ h2)
    · rw [hiu]
      have hm' : m ≠ st.sh.nNodes := by rw [hn] at hm; omega
      simp only [hm', ↓reduceIte]; exact h.beyond m (by rw [hn] at hm; omega)
  | cool n hob hiu hn ho =>
    have hlt := h.lt t n hob
    have others_not : ∀ t', t' ≠ t → ownsT (st.th t') ≠ some n := fun t' ht' =>
      h.excl t t' n (fun e => ht' e.symm) hob
    refine ⟨fun t' m hh => ?_, fun t' m hh => ?_, fun t1 t2 m hne h1 h2 => ?_, fun m hm => ?_⟩
    · rw [hn]
      by_cases ht : t' = t
      · subst ht; rw [ho] at hh; cases hh
      · exact h.lt t' m (oth t' ht ▸ hh)
    · rw [hiu]
      by_cases ht : t' = t
      · subst ht; rw [ho] at hh; cases hh
      · have hh' := oth t' ht ▸ hh
        have hm : m ≠ n := fun e => others_not t' ht (e ▸ hh')
        simp only [hm, ↓reduceIte]; exact h.used t' m hh'
    · by_cases ht1 : t1 = t
      · subst ht1; rw [ho] at h1; cases h1
      · by_cases ht2 : t2 = t
        · subst ht2; rw [ho] at h2; cases h2
        · exact h.excl t1 t2 m hne (oth t1 ht1 ▸ h1) (oth t2 ht2 ▸ h2)
    · rw [hiu]
      have hm' : m ≠ n := by rw [hn] at hm; omega
      simp only [hm', ↓reduceIte]; exact h.beyond m (hn ▸ hm)

end M

namespace M
open Consts

/-! ## Executions -/

/-- initial state: any configuration and any programs; nothing allocated, no thread has a node -/
def State.initial (cfg : Cfg) (progs : Nat → List (String × Op)) : State :=
  { cfg := cfg, th := fun t => { prog := progs t } }

def run (st : State) : List (Nat × Bool) → State
  | [] => st
  | (t, b) :: rest => run (microStep st t b).1 rest

/-- every state of every execution: any number of threads, any programs, any schedule, any
    spurious compare-exchange failures, any wrap modulus -/
def Reachable (st : State) : Prop :=
  ∃ cfg progs sched, st = run (State.initial cfg progs) sched

theorem OwnInv.initial (cfg : Cfg) (progs : Nat → List (String × Op)) : OwnInv (State.initial cfg progs) := by
  refine ⟨fun t n h => ?_, fun t n h => ?_, fun t t' n _ h => ?_, fun n _ => rfl⟩ <;>
    simp [State.initial, ownsT] at h

theorem OwnInv.run {st : State} (h : OwnInv st) : ∀ sched, OwnInv (run st sched) := by
  intro sched
  induction sched generalizing st with
  | nil => exact h
  | cons x rest ih => obtain ⟨t, b⟩ := x; exact ih (h.step t b)

theorem OwnInv.reachable {st : State} (h : Reachable st) : OwnInv st := by
  obtain ⟨cfg, progs, sched, rfl⟩ := h
  exact (OwnInv.initial cfg progs).run sched

/-! ## Where a thread is inside `start_cooldown` -/

def LP.cd? : LP → Option CD
  | .cool cd => some cd
  | _ => none
def PP.lp? : PP → Option LP
  | .hload _ ld => some ld
  | _ => none
def CP.lp? : CP → Option LP
  | .load ld => some ld
  | .pay _ pp => pp.lp?
  | _ => none
def RP.lp? : RP → Option LP
  | .load ld => some ld
  | .cas _ _ cp => cp.lp?
  | _ => none
/-- the (innermost) load in progress of a thread -/
def OpSt.lp? : OpSt → Option LP
  | .load _ _ ld => some ld
  | .loadFull _ _ ld => some ld
  | .swapPay _ _ _ _ pp => pp.lp?
  | .cinto _ _ _ pp => pp.lp?
  | .dropc _ _ pp => pp.lp?
  | .cas _ _ _ _ _ _ cp => cp.lp?
  | .rcu _ _ _ rp => rp.lp?
  | _ => none
/-- the `start_cooldown` in progress of a thread: at thread exit, or at the generation wrap -/
def OpSt.cd? : OpSt → Option CD
  | .exitCool cd => some cd
  | op => op.lp?.bind LP.cd?

theorem ownsLP_of_cd (l : Locals) (ld : LP) (n : Nat) (h : ld.cd? = some (.swap n)) : ownsLP l ld = some n := by
  cases ld <;> simp [LP.cd?] at h
  subst h; rfl

theorem ownsPP_of_lp (l : Locals) (pp : PP) (ld : LP) (h : pp.lp? = some ld) : ownsPP l pp = ownsLP l ld := by
  cases pp <;> simp [PP.lp?] at h
  subst h; rfl

theorem ownsCP_of_lp (l : Locals) (cp : CP) (ld : LP) (h : cp.lp? = some ld) : ownsCP l cp = ownsLP l ld := by
  cases cp <;> simp [CP.lp?] at h
  · subst h; rfl
  · exact ownsPP_of_lp l _ ld h

theorem ownsRP_of_lp (l : Locals) (rp : RP) (ld : LP) (h : rp.lp? = some ld) : ownsRP l rp = ownsLP l ld := by
  cases rp <;> simp [RP.lp?] at h
  · subst h; rfl
  · exact ownsCP_of_lp l _ ld h

theorem ownsT_of_lp (th : Thread) (ld : LP) (h : th.op.lp? = some ld) : ownsT th = ownsLP th.loc ld := by
  unfold ownsT
  cases hop : th.op <;> simp [hop, OpSt.lp?] at h ⊢
  · subst h; rfl
  · subst h; rfl
  · exact ownsPP_of_lp _ _ ld h
  · exact ownsCP_of_lp _ _ ld h
  · exact ownsRP_of_lp _ _ ld h
  · exact ownsPP_of_lp _ _ ld h
  · exact ownsPP_of_lp _ _ ld h

theorem owns_of_cooldown (th : Thread) (n : Nat) (h : th.op.cd? = some (.swap n)) : ownsT th = some n := by
  cases hop : th.op with
  | exitCool cd =>
    simp only [OpSt.cd?, hop] at h
    cases h; simp [ownsT, hop, ownsCD]
  | _ =>
    simp only [OpSt.cd?, hop] at h
    cases hl : th.op.lp? with
    | none => rw [hop] at hl; simp [hl] at h
    | some ld =>
      rw [hop] at hl
      simp only [hl, Option.bind] at h
      rw [ownsT_of_lp th ld (hop ▸ hl)]
      exact ownsLP_of_cd _ ld n h

end M
