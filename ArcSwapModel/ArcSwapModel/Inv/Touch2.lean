import ArcSwapModel.Inv.Touch

/-!
# Why the object a step touches is alive: the operation's own units cover it
-/

namespace M
open Consts

/-- the three covers: a unit beyond the claims; the fallback's increment (not covered here); the
    promotion of a confirmed borrowed guard -/
def Cov (K a : Nat) (claims : List (Nat × Nat)) (units : Nat) (lp : Option LP) : Prop :=
  claims.length + 1 ≤ units ∨ lp = some (.fokInc a) ∨
    (lp = none ∧ ∃ n i, n < K ∧ i < slotCnt ∧ (n, i) ∈ claims)

theorem Cov.mono {K a : Nat} {c1 c2 : List (Nat × Nat)} {u1 u2 : Nat} {lp : Option LP} (h : Cov K a c1 u1 lp)
    (hsub : ∀ x, x ∈ c1 → x ∈ c2) (hu : c1.length + 1 ≤ u1 → c2.length + 1 ≤ u2) : Cov K a c2 u2 lp := by
  rcases h with h | h | ⟨h1, n, i, h2, h3, h4⟩
  · exact Or.inl (hu h)
  · exact Or.inr (Or.inl h)
  · exact Or.inr (Or.inr ⟨h1, n, i, h2, h3, hsub _ h4⟩)

theorem LP.touch_cov (lp : LP) (l : Locals) (a : Nat) (h : lp.touch = some a) :
    (lp.claims a l).length + 1 ≤ uLP lp a ∨ lp = .fokInc a := by
  cases lp <;> first
    | (cases h; done)
    | (simp only [LP.touch, Option.some.injEq] at h; subst h; right; rfl)
    | (simp only [LP.touch, Option.some.injEq] at h; subst h; left; simp [LP.claims, uLP, u])

theorem GD.touch_cov (gd : GD) (a : Nat) (h : gd.touch = some a) : (gd.claims a).length + 1 ≤ uGD gd a := by
  cases gd <;> first
    | (cases h; done)
    | (simp only [GD.touch, Option.some.injEq] at h; subst h; simp [GD.claims, uGD, u])

theorem GI.touch_cov (K r : Nat) (gi : GI) (a : Nat) (hk : gi.ok K r) (h : gi.touch = some a) :
    (gi.claims a).length + 1 ≤ uGI r gi a ∨ ∃ n i, n < K ∧ i < slotCnt ∧ (n, i) ∈ gi.claims a := by
  cases gi with
  | inc p n i =>
    simp only [GI.touch, Option.some.injEq] at h; subst h
    exact Or.inr ⟨n, i, hk.1, hk.2.1, mem_one _ rfl⟩
  | dec p => simp only [GI.touch, Option.some.injEq] at h; subst h; left; simp [GI.claims, uGI, u]
  | _ => cases h

theorem PP.touch_cov (K p : Nat) (pp : PP) (l : Locals) (a : Nat) (hk : pp.ok K) (h : pp.touch p = some a) :
    Cov K a (pp.claims a l) (uPP p pp a) pp.lp? ∨ (a = p ∧ (pp = .inc ∨ ∃ n j, pp = .slotInc n j)) := by
  cases pp with
  | inc => simp only [PP.touch, Option.some.injEq] at h; exact Or.inr ⟨h.symm, Or.inl rfl⟩
  | slotInc n j => simp only [PP.touch, Option.some.injEq] at h; exact Or.inr ⟨h.symm, Or.inr ⟨n, j, rfl⟩⟩
  | dec => simp only [PP.touch, Option.some.injEq] at h; subst h; left; left; simp [PP.claims, uPP, u]
  | hdrop x r =>
    simp only [PP.touch, Option.some.injEq] at h; subst h; left; left
    simp only [PP.claims, uPP, u, ↓reduceIte, List.length_nil]; omega
  | hload x ld =>
    left
    rcases LP.touch_cov ld l a h with h1 | h1
    · left; simp only [PP.claims, uPP]; omega
    · right; left; subst h1; rfl
  | hinto x r gi =>
    left
    rcases GI.touch_cov K r gi a hk h with h1 | ⟨n, i, h2, h3, h4⟩
    · left; simp only [PP.claims, uPP]; omega
    · exact Or.inr (Or.inr ⟨rfl, n, i, h2, h3, h4⟩)
  | _ => cases h

theorem CP.touch_cov (K cur new : Nat) (cp : CP) (l : Locals) (a : Nat) (hk : cp.ok K cur) (h : cp.touch new = some a) :
    Cov K a (cp.claims a l) (uCP new cp a) cp.lp? := by
  cases cp with
  | dropNew old =>
    simp only [CP.touch, Option.some.injEq] at h; subst h; left
    have := Guard.claims_len old new
    simp only [CP.claims, uCP, u, ↓reduceIte]; omega
  | decOld old =>
    simp only [CP.touch, Option.some.injEq] at h; subst h; left
    have := Guard.claims_len old old.ptr
    have h3 : uG old old.ptr = 1 := by simp [uG, u]
    simp only [CP.claims, uCP]; omega
  | load ld =>
    rcases LP.touch_cov ld l a h with h1 | h1
    · left; simp only [CP.claims, uCP]; omega
    · right; left; subst h1; rfl
  | pay old pp =>
    have hg := Guard.claims_len old a
    rcases PP.touch_cov K old.ptr pp l a hk.1 h with h1 | ⟨h1, h2⟩
    · refine h1.mono (fun x hx => List.mem_append_right _ hx) (fun hh => ?_)
      simp only [CP.claims, uCP, List.length_append]; omega
    · left
      have h3 : uG old a = 1 := by simp [uG, u, h1]
      have h4 : (pp.claims a l).length = 0 := by
        rcases h2 with rfl | ⟨n, j, rfl⟩ <;> rfl
      simp only [CP.claims, uCP, List.length_append]; omega
  | dropOld gd =>
    left
    have := GD.touch_cov gd a h
    simp only [CP.claims, uCP]; omega
  | _ => cases h

theorem RP.touch_cov (K : Nat) (rp : RP) (l : Locals) (a : Nat) (hk : rp.ok K) (h : rp.touch = some a) :
    Cov K a (rp.claims a l) (uRP rp a) rp.lp? := by
  cases rp with
  | load ld =>
    rcases LP.touch_cov ld l a h with h1 | h1
    · left; exact h1
    · right; left; subst h1; rfl
  | cas cur x cp =>
    have hg := Guard.claims_len cur a
    refine (CP.touch_cov K cur.ptr x cp l a hk.2 h).mono (fun y hy => List.mem_append_right _ hy) (fun hh => ?_)
    simp only [RP.claims, uRP, List.length_append]; omega
  | intoPrev cur prev gi =>
    have hg := Guard.claims_len cur a
    rcases GI.touch_cov K prev.ptr gi a hk.2 h with h1 | ⟨n, i, h2, h3, h4⟩
    · left; simp only [RP.claims, uRP, List.length_append]; omega
    · exact Or.inr (Or.inr ⟨rfl, n, i, h2, h3, List.mem_append_right _ h4⟩)
  | dropCur res gd =>
    left
    have := GD.touch_cov gd a h
    simp only [RP.claims, uRP]; omega
  | dropCurLoop prev gd =>
    left
    have hg := Guard.claims_len prev a
    have := GD.touch_cov gd a h
    simp only [RP.claims, uRP, List.length_append]; omega
  | _ => cases h

theorem OpSt.touch_cov (K : Nat) (op : OpSt) (l : Locals) (a : Nat) (hk : op.okL K) (h : op.touch = some a) :
    Cov K a (op.claims a l) (uOp op a) op.lp? ∨ (∃ c, op.consWalk c a) ∨ (∃ c, op = .dropcDec c a) := by
  cases op with
  | load c g ld =>
    left
    rcases LP.touch_cov ld l a h with h1 | h1
    · left; exact h1
    · right; left; subst h1; rfl
  | loadFull c x ld =>
    left
    rcases LP.touch_cov ld l a h with h1 | h1
    · left; exact h1
    · right; left; subst h1; rfl
  | loadFullInto c x r gi =>
    left
    rcases GI.touch_cov K r gi a hk h with h1 | ⟨n, i, h2, h3, h4⟩
    · left; exact h1
    · exact Or.inr (Or.inr ⟨rfl, n, i, h2, h3, h4⟩)
  | ginto x p gi =>
    left
    rcases GI.touch_cov K p gi a hk h with h1 | ⟨n, i, h2, h3, h4⟩
    · left; exact h1
    · exact Or.inr (Or.inr ⟨rfl, n, i, h2, h3, h4⟩)
  | cloneh x y a0 => simp only [OpSt.touch, Option.some.injEq] at h; subst h; left; left; simp [OpSt.claims, uOp, u]
  | droph a0 => simp only [OpSt.touch, Option.some.injEq] at h; subst h; left; left; simp [OpSt.claims, uOp, u]
  | swapDrop c a0 => simp only [OpSt.touch, Option.some.injEq] at h; subst h; left; left; simp [OpSt.claims, uOp, u]
  | dropcDec c a0 => simp only [OpSt.touch, Option.some.injEq] at h; subst h; exact Or.inr (Or.inr ⟨c, rfl⟩)
  | dropg gd => left; left; exact GD.touch_cov gd a h
  | swapPay c out old isStore pp =>
    left
    rcases PP.touch_cov K old pp l a hk h with h1 | ⟨h1, h2⟩
    · refine h1.mono (fun x hx => hx) (fun hh => ?_)
      simp only [OpSt.claims, uOp]; omega
    · left
      subst h1
      have h4 : (pp.claims a l).length = 0 := by
        rcases h2 with rfl | ⟨n, j, rfl⟩ <;> rfl
      simp only [OpSt.claims, uOp, u, ↓reduceIte]; omega
  | cinto c x p pp =>
    rcases PP.touch_cov K p pp l a hk h with h1 | ⟨h1, h2⟩
    · exact Or.inl h1
    · subst h1; exact Or.inr (Or.inl ⟨c, Or.inl ⟨x, pp, rfl⟩⟩)
  | dropc c p pp =>
    rcases PP.touch_cov K p pp l a hk h with h1 | ⟨h1, h2⟩
    · exact Or.inl h1
    · subst h1; exact Or.inr (Or.inl ⟨c, Or.inr ⟨pp, rfl⟩⟩)
  | cas c cur keep curPtr new g cp =>
    left
    have hg := gClaims_len keep a
    refine (CP.touch_cov K curPtr new cp l a hk.1 h).mono (fun y hy => List.mem_append_left _ hy) (fun hh => ?_)
    simp only [OpSt.claims, uOp, List.length_append]; omega
  | rcu c out tries rp => left; exact RP.touch_cov K rp l a hk h
  | _ => cases h

end M
