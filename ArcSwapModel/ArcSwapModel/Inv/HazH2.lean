import ArcSwapModel.Inv.HazH1

/-!
# The candidate of the fallback path is protected while its reader is inside the window

`CandInv`: while a reader is between the read of its candidate (`f3`) and the end of its window
(`f5`), the candidate is still the content of the container it was read from, or a writer that has
taken it out of *that* container is walking the list and has not got past the help on the reader's
node (`PP.preHelp`).  Along executions in which no hand-over succeeds (`NoEnv`), such a writer
cannot get past: inside the window the control word is the reader's generation and the announced
address is the writer's container, so the writer helps, and its hand-over would succeed.
-/

namespace M
open Consts

theorem OpSt.walkC_cell {op : OpSt} {x : Nat × PP} (h : op.walkC? = some x) : ∃ c, op.cell? = some c := by
  cases op <;> first | exact ⟨_, rfl⟩ | cases h

/-- `microStep_walk_fwd`, naming the container -/
theorem microStep_walk_fwd2 (st : State) (t : Nat) (b : Bool) (a : Nat) (pp : PP)
    (h : (st.th t).op.walk? = some (a, pp)) :
    ∃ c, (st.th t).op.cell? = some c ∧
      (microStep st t b).1.sh.nodes = (stepPP st.cfg a c st.sh (st.th t).loc b pp).1.nodes ∧
      (microStep st t b).1.sh.head = (stepPP st.cfg a c st.sh (st.th t).loc b pp).1.head ∧
      ((microStep st t b).1.th t).loc = (stepPP st.cfg a c st.sh (st.th t).loc b pp).2.1 ∧
      (((microStep st t b).1.th t).op.walk? = some (a, (stepPP st.cfg a c st.sh (st.th t).loc b pp).2.2.1) ∨
        (stepPP st.cfg a c st.sh (st.th t).loc b pp).2.2.1 = .done) := by
  cases hop : (st.th t).op with
  | swapPay c out old isStore pp0 =>
    rw [hop] at h
    simp only [OpSt.walk?, Option.some.injEq, Prod.mk.injEq] at h
    obtain ⟨rfl, rfl⟩ := h
    refine ⟨c, rfl, ?_⟩
    simp only [microStep, hop]
    split
    · rename_i s' l' evs heq; rw [heq]
      refine ⟨?_, ?_, ?_, Or.inr rfl⟩ <;> (repeat' split) <;> simp
    · rename_i s' l' pp' evs hne heq; rw [heq]
      exact ⟨rfl, rfl, by simp, Or.inl (by simp [OpSt.walk?])⟩
  | cas c cur keep curPtr new g cp =>
    rw [hop] at h
    simp only [OpSt.walk?] at h
    have h1 := stepCP_walk_fwd st.cfg c curPtr new st.sh (st.th t).loc b cp a pp h
    refine ⟨c, rfl, ?_⟩
    simp only [microStep, hop]
    split
    · rename_i s' l' old evs heq
      rw [heq] at h1
      obtain ⟨h2, h3, h4⟩ := h1
      dsimp only at h2 h3
      refine ⟨?_, ?_, by simp [← h3], ?_⟩
      · rw [← h2]; cases cur <;> cases keep <;> rfl
      · rw [← h2]; cases cur <;> cases keep <;> rfl
      · rcases h4 with h4 | h4
        · simp [CP.walk?] at h4
        · exact Or.inr h4
    · rename_i s' l' cp' evs hne heq
      rw [heq] at h1
      obtain ⟨h2, h3, h4⟩ := h1
      dsimp only at h2 h3 h4
      refine ⟨by rw [← h2], by rw [← h2], by simp [← h3], ?_⟩
      rcases h4 with h4 | h4
      · left; simpa [OpSt.walk?] using h4
      · exact Or.inr h4
  | rcu c out tries rp =>
    rw [hop] at h
    simp only [OpSt.walk?] at h
    have h1 := stepRP_walk_fwd st.cfg c st.sh (st.th t).loc b tries rp a pp h
    refine ⟨c, rfl, ?_⟩
    simp only [microStep, hop]
    split
    · rename_i s' l' r tries' evs heq
      rw [heq] at h1
      obtain ⟨h2, h3, h4⟩ := h1
      dsimp only at h2 h3
      refine ⟨by rw [← h2], by rw [← h2], by simp [← h3], ?_⟩
      rcases h4 with h4 | h4
      · simp [RP.walk?] at h4
      · exact Or.inr h4
    · rename_i s' l' rp' tries' evs hne heq
      rw [heq] at h1
      obtain ⟨h2, h3, h4⟩ := h1
      dsimp only at h2 h3 h4
      refine ⟨by rw [← h2], by rw [← h2], by simp [← h3], ?_⟩
      rcases h4 with h4 | h4
      · left; simpa [OpSt.walk?] using h4
      · exact Or.inr h4
  | _ => rw [hop] at h; cases h

/-- `microStep_walkC_fwd`, naming the container -/
theorem microStep_walkC_fwd2 (st : State) (t : Nat) (b : Bool) (a : Nat) (pp : PP)
    (h : (st.th t).op.walkC? = some (a, pp)) :
    ∃ c, (st.th t).op.cell? = some c ∧
      (microStep st t b).1.sh.nodes = (stepPP st.cfg a c st.sh (st.th t).loc b pp).1.nodes ∧
      ((microStep st t b).1.th t).loc = (stepPP st.cfg a c st.sh (st.th t).loc b pp).2.1 ∧
      (((microStep st t b).1.th t).op.walkC? = some (a, (stepPP st.cfg a c st.sh (st.th t).loc b pp).2.2.1) ∨
        (stepPP st.cfg a c st.sh (st.th t).loc b pp).2.2.1 = .done) ∧
      (microStep st t b).1.sh.head = (stepPP st.cfg a c st.sh (st.th t).loc b pp).1.head := by
  cases hop : (st.th t).op with
  | cinto c x p pp0 =>
    rw [hop] at h
    simp only [OpSt.walkC?, Option.some.injEq, Prod.mk.injEq] at h
    obtain ⟨rfl, rfl⟩ := h
    refine ⟨c, rfl, ?_⟩
    simp only [microStep, hop]
    split
    · rename_i s' l' evs heq; rw [heq]; exact ⟨rfl, by simp, Or.inr rfl, rfl⟩
    · rename_i s' l' pp' evs hne heq; rw [heq]; exact ⟨rfl, by simp, Or.inl (by simp [OpSt.walkC?]), rfl⟩
  | dropc c p pp0 =>
    rw [hop] at h
    simp only [OpSt.walkC?, Option.some.injEq, Prod.mk.injEq] at h
    obtain ⟨rfl, rfl⟩ := h
    refine ⟨c, rfl, ?_⟩
    simp only [microStep, hop]
    split
    · rename_i s' l' evs heq; rw [heq]; split <;> exact ⟨rfl, by simp, Or.inr rfl, rfl⟩
    · rename_i s' l' pp' evs hne heq; rw [heq]; exact ⟨rfl, by simp, Or.inl (by simp [OpSt.walkC?]), rfl⟩
  | _ =>
    have hw : (st.th t).op.walk? = some (a, pp) := by rw [hop] at h ⊢; exact h
    obtain ⟨c, h0, h1, h2, h4, h5⟩ := microStep_walk_fwd2 st t b a pp hw
    rw [hop] at h0
    exact ⟨c, h0, h1, h4, h5.imp (fun x => OpSt.walkC_of_walk x) id, h2⟩

/-- the candidate of a reader inside its window, with the window's generation -/
def LP.cand? : LP → Option (Nat × Nat)
  | .chDbg g a | .f4 g a | .f5 g a => some (g, a)
  | _ => none

theorem LP.cand_announced {lp : LP} {x : Nat × Nat} (h : lp.cand? = some x) : lp.announced = true := by
  cases lp <;> first | rfl | cases h

theorem LP.cand_win {lp : LP} {g a : Nat} (h : lp.cand? = some (g, a)) : lp.win = some g := by
  cases lp <;> first | (cases h; done) | (simp only [LP.cand?, Option.some.injEq, Prod.mk.injEq] at h; simp [LP.win, h.1])

theorem stepLP_cand (cfg : Cfg) (c : Nat) (s : Shared) (l : Locals) (b : Bool) (lp : LP) (g a : Nat)
    (h : (stepLP cfg c s l b lp).2.2.1.cand? = some (g, a)) :
    (stepLP cfg c s l b lp).2.1.node = l.node ∧ (stepLP cfg c s l b lp).1.cells = s.cells ∧
      ((lp = .f3 g ∧ s.cells c = some a) ∨ lp.cand? = some (g, a)) := by
  cases lp with
  | f3 g0 =>
    simp only [stepLP] at h ⊢
    split
    · rename_i p hp
      simp only [hp, LP.cand?, Option.some.injEq, Prod.mk.injEq] at h
      obtain ⟨rfl, rfl⟩ := h
      exact ⟨rfl, rfl, Or.inl ⟨rfl, hp⟩⟩
    · rename_i hp; simp only [hp] at h; cases h
  | chDbg g0 cand =>
    simp only [stepLP] at h ⊢
    split
    · rename_i hp; simp only [hp] at h; cases h
    · rename_i n hp
      simp only [hp, LP.cand?, Option.some.injEq, Prod.mk.injEq] at h
      refine ⟨rfl, ?_, Or.inr (by simp [LP.cand?, h.1, h.2])⟩
      unfold dbgInUse; split <;> simp
  | f4 g0 cand =>
    simp only [stepLP, LP.cand?, Option.some.injEq, Prod.mk.injEq] at h ⊢
    refine ⟨trivial, ?_, Or.inr ⟨h.1, h.2⟩⟩
    split <;> simp
  | f5 g0 cand => simp only [stepLP] at h; (repeat' split at h) <;> cases h
  | get ng => simp only [stepLP] at h; (repeat' split at h) <;> cases h
  | reget ng => simp only [stepLP] at h; (repeat' split at h) <;> cases h
  | cool cd => simp only [stepLP] at h; (repeat' split at h) <;> cases h
  | _ => simp only [stepLP] at h <;> (repeat' split at h) <;> cases h

def CandInv (st : State) (L : List Nat) : Prop :=
  ∀ o n c g a lp, (st.th o).op.lp? = some lp → lp.cand? = some (g, a) → (st.th o).loc.node = some n →
    (st.th o).op.cell? = some c →
    st.sh.cells c = some a ∨
      ((st.th o).op.cons = false ∧ ∃ w pp, (st.th w).op.walkC? = some (a, pp) ∧ (st.th w).op.cell? = some c ∧
        pp.preHelp L n g)

theorem CandInv.initial (cfg : Cfg) (progs : Nat → List (String × Op)) : CandInv (State.initial cfg progs) [] :=
  fun o n c g a lp h => by simp [State.initial, OpSt.lp?] at h

theorem OpSt.win_of_lp {op : OpSt} {lp : LP} (h : op.lp? = some lp) : op.win = lp.win := by
  rw [OpSt.win_lp, h]; rfl

/-- **one step keeps the candidates protected**, as long as no hand-over succeeds -/
theorem CandInv.step {N T : Nat} {st : State} {L : List Nat} (h : CandInv st L) (hnl : NamedLinked st L)
    (ho : OwnInv st) (hw : WalkNodeC st) (hx : ∀ t, (st.th t).op.cxok) (hb : BusyInv N T st)
    (hctl : CtlInv st) (haa : ActAddr st) (hne : NoEnv st.sh)
    (t : Nat) (b : Bool) (hne' : NoEnv (microStep st t b).1.sh) (htame : Tame2 N st t) (pre : List Nat) :
    CandInv (microStep st t b).1 (pre ++ L) := by
  have hoth := (microStep_own st t b).2
  -- a writer that has not got past the help on `n` stays there
  have walker_keep : ∀ n c g a w pp, n ∈ L → (st.sh.nodes n).control = .gen g → (st.sh.nodes n).activeAddr = some c →
      (st.th w).op.walkC? = some (a, pp) → (st.th w).op.cell? = some c → pp.preHelp L n g →
      ∃ pp', ((microStep st t b).1.th w).op.walkC? = some (a, pp') ∧ ((microStep st t b).1.th w).op.cell? = some c ∧
        pp'.preHelp (pre ++ L) n g := by
    intro n c g a w pp hnL hc1 hc2 hw1 hw2 hpre
    by_cases e : w = t
    · subst e
      obtain ⟨c', hc', hnodes, hloc, hor, hhead⟩ := microStep_walkC_fwd2 st w b a pp hw1
      have : c' = c := by rw [hw2] at hc'; cases hc'; rfl
      subst this
      have hstep := preHelp_step st.cfg a c' st.sh (st.th w).loc b pp L hnl.linked.list.1 n g hnL (hw w a pp hw1) hc1 hc2
        (fun m j => by rw [← hnodes]; exact hne' m j) hpre
      rcases hor with h3 | h3
      · refine ⟨_, h3, ?_, hstep.prepend pre⟩
        obtain ⟨c2, hc2'⟩ := OpSt.walkC_cell h3
        rcases microStep_cellq2 st w b c2 hc2' with ⟨h4, _⟩ | ⟨h4, _⟩
        · rw [hw2] at h4; cases h4; exact hc2'
        · rw [h4] at hw1; cases hw1
      · rw [h3] at hstep; exact absurd hstep (PP.not_preHelp_done L n g)
    · refine ⟨pp, ?_, ?_, hpre.prepend pre⟩
      · rw [hoth w e]; exact hw1
      · rw [hoth w e]; exact hw2
  intro o n c g a lp' hlp hcand hnode hcell
  by_cases e : o = t
  · subst e
    rcases microStep_lp_back st o b lp' hlp with ⟨lp, c0, h1, h2, h3⟩ | h1
    · obtain ⟨c1, hc1, hnodes, hcells, hloc, _⟩ := microStep_lp st o b lp h1
      have ec : c1 = c0 := by rw [h2] at hc1; cases hc1; rfl
      subst ec
      have hcc : c = c1 ∧ ((microStep st o b).1.th o).op.cons = (st.th o).op.cons := by
        rcases microStep_cellq2 st o b c hcell with ⟨h4, h5⟩ | ⟨h4, _⟩
        · rw [h2] at h4; cases h4; exact ⟨rfl, h5⟩
        · rw [h4] at h1; cases h1
      obtain ⟨rfl, hcons⟩ := hcc
      rw [h3] at hcand
      obtain ⟨hl, hcl, hor⟩ := stepLP_cand st.cfg c st.sh (st.th o).loc b lp g a hcand
      have hnode0 : (st.th o).loc.node = some n := by rw [hloc, hl] at hnode; exact hnode
      rcases hor with ⟨_, hq⟩ | hprev
      · left; rw [hcells, hcl]; exact hq
      · rcases h o n c g a lp h1 hprev hnode0 h2 with hq | ⟨hnc, w, pp, hw1, hw2, hpre⟩
        · left; rw [hcells, hcl]; exact hq
        · right
          have hwin : (st.th o).op.win = some g := by rw [OpSt.win_of_lp h1]; exact LP.cand_win hprev
          have hc1 : (st.sh.nodes n).control = .gen g := by
            rcases hctl.inside o g n hwin hnode0 with h5 | ⟨j, h5⟩
            · exact h5
            · exact absurd h5 (hne n j)
          have hc2 := haa o n c lp h1 (LP.cand_announced hprev) hnode0 h2
          obtain ⟨pp', h6, h7, h8⟩ := walker_keep n c g a w pp (hnl.linked.node o n hnode0) hc1 hc2 hw1 hw2 hpre
          exact ⟨by rw [hcons]; exact hnc, w, pp', h6, h7, h8⟩
    · subst h1; cases hcand
  · rw [hoth o e] at hlp hnode hcell ⊢
    have hwin : (st.th o).op.win = some g := by rw [OpSt.win_of_lp hlp]; exact LP.cand_win hcand
    have hc1 : (st.sh.nodes n).control = .gen g := by
      rcases hctl.inside o g n hwin hnode with h5 | ⟨j, h5⟩
      · exact h5
      · exact absurd h5 (hne n j)
    have hc2 := haa o n c lp' hlp (LP.cand_announced hcand) hnode hcell
    rcases h o n c g a lp' hlp hcand hnode hcell with hq | ⟨hnc, w, pp, hw1, hw2, hpre⟩
    · by_cases hq' : (microStep st t b).1.sh.cells c = some a
      · exact Or.inl hq'
      · right
        -- the stepping thread wrote the container
        have hnidle : (st.th t).op ≠ .idle := by
          intro hidle
          apply hq'
          rw [microStep_cells_other st t b c (by rw [hidle]; intro x; cases x) (fun _ txt x rest hp => by
            have := (htame hidle txt _ rest hp).2 c x rfl
            rw [hq] at this; cases this)]
          exact hq
        have hct : (st.th t).op.cell? = some c := by
          refine Classical.byContradiction (fun hne2 => hq' ?_)
          rw [microStep_cells_other st t b c hne2 (fun hi' => absurd hi' hnidle)]; exact hq
        have htc : (st.th t).op.cons = false := by
          cases hcb : (st.th t).op.cons with
          | false => rfl
          | true =>
            exfalso
            have htk := hb.taken t c hcb hct
            cases hob : (st.th o).op.cons with
            | false => have := (hb.free o c hcell hob).2.2; rw [htk] at this; cases this
            | true => exact e (hb.uniq t o c hcb hob hct hcell).symm
        have hoc : (st.th o).op.cons = false := by
          cases hob : (st.th o).op.cons with
          | false => rfl
          | true =>
            exfalso
            have htk := hb.taken o c hob hcell
            have := (hb.free t c hct htc).2.2; rw [htk] at this; cases this
        rcases microStep_cells (N := N) st t b (hx t) (fun e' => absurd e' hnidle) htc c a hq with h1 | ⟨h1, _⟩
        · exact absurd h1 hq'
        · have h1' := OpSt.walkC_of_walk h1
          refine ⟨hoc, t, .start, h1', ?_, PP.preHelp_start _ n g⟩
          obtain ⟨c2, hc2'⟩ := OpSt.walkC_cell h1'
          rcases microStep_cellq2 st t b c2 hc2' with ⟨h4, _⟩ | ⟨h4, _⟩
          · rw [hct] at h4; cases h4; exact hc2'
          · exact absurd h4 hnidle
    · right
      obtain ⟨pp', h6, h7, h8⟩ := walker_keep n c g a w pp (hnl.linked.node o n hnode) hc1 hc2 hw1 hw2 hpre
      exact ⟨hnc, w, pp', h6, h7, h8⟩

end M
