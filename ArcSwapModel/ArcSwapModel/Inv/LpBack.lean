import ArcSwapModel.Inv.AssertFree2

/-!
# Where the innermost load of a thread comes from

Backward companion of `microStep_lp`: the load in progress after a step is the load in progress
before, one step on — or a load that has just started.
-/

namespace M
open Consts

theorem stepPP_lp_back (cfg : Cfg) (p c : Nat) (s : Shared) (l : Locals) (b : Bool) (pp : PP) (lp' : LP)
    (h : (stepPP cfg p c s l b pp).2.2.1.lp? = some lp') :
    (∃ lp, pp.lp? = some lp ∧ lp' = (stepLP cfg c s l b lp).2.2.1) ∨ lp' = .start := by
  cases pp with
  | hload x ld =>
    left
    simp only [stepPP] at h
    split at h
    · split at h <;> simp [PP.lp?] at h
    · rename_i s' l' ld' evs hne heq
      simp only [PP.lp?, Option.some.injEq] at h
      exact ⟨ld, rfl, by rw [heq]; exact h.symm⟩
  | h2 x =>
    right
    simp only [stepPP] at h
    (repeat' split at h) <;> first | (simp only [PP.lp?, Option.some.injEq] at h; exact h.symm) | (simp [PP.lp?] at h)
  | hres x =>
    right
    simp only [stepPP, PP.lp?, Option.some.injEq] at h; exact h.symm
  | h1 x => simp only [stepPP, PP.dispatch] at h; split at h <;> simp [PP.lp?] at h
  | h3 x => simp only [stepPP, PP.dispatch] at h; (repeat' split at h) <;> simp [PP.lp?] at h
  | h7 x r y m => simp only [stepPP, PP.dispatch] at h; (repeat' split at h) <;> simp [PP.lp?] at h
  | hdrop x r => simp only [stepPP, PP.dispatch] at h; (repeat' split at h) <;> simp [PP.lp?] at h
  | slot n j => simp only [stepPP, PP.nextSlot] at h; (repeat' split at h) <;> simp [PP.lp?] at h
  | slotInc n j => simp only [stepPP, PP.nextSlot] at h; (repeat' split at h) <;> simp [PP.lp?] at h
  | _ => simp only [stepPP] at h <;> (repeat' split at h) <;> simp [PP.lp?] at h


theorem stepCP_lp_back (cfg : Cfg) (c cur new : Nat) (s : Shared) (l : Locals) (b : Bool) (cp : CP) (lp' : LP)
    (h : (stepCP cfg c cur new s l b cp).2.2.1.lp? = some lp') :
    (∃ lp, cp.lp? = some lp ∧ lp' = (stepLP cfg c s l b lp).2.2.1) ∨ lp' = .start := by
  cases cp with
  | load ld =>
    left
    simp only [stepCP] at h
    split at h
    · (repeat' split at h) <;> simp [CP.lp?] at h
    · rename_i s' l' ld' evs hne heq
      simp only [CP.lp?, Option.some.injEq] at h
      exact ⟨ld, rfl, by rw [heq]; exact h.symm⟩
  | pay old pp =>
    simp only [stepCP] at h
    split at h
    · split at h <;> simp [CP.lp?] at h
    · rename_i s' l' pp' evs hne heq
      have := stepPP_lp_back cfg old.ptr c s l b pp lp' (by rw [heq]; exact h)
      exact this
  | cx old =>
    right
    simp only [stepCP] at h
    (repeat' split at h) <;> first | (simp only [CP.lp?, Option.some.injEq] at h; exact h.symm) | (simp [CP.lp?, PP.lp?] at h)
  | dropOld gd =>
    right
    simp only [stepCP] at h
    (repeat' split at h) <;> first | (simp only [CP.lp?, Option.some.injEq] at h; exact h.symm) | (simp [CP.lp?] at h)
  | _ => simp only [stepCP] at h <;> simp [CP.lp?] at h

theorem stepRP_lp_back (cfg : Cfg) (c : Nat) (s : Shared) (l : Locals) (b : Bool) (tries : Nat) (rp : RP) (lp' : LP)
    (h : (stepRP cfg c s l b tries rp).2.2.1.lp? = some lp') :
    (∃ lp, rp.lp? = some lp ∧ lp' = (stepLP cfg c s l b lp).2.2.1) ∨ lp' = .start := by
  cases rp with
  | load ld =>
    left
    simp only [stepRP] at h
    split at h
    · simp [RP.lp?] at h
    · rename_i s' l' ld' evs hne heq
      simp only [RP.lp?, Option.some.injEq] at h
      exact ⟨ld, rfl, by rw [heq]; exact h.symm⟩
  | attempt cur =>
    right
    simp only [stepRP, RP.lp?, CP.lp?, Option.some.injEq] at h; exact h.symm
  | cas cur x cp =>
    simp only [stepRP] at h
    split at h
    · (repeat' split at h) <;> simp [RP.lp?] at h
    · rename_i s' l' cp' evs hne heq
      exact stepCP_lp_back cfg c cur.ptr x s l b cp lp' (by rw [heq]; exact h)
  | intoPrev cur prev gi => simp only [stepRP] at h; (repeat' split at h) <;> simp [RP.lp?] at h
  | dropCur res gd => simp only [stepRP] at h; (repeat' split at h) <;> simp [RP.lp?] at h
  | dropCurLoop prev gd => simp only [stepRP] at h; (repeat' split at h) <;> simp [RP.lp?] at h
  | done r => simp only [stepRP] at h; simp [RP.lp?] at h

theorem beginOp_lp (st : State) (t : Nat) (o : Op) (lp' : LP) (h : ((beginOp st t o).1.th t).op.lp? = some lp') :
    lp' = .start := by
  cases o <;> simp only [beginOp] at h <;> (repeat' split at h) <;>
    first
      | (simp [OpSt.lp?, PP.lp?, CP.lp?, RP.lp?] at h; done)
      | (simp only [upd_same, OpSt.lp?, CP.lp?, RP.lp?, Option.some.injEq] at h; exact h.symm)
      | (revert h; dsimp only; (try split) <;> simp [OpSt.lp?, PP.lp?, CP.lp?, RP.lp?]; done)

/-- **where the load in progress comes from**: it is the load in progress before, one step on (with
    the operation's container), or a load that has just started -/
theorem microStep_lp_back (st : State) (t : Nat) (b : Bool) (lp' : LP)
    (h : ((microStep st t b).1.th t).op.lp? = some lp') :
    (∃ lp c, (st.th t).op.lp? = some lp ∧ (st.th t).op.cell? = some c ∧
        lp' = (stepLP st.cfg c st.sh (st.th t).loc b lp).2.2.1) ∨ lp' = .start := by
  cases hop : (st.th t).op with
  | idle =>
    right
    simp only [microStep, hop] at h
    split at h
    · simp only [upd_same] at h; split at h <;> cases h
    · rename_i txt o rest hp
      exact beginOp_lp { st with th := upd st.th t { prog := rest, op := .idle, loc := (st.th t).loc } } t o lp' h
  | load c g ld =>
    left
    simp only [microStep, hop] at h
    split at h
    · simp [OpSt.lp?] at h
    · rename_i s' l' ld' evs hne heq
      simp only [upd_same, OpSt.lp?, Option.some.injEq] at h
      exact ⟨ld, c, rfl, rfl, by rw [heq]; exact h.symm⟩
  | loadFull c x ld =>
    left
    simp only [microStep, hop] at h
    split at h
    · split at h <;> simp [OpSt.lp?] at h
    · rename_i s' l' ld' evs hne heq
      simp only [upd_same, OpSt.lp?, Option.some.injEq] at h
      exact ⟨ld, c, rfl, rfl, by rw [heq]; exact h.symm⟩
  | swapSw c a0 out isStore =>
    simp only [microStep, hop] at h
    split at h
    · simp [OpSt.lp?, PP.lp?] at h
    · rw [hop] at h; cases h
  | swapPay c out old isStore pp =>
    simp only [microStep, hop] at h
    split at h
    · (repeat' split at h) <;> simp [OpSt.lp?] at h
    · rename_i s' l' pp' evs hne heq
      simp only [upd_same, OpSt.lp?] at h
      rcases stepPP_lp_back st.cfg old c st.sh (st.th t).loc b pp lp' (by rw [heq]; exact h) with ⟨lp, h1, h2⟩ | h1
      · exact Or.inl ⟨lp, c, h1, rfl, h2⟩
      · exact Or.inr h1
  | cinto c x p pp =>
    simp only [microStep, hop] at h
    split at h
    · simp [OpSt.lp?] at h
    · rename_i s' l' pp' evs hne heq
      simp only [upd_same, OpSt.lp?] at h
      rcases stepPP_lp_back st.cfg p c st.sh (st.th t).loc b pp lp' (by rw [heq]; exact h) with ⟨lp, h1, h2⟩ | h1
      · exact Or.inl ⟨lp, c, h1, rfl, h2⟩
      · exact Or.inr h1
  | dropc c p pp =>
    simp only [microStep, hop] at h
    split at h
    · split at h <;> simp [OpSt.lp?] at h
    · rename_i s' l' pp' evs hne heq
      simp only [upd_same, OpSt.lp?] at h
      rcases stepPP_lp_back st.cfg p c st.sh (st.th t).loc b pp lp' (by rw [heq]; exact h) with ⟨lp, h1, h2⟩ | h1
      · exact Or.inl ⟨lp, c, h1, rfl, h2⟩
      · exact Or.inr h1
  | cas c cur keep curPtr new g cp =>
    simp only [microStep, hop] at h
    split at h
    · simp [OpSt.lp?] at h
    · rename_i s' l' cp' evs hne heq
      simp only [upd_same, OpSt.lp?] at h
      rcases stepCP_lp_back st.cfg c curPtr new st.sh (st.th t).loc b cp lp' (by rw [heq]; exact h) with ⟨lp, h1, h2⟩ | h1
      · exact Or.inl ⟨lp, c, h1, rfl, h2⟩
      · exact Or.inr h1
  | rcu c out tries rp =>
    simp only [microStep, hop] at h
    split at h
    · simp [OpSt.lp?] at h
    · rename_i s' l' rp' tries' evs hne heq
      simp only [upd_same, OpSt.lp?] at h
      rcases stepRP_lp_back st.cfg c st.sh (st.th t).loc b tries rp lp' (by rw [heq]; exact h) with ⟨lp, h1, h2⟩ | h1
      · exact Or.inl ⟨lp, c, h1, rfl, h2⟩
      · exact Or.inr h1
  | finished => simp only [microStep, hop] at h; cases h
  | _ =>
    simp only [microStep, hop] at h
    (repeat' split at h) <;> simp [OpSt.lp?] at h

end M

namespace M
open Consts

/-- the receiving end of a hand-over -/
def LP.isFr : LP → Bool
  | .fr1 _ _ | .fr2 _ _ _ | .frPay _ _ | .frDec _ _ => true
  | _ => false

theorem stepLP_fr (cfg : Cfg) (c : Nat) (s : Shared) (l : Locals) (b : Bool) (lp : LP)
    (h : (stepLP cfg c s l b lp).2.2.1.isFr = true) :
    lp.isFr = true ∨ ∃ j, (s.nodes (l.node.getD 0)).control = .env j := by
  cases lp with
  | f5 g cand =>
    right
    simp only [stepLP] at h
    split at h
    · split at h <;> cases h
    · split at h
      · rename_i j hj; exact ⟨j, hj⟩
      · cases h
  | fr1 cand j => left; rfl
  | fr2 cand j r => left; rfl
  | frPay cand r => left; rfl
  | frDec cand r => left; rfl
  | _ => simp only [stepLP] at h <;> (repeat' split at h) <;> cases h

/-- no load is at the receiving end of a hand-over -/
def NoFr (st : State) : Prop := ∀ t lp, (st.th t).op.lp? = some lp → lp.isFr = false

theorem NoFr.step {st : State} (h : NoFr st) (hne : NoEnv st.sh) (t : Nat) (b : Bool) : NoFr (microStep st t b).1 := by
  intro u lp' hlp
  by_cases e : u = t
  · subst e
    rcases microStep_lp_back st u b lp' hlp with ⟨lp, c, h1, _, h2⟩ | h1
    · cases hfr : lp'.isFr with
      | false => rfl
      | true =>
        rw [h2] at hfr
        rcases stepLP_fr st.cfg c st.sh (st.th u).loc b lp hfr with h3 | ⟨j, h3⟩
        · rw [h u lp h1] at h3; cases h3
        · exact absurd h3 (hne _ j)
    · subst h1; rfl
  · rw [(microStep_own st t b).2 u e] at hlp; exact h u lp' hlp

/-- **without a successful hand-over no load is ever at its receiving end**: along every execution
    in which no control word ever holds an envelope (`EnvRun0`), no thread is in the states that
    take a replacement from an envelope — in particular the stuck state "envelope holds NONE" of the
    model is not reached, and every load returns by one of the direct paths -/
theorem noFr_run {K N T : Nat} {st : State} (h : NoFr st) (sched : List (Nat × Bool)) (he : EnvRun0 K N T st sched) :
    NoFr (run st sched) := by
  induction sched generalizing st with
  | nil => exact h
  | cons x rest ih =>
    obtain ⟨t, b⟩ := x
    obtain ⟨_, h1, hrest⟩ := he
    exact ih (h.step h1.noEnv t b) hrest

theorem noFr_of_env (K N T : Nat) (cfg : Cfg) (progs : Nat → List (String × Op)) (sched : List (Nat × Bool))
    (he : EnvRun0 K N T (State.initial cfg progs) sched) : NoFr (run (State.initial cfg progs) sched) :=
  noFr_run (fun t lp h => by simp [State.initial, OpSt.lp?] at h) sched he

end M
