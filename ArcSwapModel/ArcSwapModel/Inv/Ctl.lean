import ArcSwapModel.Inv.AcctFinal

/-!
# The control word: who may hold it non-idle

`control` of a node is written at exactly three places: its owner publishes a generation at the
start of a fallback transaction (`f2`), swaps `IDLE` back at the end (`f5`), and a helper
compare-exchanges a *generation* into an envelope (`h7`).  Hence, in every fault-free reachable
state (`CtlInv`):

* a control word that is not idle belongs to a thread inside its fallback window (between `f2` and
  `f5`) on that very node, and holds that thread's generation or an envelope;
* conversely a thread inside its window finds its generation or an envelope there.

From this the debug assertions of the helping protocol that look at `control` can never fire
(`Props/C13`): `get_debt` finds `IDLE`, `help` finds its own control `IDLE`, and `confirm` finds
its generation or a replacement.
-/

namespace M
open Consts

/-- the generation, when the load is inside its control window -/
def LP.win : LP → Option Nat
  | .f3 g | .chDbg g _ | .f4 g _ | .f5 g _ => some g
  | _ => none

def PP.win : PP → Option Nat
  | .hload _ ld => ld.win
  | _ => none

def CP.win : CP → Option Nat
  | .load ld => ld.win
  | .pay _ pp => pp.win
  | _ => none

def RP.win : RP → Option Nat
  | .load ld => ld.win
  | .cas _ _ cp => cp.win
  | _ => none

def OpSt.win : OpSt → Option Nat
  | .load _ _ ld | .loadFull _ _ ld => ld.win
  | .swapPay _ _ _ _ pp | .cinto _ _ _ pp | .dropc _ _ pp => pp.win
  | .cas _ _ _ _ _ _ cp => cp.win
  | .rcu _ _ _ rp => rp.win
  | _ => none

/-- what one step does to the control words and to the stepping thread's (node, window) -/
inductive CtlStep (s : Shared) (n0 : Option Nat) (w : Option Nat) (s' : Shared) (n0' : Option Nat) (w' : Option Nat) : Prop
  | same : (∀ n, (s'.nodes n).control = (s.nodes n).control) → w' = w → (w ≠ none → n0' = n0) → CtlStep s n0 w s' n0' w'
  | opens (n g : Nat) : n0 = some n → n0' = some n → w = none → w' = some g →
      (∀ m, (s'.nodes m).control = if m = n then .gen g else (s.nodes m).control) → CtlStep s n0 w s' n0' w'
  | closes (n g : Nat) : n0 = some n → w = some g → w' = none → (s'.nodes n).control = .idle →
      (∀ m, m ≠ n → (s'.nodes m).control = (s.nodes m).control) → CtlStep s n0 w s' n0' w'
  | hands (who g m : Nat) : (s.nodes who).control = .gen g → w = none → w' = none →
      (∀ x, (s'.nodes x).control = if x = who then .env m else (s.nodes x).control) → CtlStep s n0 w s' n0' w'

theorem CtlStep.frame {s s1 s' : Shared} {n0 n0' : Option Nat} {w w' : Option Nat}
    (h : CtlStep s n0 w s1 n0' w') (hn : s'.nodes = s1.nodes) : CtlStep s n0 w s' n0' w' := by
  cases h with
  | same h1 h2 h3 => exact .same (fun n => by rw [hn]; exact h1 n) h2 h3
  | opens n g a b c d e => exact .opens n g a b c d (fun m => by rw [hn]; exact e m)
  | closes n g a b c d e => exact .closes n g a b c (by rw [hn]; exact d) (fun m hm => by rw [hn]; exact e m hm)
  | hands who g m a b c d => exact .hands who g m a b c (fun x => by rw [hn]; exact d x)

theorem ctl_setNode_other (s : Shared) (n : Nat) (f : Node → Node) (hf : ∀ nd, (f nd).control = nd.control) (m : Nat) :
    ((s.setNode n f).nodes m).control = (s.nodes m).control := setNode_control s n m f hf

/-- nodes that do not exist yet have an idle control word -/
def CtlBeyond (s : Shared) : Prop := ∀ n, s.nNodes ≤ n → (s.nodes n).control = .idle

theorem stepNG_ctl (s : Shared) (b : Bool) (ng : NG) (hc : CtlBeyond s) (m : Nat) :
    ((stepNG s b ng).1.nodes m).control = (s.nodes m).control := by
  have hnew := hc s.nNodes (Nat.le_refl _)
  cases ng with
  | allocCas me h =>
    cases me with
    | some k => simp only [stepNG]; split <;> (simp only [Shared.setNode, upd]; split <;> simp_all)
    | none => simp only [stepNG]; split <;> (simp only [Shared.setNode, upd]; split <;> simp_all)
  | trav => simp [stepNG]
  | cc0 n =>
    simp only [stepNG]; split
    · simp only [Shared.setNode, upd]; split <;> simp_all
    · simp
  | cc1 n => simp [stepNG]
  | cc2 n idle =>
    simp only [stepNG]; split
    · simp only [Shared.setNode, upd]; split <;> simp_all
    · simp
  | claim n =>
    simp only [stepNG]; split
    · simp only [Shared.setNode, upd]; split <;> simp_all
    · simp
  | allocLoad => simp [stepNG]
  | done n => simp [stepNG]

theorem stepNG_ctlBeyond (s : Shared) (b : Bool) (ng : NG) (hc : CtlBeyond s) : CtlBeyond (stepNG s b ng).1 := by
  intro n hn
  have hmono : s.nNodes ≤ (stepNG s b ng).1.nNodes := by
    cases ng with
    | allocCas me h =>
      cases me with
      | some k => simp only [stepNG]; split <;> simp [Shared.setNode]
      | none => simp only [stepNG]; split <;> simp [Shared.setNode]
    | _ => simp only [stepNG] <;> (repeat' split) <;> simp [Shared.setNode]
  rw [stepNG_ctl s b ng hc n]
  exact hc n (by omega)

/-- `control` of every node is what it was: the update touched other fields only -/
macro "ctl_frame" : tactic =>
  `(tactic| (first
      | rfl
      | (simp only [Shared.setNode, upd, setFault_nodes]; split <;> simp_all)
      | simp))

theorem CtlBeyond.of_ctl {s s' : Shared} (h : CtlBeyond s) (hc : ∀ n, (s'.nodes n).control = (s.nodes n).control)
    (hn : s.nNodes ≤ s'.nNodes) : CtlBeyond s' := fun n hk => by rw [hc n]; exact h n (by omega)

theorem stepCD_ctl (s : Shared) (cd : CD) (m : Nat) : ((stepCD s cd).1.nodes m).control = (s.nodes m).control := by
  cases cd <;> simp only [stepCD] <;> (try split) <;> ctl_frame

theorem stepGD_ctl (s : Shared) (gd : GD) (m : Nat) : ((stepGD s gd).1.nodes m).control = (s.nodes m).control := by
  cases gd <;> simp only [stepGD] <;> (try split) <;> ctl_frame

theorem stepGI_ctl (s : Shared) (gi : GI) (m : Nat) : ((stepGI s gi).1.nodes m).control = (s.nodes m).control := by
  cases gi <;> simp only [stepGI] <;> (try split) <;> ctl_frame

theorem stepLP_ctl (cfg : Cfg) (c : Nat) (s : Shared) (l : Locals) (b : Bool) (lp : LP)
    (hc : CtlBeyond s) (hk : lp.okN s l) (hf : (stepLP cfg c s l b lp).1.fault = none) :
    CtlStep s l.node lp.win (stepLP cfg c s l b lp).1 (stepLP cfg c s l b lp).2.1.node (stepLP cfg c s l b lp).2.2.1.win := by
  obtain ⟨hlt, hset, hsub⟩ := hk
  -- the plain shape: control untouched, locals kept, window status kept
  have plain : ∀ (s' : Shared) (lp' : LP), (∀ n, (s'.nodes n).control = (s.nodes n).control) → lp'.win = lp.win →
      CtlStep s l.node lp.win s' l.node lp'.win := fun s' lp' h1 h2 => .same h1 h2 (fun _ => rfl)
  have sn : ∀ (f : Node → Node), (∀ nd, (f nd).control = nd.control) →
      ∀ n, ((s.setNode (l.node.getD 0) f).nodes n).control = (s.nodes n).control :=
    fun f h n => ctl_setNode_other s _ f h n
  cases lp with
  | start =>
    simp only [stepLP]; split
    · exact plain s _ (fun _ => rfl) rfl
    · split <;> exact plain s _ (fun _ => rfl) rfl
  | get ng =>
    have h1 := stepNG_ctl s b ng hc
    simp only [stepLP]; split
    · rename_i s' n evs heq; simp only [heq] at h1
      exact .same h1 (by cases cfg.useFast <;> rfl) (fun h => absurd rfl h)
    · rename_i s' ng' evs hne heq; simp only [heq] at h1
      exact .same h1 rfl (fun h => absurd rfl h)
  | reget ng =>
    have h1 := stepNG_ctl s b ng hc
    simp only [stepLP]; split
    · rename_i s' n evs heq; simp only [heq] at h1
      exact .same h1 rfl (fun h => absurd rfl h)
    · rename_i s' ng' evs hne heq; simp only [heq] at h1
      exact .same h1 rfl (fun h => absurd rfl h)
  | cool cd =>
    have h1 := stepCD_ctl s cd
    simp only [stepLP]; split
    · rename_i s' evs heq; simp only [heq] at h1; exact .same h1 rfl (fun h => absurd rfl h)
    · rename_i s' cd' evs hne heq; simp only [heq] at h1; exact .same h1 rfl (fun h => absurd rfl h)
  | a1 => simp only [stepLP]; split <;> exact plain _ _ (fun _ => by simp) rfl
  | nfDbg p =>
    simp only [stepLP]; split
    · exact plain _ _ (fun _ => by simp) rfl
    · exact plain _ _ (fun _ => by unfold dbgInUse; split <;> simp) rfl
  | probe p i => simp only [stepLP]; (repeat' split) <;> exact plain s _ (fun _ => rfl) rfl
  | pswap p idx =>
    simp only [stepLP]
    refine plain _ _ (fun n => ?_) rfl
    split <;> ctl_frame
  | a3 p idx =>
    simp only [stepLP]; split
    · split <;> exact plain s _ (fun _ => rfl) rfl
    · exact plain _ _ (fun _ => by simp) rfl
  | a4 p idx =>
    simp only [stepLP]; split
    · exact plain _ _ (fun n => by ctl_frame) rfl
    · split <;> exact plain s _ (fun _ => rfl) rfl
  | a4dec p => simp only [stepLP]; exact plain _ _ (fun _ => by simp) rfl
  | nhDbg =>
    simp only [stepLP]; split
    · exact plain _ _ (fun _ => by simp) rfl
    · split <;> exact plain _ _ (fun _ => by unfold dbgInUse; split <;> simp) rfl
  | f1 => simp only [stepLP]; exact plain _ _ (fun n => by ctl_frame) rfl
  | f2 g =>
    simp only [stepLP] at hf ⊢
    have hsome := hset rfl
    obtain ⟨n, hn⟩ := Option.isSome_iff_exists.mp hsome
    refine .opens n g hn hn rfl rfl (fun m => ?_)
    have e : l.node.getD 0 = n := by rw [hn]; rfl
    rw [e]
    have base : ∀ x : Shared, x.nodes = (s.setNode n fun nd => { nd with control := .gen g }).nodes →
        (x.nodes m).control = if m = n then Ctl.gen g else (s.nodes m).control := by
      intro x hx; rw [hx]
      by_cases hm : m = n
      · subst hm; simp
      · simp [hm]
    split
    · exact base _ rfl
    · exact base _ (by simp)
  | f3 g =>
    simp only [stepLP] at hf ⊢; split
    · exact plain s _ (fun _ => rfl) rfl
    · rename_i hcell; simp only [hcell] at hf; exact absurd hf (setFault_ne_none _ _)
  | chDbg g cand =>
    simp only [stepLP] at hf ⊢; split
    · rename_i hl; simp only [hl] at hf; exact absurd hf (setFault_ne_none _ _)
    · exact plain _ _ (fun _ => by unfold dbgInUse; split <;> simp) rfl
  | f4 g cand =>
    simp only [stepLP]
    refine plain _ _ (fun n => ?_) rfl
    split <;> ctl_frame
  | f5 g cand =>
    simp only [stepLP] at hf ⊢
    have hsome := hset rfl
    obtain ⟨n, hn⟩ := Option.isSome_iff_exists.mp hsome
    have e : l.node.getD 0 = n := by rw [hn]; rfl
    rw [e] at hf ⊢
    have hidle : ((s.setNode n fun nd => { nd with control := .idle }).nodes n).control = .idle := by simp
    have hoth : ∀ m, m ≠ n → ((s.setNode n fun nd => { nd with control := .idle }).nodes m).control = (s.nodes m).control :=
      fun m hm => by simp [hm]
    by_cases hg : (s.nodes n).control = .gen g
    · simp only [hg, ↓reduceIte]
      split <;> exact .closes n g hn rfl rfl hidle hoth
    · simp only [hg, ↓reduceIte] at hf ⊢
      cases hx : (s.nodes n).control with
      | env j => simp only [hx]; exact .closes n g hn rfl rfl hidle hoth
      | idle => simp only [hx] at hf; exact absurd hf (setFault_ne_none _ _)
      | gen g' => simp only [hx] at hf; exact absurd hf (setFault_ne_none _ _)
  | fokInc cand => simp only [stepLP]; exact plain _ _ (fun _ => by simp) rfl
  | fokPay cand =>
    simp only [stepLP]; split
    · exact plain _ _ (fun n => by ctl_frame) rfl
    · split <;> exact plain s _ (fun _ => rfl) rfl
  | fokDec cand => simp only [stepLP]; exact plain _ _ (fun _ => by simp) rfl
  | fr1 cand j =>
    simp only [stepLP]; split
    · exact plain s _ (fun _ => rfl) rfl
    · exact plain _ _ (fun _ => by simp) rfl
  | fr2 cand j r => simp only [stepLP]; exact plain _ _ (fun n => by ctl_frame) rfl
  | frPay cand r =>
    simp only [stepLP]; split
    · exact plain _ _ (fun n => by ctl_frame) rfl
    · split <;> exact plain s _ (fun _ => rfl) rfl
  | frDec cand r => simp only [stepLP]; exact plain _ _ (fun _ => by simp) rfl
  | done p d => simp only [stepLP]; exact plain s _ (fun _ => rfl) rfl

/-- while a helper is past the dispatch, the control word it remembers is a generation -/
def PP.hwf : PP → Prop
  | .h2 h | .h3 h | .hres h | .hload h _ | .hinto h _ _ | .h4 h _ | .h5 h _ _ | .h6 h _ _ _ | .h7 h _ _ _ =>
      ∃ g, h.ctl = .gen g
  | _ => True

theorem PP.hwf_dispatch (h : HL) : (PP.dispatch h).hwf := by
  unfold PP.dispatch
  split
  · rename_i g hg; exact ⟨g, hg⟩
  · trivial

theorem PP.win_dispatch (h : HL) : (PP.dispatch h).win = none := by
  unfold PP.dispatch; split <;> rfl

theorem PP.win_nextSlot (n j : Nat) : (PP.nextSlot n j).win = none := by
  unfold PP.nextSlot; split <;> rfl

theorem PP.hwf_nextSlot (n j : Nat) : (PP.nextSlot n j).hwf := by
  unfold PP.nextSlot; split <;> trivial

theorem stepPP_ctl (cfg : Cfg) (p c : Nat) (s : Shared) (l : Locals) (b : Bool) (pp : PP)
    (hc : CtlBeyond s) (hk : pp.okN s l) (hw : pp.hwf) (hf : (stepPP cfg p c s l b pp).1.fault = none) :
    CtlStep s l.node pp.win (stepPP cfg p c s l b pp).1 (stepPP cfg p c s l b pp).2.1.node (stepPP cfg p c s l b pp).2.2.1.win ∧
      (stepPP cfg p c s l b pp).2.2.1.hwf := by
  have plain : ∀ (s' : Shared) (pp' : PP), (∀ n, (s'.nodes n).control = (s.nodes n).control) → pp.win = none →
      pp'.win = none → pp'.hwf → CtlStep s l.node pp.win s' l.node pp'.win ∧ pp'.hwf :=
    fun s' pp' h1 h2 h3 h4 => ⟨.same h1 (by rw [h2, h3]) (fun _ => rfl), h4⟩
  cases pp with
  | start =>
    simp only [stepPP]; split
    · exact plain s _ (fun _ => rfl) rfl rfl trivial
    · split <;> exact plain s _ (fun _ => rfl) rfl rfl trivial
  | get ng =>
    have h1 := stepNG_ctl s b ng hc
    simp only [stepPP]; split
    · rename_i s' n evs heq; simp only [heq] at h1
      refine ⟨.same h1 ?_ (fun h => absurd rfl h), ?_⟩ <;> (split <;> first | rfl | trivial)
    · rename_i s' ng' evs hne heq; simp only [heq] at h1
      exact ⟨.same h1 rfl (fun h => absurd rfl h), trivial⟩
  | inc => simp only [stepPP]; exact plain _ _ (fun _ => by ctl_frame) rfl rfl trivial
  | trav => simp only [stepPP]; split <;> exact plain s _ (fun _ => rfl) rfl rfl trivial
  | res n =>
    simp only [stepPP] at hf ⊢; split
    · rename_i hl; simp only [hl] at hf; exact absurd hf (setFault_ne_none _ _)
    · exact plain _ _ (fun _ => by ctl_frame) rfl rfl trivial
  | hDbg0 x =>
    simp only [stepPP]; exact plain _ _ (fun _ => by unfold dbgInUse; split <;> simp) rfl rfl trivial
  | hDbg1 x => simp only [stepPP]; exact plain _ _ (fun _ => by split <;> simp) rfl rfl trivial
  | h1 x =>
    simp only [stepPP]
    exact plain s _ (fun _ => rfl) rfl (PP.win_dispatch _) (PP.hwf_dispatch _)
  | h2 x =>
    simp only [stepPP]
    by_cases ho : x.own = x.who
    · simp only [ho, ↓reduceIte]
      (repeat' split) <;> exact plain _ _ (fun _ => by simp) rfl rfl hw
    · simp only [ho, ↓reduceIte]
      (repeat' split) <;> exact plain s _ (fun _ => rfl) rfl rfl hw
  | h3 x =>
    simp only [stepPP]; split
    · exact plain s _ (fun _ => rfl) rfl rfl trivial
    · exact plain s _ (fun _ => rfl) rfl (PP.win_dispatch _) (PP.hwf_dispatch _)
  | hres x => simp only [stepPP]; exact plain _ _ (fun _ => by ctl_frame) rfl rfl hw
  | hload x ld =>
    have h1 := stepLP_ctl cfg c s l b ld hc hk
    simp only [stepPP] at hf ⊢
    split
    · rename_i s' l' r d evs heq
      simp only [heq] at h1 hf
      have h2 := h1 hf
      have e : (LP.done r d).win = none := rfl
      rw [e] at h2
      split
      · exact ⟨h2, hw⟩
      · exact ⟨h2, hw⟩
    · rename_i s' l' ld' evs hne heq
      simp only [heq] at h1 hf
      exact ⟨h1 hf, hw⟩
  | hinto x r gi =>
    have h1 := stepGI_ctl s gi
    simp only [stepPP]; split
    · rename_i s' evs heq; simp only [heq] at h1; exact plain _ _ h1 rfl rfl hw
    · rename_i s' gi' evs hne heq; simp only [heq] at h1; exact plain _ _ h1 rfl rfl hw
  | h4 x r => simp only [stepPP]; exact plain s _ (fun _ => rfl) rfl rfl hw
  | h5 x r t' => simp only [stepPP]; exact plain s _ (fun _ => rfl) rfl rfl hw
  | h6 x r t' m => simp only [stepPP]; exact plain _ _ (fun _ => by ctl_frame) rfl rfl hw
  | h7 x r t' m =>
    obtain ⟨g, hg⟩ := hw
    simp only [stepPP]
    split
    · rename_i hx
      refine ⟨.hands x.who g m (by rw [hx, hg]) rfl rfl (fun y => ?_), trivial⟩
      by_cases hy : y = x.who
      · subst hy; simp
      · simp [hy]
    · split
      · exact plain s _ (fun _ => rfl) rfl (PP.win_dispatch _) (PP.hwf_dispatch _)
      · exact plain s _ (fun _ => rfl) rfl rfl trivial
  | h8 x t' => simp only [stepPP]; exact plain _ _ (fun _ => by ctl_frame) rfl rfl trivial
  | hdrop x r =>
    simp only [stepPP]
    exact plain _ _ (fun _ => by simp) rfl (PP.win_dispatch _) (PP.hwf_dispatch _)
  | hend x => simp only [stepPP]; split <;> exact plain s _ (fun _ => rfl) rfl rfl trivial
  | hrel x => simp only [stepPP]; exact plain _ _ (fun _ => by ctl_frame) rfl rfl trivial
  | slot n j =>
    simp only [stepPP]
    (repeat' split) <;> first
      | exact plain _ _ (fun _ => by ctl_frame) rfl (PP.win_nextSlot _ _) (PP.hwf_nextSlot _ _)
      | exact plain _ _ (fun _ => by ctl_frame) rfl rfl trivial
  | slotInc n j =>
    simp only [stepPP]; exact plain _ _ (fun _ => by simp) rfl (PP.win_nextSlot _ _) (PP.hwf_nextSlot _ _)
  | rel n => simp only [stepPP]; split <;> exact plain _ _ (fun _ => by ctl_frame) rfl rfl trivial
  | fin => simp only [stepPP]; split <;> exact plain s _ (fun _ => rfl) rfl rfl trivial
  | dec => simp only [stepPP]; exact plain _ _ (fun _ => by simp) rfl rfl trivial
  | done => simp only [stepPP]; exact plain s _ (fun _ => rfl) rfl rfl trivial

theorem CtlStep.beyond {s s' : Shared} {n0 n0' : Option Nat} {w w' : Option Nat} (h : CtlStep s n0 w s' n0' w')
    (hc : CtlBeyond s) (hm : s.nNodes ≤ s'.nNodes) (hlt : ∀ n, n0 = some n → n < s.nNodes) : CtlBeyond s' := by
  intro k hk
  have hk' : s.nNodes ≤ k := by omega
  cases h with
  | same h1 _ _ => rw [h1 k]; exact hc k hk'
  | opens n g a _ _ _ e =>
    have := hlt n a
    rw [e k]; have : k ≠ n := by omega
    simp only [this, ↓reduceIte]; exact hc k hk'
  | closes n g _ _ _ d e =>
    by_cases hkn : k = n
    · subst hkn; exact d
    · rw [e k hkn]; exact hc k hk'
  | hands who g m a _ _ d =>
    rw [d k]
    by_cases hkw : k = who
    · subst hkw; have := hc k hk'; rw [a] at this; cases this
    · simp only [hkw, ↓reduceIte]; exact hc k hk'

def CP.hwf : CP → Prop
  | .pay _ pp => pp.hwf
  | _ => True

theorem stepCP_ctl (cfg : Cfg) (c cur new : Nat) (s : Shared) (l : Locals) (b : Bool) (cp : CP)
    (hc : CtlBeyond s) (hk : cp.okN s l) (hw : cp.hwf) (hf : (stepCP cfg c cur new s l b cp).1.fault = none) :
    CtlStep s l.node cp.win (stepCP cfg c cur new s l b cp).1 (stepCP cfg c cur new s l b cp).2.1.node
        (stepCP cfg c cur new s l b cp).2.2.1.win ∧ (stepCP cfg c cur new s l b cp).2.2.1.hwf := by
  have plain : ∀ (s' : Shared) (cp' : CP), (∀ n, (s'.nodes n).control = (s.nodes n).control) → cp.win = none →
      cp'.win = none → cp'.hwf → CtlStep s l.node cp.win s' l.node cp'.win ∧ cp'.hwf :=
    fun s' cp' h1 h2 h3 h4 => ⟨.same h1 (by rw [h2, h3]) (fun _ => rfl), h4⟩
  cases cp with
  | load ld =>
    have h1 := stepLP_ctl cfg c s l b ld hc hk
    simp only [stepCP] at hf ⊢
    split
    · rename_i s' l' p d evs heq
      simp only [heq] at h1 hf
      have hf' : s'.fault = none := by (repeat' split at hf) <;> exact hf
      have h2 := h1 hf'
      have e : (LP.done p d).win = none := rfl
      rw [e] at h2
      (repeat' split) <;> exact ⟨h2, trivial⟩
    · rename_i s' l' ld' evs hne heq
      simp only [heq] at h1 hf
      exact ⟨h1 hf, trivial⟩
  | dropNew old => simp only [stepCP]; exact plain _ _ (fun _ => by simp) rfl rfl trivial
  | cx old =>
    simp only [stepCP]
    split
    · split
      · exact plain _ _ (fun _ => rfl) rfl rfl trivial
      · split <;> exact plain s _ (fun _ => rfl) rfl rfl trivial
    · exact plain _ _ (fun _ => by simp) rfl rfl trivial
  | pay old pp =>
    have h1 := stepPP_ctl cfg old.ptr c s l b pp hc hk hw
    simp only [stepCP] at hf ⊢
    split
    · rename_i s' l' evs heq
      simp only [heq] at h1 hf
      have hf' : s'.fault = none := by (repeat' split at hf) <;> exact hf
      have h2 := (h1 hf').1
      have e : PP.done.win = none := rfl
      rw [e] at h2
      split <;> exact ⟨h2, trivial⟩
    · rename_i s' l' pp' evs hne heq
      simp only [heq] at h1 hf
      exact h1 hf
  | decOld old => simp only [stepCP]; exact plain _ _ (fun _ => by simp) rfl rfl trivial
  | dropOld gd =>
    have h1 := stepGD_ctl s gd
    simp only [stepCP]; split
    · rename_i s' evs heq; simp only [heq] at h1; exact plain _ _ h1 rfl rfl trivial
    · rename_i s' gd' evs hne heq; simp only [heq] at h1; exact plain _ _ h1 rfl rfl trivial
  | done old => simp only [stepCP]; exact plain s _ (fun _ => rfl) rfl rfl trivial

def RP.hwf : RP → Prop
  | .cas _ _ cp => cp.hwf
  | _ => True

theorem stepRP_ctl (cfg : Cfg) (c : Nat) (s : Shared) (l : Locals) (b : Bool) (tries : Nat) (rp : RP)
    (hc : CtlBeyond s) (hk : rp.okN s l) (hw : rp.hwf) (hf : (stepRP cfg c s l b tries rp).1.fault = none) :
    CtlStep s l.node rp.win (stepRP cfg c s l b tries rp).1 (stepRP cfg c s l b tries rp).2.1.node
        (stepRP cfg c s l b tries rp).2.2.1.win ∧ (stepRP cfg c s l b tries rp).2.2.1.hwf := by
  have plain : ∀ (s' : Shared) (rp' : RP), (∀ n, (s'.nodes n).control = (s.nodes n).control) → rp.win = none →
      rp'.win = none → rp'.hwf → CtlStep s l.node rp.win s' l.node rp'.win ∧ rp'.hwf :=
    fun s' rp' h1 h2 h3 h4 => ⟨.same h1 (by rw [h2, h3]) (fun _ => rfl), h4⟩
  cases rp with
  | load ld =>
    have h1 := stepLP_ctl cfg c s l b ld hc hk
    simp only [stepRP] at hf ⊢
    split
    · rename_i s' l' p d evs heq
      simp only [heq] at h1 hf
      have h2 := h1 hf
      have e : (LP.done p d).win = none := rfl
      rw [e] at h2
      exact ⟨h2, trivial⟩
    · rename_i s' l' ld' evs hne heq
      simp only [heq] at h1 hf
      exact ⟨h1 hf, trivial⟩
  | attempt cur =>
    simp only [stepRP]
    refine plain _ _ (fun n => ?_) rfl rfl trivial
    simp only [alloc]; split <;> simp
  | cas cur a cp =>
    have h1 := stepCP_ctl cfg c cur.ptr a s l b cp hc hk hw
    simp only [stepRP] at hf ⊢
    split
    · rename_i s' l' prev evs heq
      simp only [heq] at h1 hf
      have hf' : s'.fault = none := by (repeat' split at hf) <;> exact hf
      have h2 := (h1 hf').1
      have e : (CP.done prev).win = none := rfl
      rw [e] at h2
      (repeat' split) <;> exact ⟨h2, trivial⟩
    · rename_i s' l' cp' evs hne heq
      simp only [heq] at h1 hf
      exact h1 hf
  | intoPrev cur prev gi =>
    have h1 := stepGI_ctl s gi
    simp only [stepRP]; split
    · rename_i s' evs heq; simp only [heq] at h1
      split <;> exact plain _ _ h1 rfl rfl trivial
    · rename_i s' gi' evs hne heq; simp only [heq] at h1; exact plain _ _ h1 rfl rfl trivial
  | dropCur res gd =>
    have h1 := stepGD_ctl s gd
    simp only [stepRP]; split
    · rename_i s' evs heq; simp only [heq] at h1; exact plain _ _ h1 rfl rfl trivial
    · rename_i s' gd' evs hne heq; simp only [heq] at h1; exact plain _ _ h1 rfl rfl trivial
  | dropCurLoop prev gd =>
    have h1 := stepGD_ctl s gd
    simp only [stepRP]; split
    · rename_i s' evs heq; simp only [heq] at h1; exact plain _ _ h1 rfl rfl trivial
    · rename_i s' gd' evs hne heq; simp only [heq] at h1; exact plain _ _ h1 rfl rfl trivial
  | done r => simp only [stepRP]; exact plain s _ (fun _ => rfl) rfl rfl trivial

def OpSt.hwf : OpSt → Prop
  | .swapPay _ _ _ _ pp | .cinto _ _ _ pp | .dropc _ _ pp => pp.hwf
  | .cas _ _ _ _ _ _ cp => cp.hwf
  | .rcu _ _ _ rp => rp.hwf
  | _ => True

theorem beginOp_ctl (st : State) (t : Nat) (o : Op) :
    (∀ n, ((beginOp st t o).1.sh.nodes n).control = (st.sh.nodes n).control) ∧
      ((beginOp st t o).1.th t).op.win = none ∧ ((beginOp st t o).1.th t).op.hwf ∧
      ((beginOp st t o).1.th t).loc.node = (st.th t).loc.node := by
  cases o <;> simp only [beginOp] <;> (repeat' split) <;>
    (refine ⟨fun n => ?_, ?_, ?_, ?_⟩) <;> simp [upd, alloc, OpSt.win, OpSt.hwf, LP.win, PP.win, CP.win, RP.win,
      CP.hwf, RP.hwf, PP.hwf] <;> (try (split <;> simp))

theorem microStep_ctl (st : State) (t : Nat) (b : Bool) (hc : CtlBeyond st.sh)
    (hk : (st.th t).op.okN st.sh (st.th t).loc) (hw : (st.th t).op.hwf)
    (hf : (microStep st t b).1.sh.fault = none) :
    CtlStep st.sh (st.th t).loc.node (st.th t).op.win (microStep st t b).1.sh
        ((microStep st t b).1.th t).loc.node ((microStep st t b).1.th t).op.win ∧
      ((microStep st t b).1.th t).op.hwf := by
  have plain : ∀ (s' : Shared), (∀ n, (s'.nodes n).control = (st.sh.nodes n).control) → ∀ (n' : Option Nat),
      CtlStep st.sh (st.th t).loc.node none s' n' none := fun s' h n' => .same h rfl (fun h => absurd rfl h)
  cases hop : (st.th t).op with
  | finished => simp only [microStep, hop]; exact ⟨plain _ (fun _ => rfl) _, trivial⟩
  | idle =>
    simp only [microStep, hop]
    split
    · simp only [upd_same]
      cases hnode : (st.th t).loc.node with
      | none => exact ⟨.same (fun _ => rfl) rfl (fun h => absurd rfl h), trivial⟩
      | some n => exact ⟨.same (fun _ => rfl) rfl (fun h => absurd rfl h), trivial⟩
    · rename_i txt o rest hp
      obtain ⟨h1, h2, h3, h4⟩ := beginOp_ctl { st with th := upd st.th t { prog := rest, op := .idle, loc := (st.th t).loc } } t o
      dsimp only at h1 h2 h3 ⊢
      rw [h2]
      exact ⟨plain _ h1 _, h3⟩
  | exitCool cd =>
    have h1 := stepCD_ctl st.sh cd
    simp only [microStep, hop]
    split
    · rename_i s' evs heq; simp only [heq] at h1; (simp only [upd_same]; exact ⟨plain _ h1 _, trivial⟩)
    · rename_i s' cd' evs hne heq; simp only [heq] at h1; (simp only [upd_same]; exact ⟨plain _ h1 _, trivial⟩)
  | load c g ld =>
    rw [hop] at hk
    have h1 := stepLP_ctl st.cfg c st.sh (st.th t).loc b ld hc hk
    simp only [microStep, hop] at hf ⊢
    split
    · rename_i s' l' p d evs heq
      simp only [heq] at h1 hf
      have h2 := h1 hf
      have e : (LP.done p d).win = none := rfl
      rw [e] at h2
      (simp only [upd_same]; exact ⟨h2.frame rfl, trivial⟩)
    · rename_i s' l' ld' evs hne heq
      simp only [heq] at h1 hf
      (simp only [upd_same]; exact ⟨h1 hf, trivial⟩)
  | loadFull c x ld =>
    rw [hop] at hk
    have h1 := stepLP_ctl st.cfg c st.sh (st.th t).loc b ld hc hk
    simp only [microStep, hop] at hf ⊢
    split
    · rename_i s' l' p d evs heq
      simp only [heq] at h1 hf
      have hf' : s'.fault = none := by split at hf <;> exact hf
      have h2 := h1 hf'
      have e : (LP.done p d).win = none := rfl
      rw [e] at h2
      split
      · (simp only [upd_same]; exact ⟨h2.frame rfl, trivial⟩)
      · (simp only [upd_same]; exact ⟨h2, trivial⟩)
    · rename_i s' l' ld' evs hne heq
      simp only [heq] at h1 hf
      (simp only [upd_same]; exact ⟨h1 hf, trivial⟩)
  | loadFullInto c x r gi =>
    have h1 := stepGI_ctl st.sh gi
    simp only [microStep, hop]
    split
    · rename_i s' evs heq; simp only [heq] at h1; (simp only [upd_same]; exact ⟨(plain s' h1 _).frame rfl, trivial⟩)
    · rename_i s' gi' evs hne heq; simp only [heq] at h1; (simp only [upd_same]; exact ⟨plain _ h1 _, trivial⟩)
  | cloneh x y a =>
    simp only [microStep, hop]; (simp only [upd_same]; exact ⟨plain _ (fun _ => by simp) _, trivial⟩)
  | droph a =>
    simp only [microStep, hop]; (simp only [upd_same]; exact ⟨plain _ (fun _ => by simp) _, trivial⟩)
  | dropg gd =>
    have h1 := stepGD_ctl st.sh gd
    simp only [microStep, hop]
    split
    · rename_i s' evs heq; simp only [heq] at h1; (simp only [upd_same]; exact ⟨plain _ h1 _, trivial⟩)
    · rename_i s' gd' evs hne heq; simp only [heq] at h1; (simp only [upd_same]; exact ⟨plain _ h1 _, trivial⟩)
  | ginto x p gi =>
    have h1 := stepGI_ctl st.sh gi
    simp only [microStep, hop]
    split
    · rename_i s' evs heq; simp only [heq] at h1; (simp only [upd_same]; exact ⟨(plain s' h1 _).frame rfl, trivial⟩)
    · rename_i s' gi' evs hne heq; simp only [heq] at h1; (simp only [upd_same]; exact ⟨plain _ h1 _, trivial⟩)
  | swapSw c a out isStore =>
    simp only [microStep, hop]
    split
    · (simp only [upd_same]; exact ⟨.same (fun _ => rfl) rfl (fun h => absurd rfl h), trivial⟩)
    · exact ⟨by rw [hop]; exact plain _ (fun _ => rfl) _, by rw [hop]; trivial⟩
  | swapPay c out old isStore pp =>
    rw [hop] at hk hw
    have h1 := stepPP_ctl st.cfg old c st.sh (st.th t).loc b pp hc hk hw
    simp only [microStep, hop] at hf ⊢
    split
    · rename_i s' l' evs heq
      simp only [heq] at h1 hf
      have hf' : s'.fault = none := by (repeat' split at hf) <;> exact hf
      have h2 := (h1 hf').1
      have e : PP.done.win = none := rfl
      rw [e] at h2
      (repeat' split) <;> first
        | (simp only [upd_same]; exact ⟨h2.frame rfl, trivial⟩)
        | (simp only [upd_same]; exact ⟨h2, trivial⟩)
    · rename_i s' l' pp' evs hne heq
      simp only [heq] at h1 hf
      (simp only [upd_same]; exact ⟨(h1 hf).1, (h1 hf).2⟩)
  | swapDrop c old =>
    simp only [microStep, hop]; (simp only [upd_same]; exact ⟨plain _ (fun _ => by simp) _, trivial⟩)
  | cas c cur keep curPtr new g cp =>
    rw [hop] at hk hw
    have h1 := stepCP_ctl st.cfg c curPtr new st.sh (st.th t).loc b cp hc hk hw
    simp only [microStep, hop] at hf ⊢
    split
    · rename_i s' l' old evs heq
      simp only [heq] at h1 hf
      have hf' : s'.fault = none := by cases cur <;> cases keep <;> simpa using hf
      have h2 := (h1 hf').1
      have e : (CP.done old).win = none := rfl
      rw [e] at h2
      simp only [upd_same]
      refine ⟨?_, trivial⟩
      cases cur <;> cases keep <;> exact h2.frame rfl
    · rename_i s' l' cp' evs hne heq
      simp only [heq] at h1 hf
      (simp only [upd_same]; exact ⟨(h1 hf).1, (h1 hf).2⟩)
  | rcu c out tries rp =>
    rw [hop] at hk hw
    have h1 := stepRP_ctl st.cfg c st.sh (st.th t).loc b tries rp hc hk hw
    simp only [microStep, hop] at hf ⊢
    split
    · rename_i s' l' r tries' evs heq
      simp only [heq] at h1 hf
      have h2 := (h1 hf).1
      have e : (RP.done r).win = none := rfl
      rw [e] at h2
      (simp only [upd_same]; exact ⟨h2.frame rfl, trivial⟩)
    · rename_i s' l' rp' tries' evs hne heq
      simp only [heq] at h1 hf
      (simp only [upd_same]; exact ⟨(h1 hf).1, (h1 hf).2⟩)
  | cinto c x p pp =>
    rw [hop] at hk hw
    have h1 := stepPP_ctl st.cfg p c st.sh (st.th t).loc b pp hc hk hw
    simp only [microStep, hop] at hf ⊢
    split
    · rename_i s' l' evs heq
      simp only [heq] at h1 hf
      have h2 := (h1 hf).1
      have e : PP.done.win = none := rfl
      rw [e] at h2
      (simp only [upd_same]; exact ⟨h2.frame rfl, trivial⟩)
    · rename_i s' l' pp' evs hne heq
      simp only [heq] at h1 hf
      (simp only [upd_same]; exact ⟨(h1 hf).1, (h1 hf).2⟩)
  | dropc c p pp =>
    rw [hop] at hk hw
    have h1 := stepPP_ctl st.cfg p c st.sh (st.th t).loc b pp hc hk hw
    simp only [microStep, hop] at hf ⊢
    split
    · rename_i s' l' evs heq
      simp only [heq] at h1 hf
      have hf' : s'.fault = none := by split at hf <;> exact hf
      have h2 := (h1 hf').1
      have e : PP.done.win = none := rfl
      rw [e] at h2
      split
      · (simp only [upd_same]; exact ⟨h2.frame rfl, trivial⟩)
      · (simp only [upd_same]; exact ⟨h2, trivial⟩)
    · rename_i s' l' pp' evs hne heq
      simp only [heq] at h1 hf
      (simp only [upd_same]; exact ⟨(h1 hf).1, (h1 hf).2⟩)
  | dropcDec c p =>
    simp only [microStep, hop]; (simp only [upd_same]; exact ⟨plain _ (fun _ => by simp) _, trivial⟩)

/-! ## The invariant -/

theorem PP.win_lp (pp : PP) : pp.win = pp.lp?.bind LP.win := by cases pp <;> rfl
theorem CP.win_lp (cp : CP) : cp.win = cp.lp?.bind LP.win := by
  cases cp <;> first | rfl | exact PP.win_lp _
theorem RP.win_lp (rp : RP) : rp.win = rp.lp?.bind LP.win := by
  cases rp <;> first | rfl | exact CP.win_lp _
theorem OpSt.win_lp (op : OpSt) : op.win = op.lp?.bind LP.win := by
  cases op <;> first | rfl | exact PP.win_lp _ | exact CP.win_lp _ | exact RP.win_lp _

/-- a thread inside its control window owns the node it is on -/
theorem owns_of_win (th : Thread) (g : Nat) (h : th.op.win = some g) : ownsT th = th.loc.node := by
  rw [OpSt.win_lp] at h
  cases hl : th.op.lp? with
  | none => rw [hl] at h; cases h
  | some ld =>
    rw [hl] at h
    rw [ownsT_of_lp th ld hl]
    cases ld <;> first | rfl | (simp [LP.win] at h)

structure CtlInv (st : State) : Prop where
  beyond : CtlBeyond st.sh
  hwf : ∀ t, (st.th t).op.hwf
  /-- a control word that is not idle belongs to a thread inside its window on that node -/
  owner : ∀ n, (st.sh.nodes n).control ≠ .idle → ∃ t g, (st.th t).loc.node = some n ∧ (st.th t).op.win = some g ∧
      ((st.sh.nodes n).control = .gen g ∨ ∃ j, (st.sh.nodes n).control = .env j)
  /-- a thread inside its window finds its generation or an envelope -/
  inside : ∀ t g n, (st.th t).op.win = some g → (st.th t).loc.node = some n →
      ((st.sh.nodes n).control = .gen g ∨ ∃ j, (st.sh.nodes n).control = .env j)

theorem CtlInv.initial (cfg : Cfg) (progs : Nat → List (String × Op)) : CtlInv (State.initial cfg progs) := by
  refine ⟨fun n _ => rfl, fun t => trivial, fun n h => absurd rfl h, fun t g n h => ?_⟩
  simp [State.initial, OpSt.win] at h

theorem CtlInv.step {st : State} (h : CtlInv st) (t : Nat) (b : Bool) (hN : NodesOk st.sh)
    (hk : ∀ t, (st.th t).op.okN st.sh (st.th t).loc) (ho : OwnInv st)
    (hf : (microStep st t b).1.sh.fault = none) : CtlInv (microStep st t b).1 := by
  obtain ⟨hstep, hwf'⟩ := microStep_ctl st t b h.beyond (hk t) (h.hwf t) hf
  have hoth := (microStep_own st t b).2
  have ho' := ho.step t b
  have hmono := (microStep_okN st t b hN (hk t)).2.2
  have hlt := OpSt.okN_lt (hk t)
  refine ⟨hstep.beyond h.beyond hmono hlt, fun t' => ?_, fun n hn => ?_, fun t' g n hw hn => ?_⟩
  · by_cases ht : t' = t
    · subst ht; exact hwf'
    · rw [hoth t' ht]; exact h.hwf t'
  · -- owner
    cases hstep with
    | same h1 h2 h3 =>
      rw [h1 n] at hn ⊢
      obtain ⟨t', g, a1, a2, a3⟩ := h.owner n hn
      by_cases ht : t' = t
      · subst ht
        refine ⟨t', g, ?_, by rw [h2]; exact a2, a3⟩
        rw [h3 (by rw [a2]; simp)]; exact a1
      · exact ⟨t', g, by rw [hoth t' ht]; exact a1, by rw [hoth t' ht]; exact a2, a3⟩
    | opens m g a1 a2 a3 a4 a5 =>
      rw [a5 n] at hn ⊢
      by_cases hnm : n = m
      · subst hnm; exact ⟨t, g, a2, a4, by simp⟩
      · simp only [hnm, ↓reduceIte] at hn ⊢
        obtain ⟨t', g', b1, b2, b3⟩ := h.owner n hn
        have ht : t' ≠ t := fun e => by subst e; rw [a3] at b2; cases b2
        exact ⟨t', g', by rw [hoth t' ht]; exact b1, by rw [hoth t' ht]; exact b2, b3⟩
    | closes m g a1 a2 a3 a4 a5 =>
      by_cases hnm : n = m
      · subst hnm; exact absurd a4 hn
      · rw [a5 n hnm] at hn ⊢
        obtain ⟨t', g', b1, b2, b3⟩ := h.owner n hn
        have ht : t' ≠ t := fun e => by
          subst e; rw [a1] at b1; simp only [Option.some.injEq] at b1; exact hnm b1.symm
        exact ⟨t', g', by rw [hoth t' ht]; exact b1, by rw [hoth t' ht]; exact b2, b3⟩
    | hands who g m a1 a2 a3 a4 =>
      rw [a4 n] at hn ⊢
      by_cases hnw : n = who
      · subst hnw
        obtain ⟨t', g', b1, b2, b3⟩ := h.owner n (by rw [a1]; simp)
        have ht : t' ≠ t := fun e => by subst e; rw [a2] at b2; cases b2
        exact ⟨t', g', by rw [hoth t' ht]; exact b1, by rw [hoth t' ht]; exact b2, by simp⟩
      · simp only [hnw, ↓reduceIte] at hn ⊢
        obtain ⟨t', g', b1, b2, b3⟩ := h.owner n hn
        have ht : t' ≠ t := fun e => by subst e; rw [a2] at b2; cases b2
        exact ⟨t', g', by rw [hoth t' ht]; exact b1, by rw [hoth t' ht]; exact b2, b3⟩
  · -- inside
    by_cases ht : t' = t
    · subst ht
      cases hstep with
      | same h1 h2 h3 =>
        rw [h1 n]
        rw [h2] at hw
        exact h.inside t' g n hw (by rw [← h3 (by rw [hw]; simp)]; exact hn)
      | opens m g' a1 a2 a3 a4 a5 =>
        rw [a4] at hw; rw [a2] at hn
        simp only [Option.some.injEq] at hw hn
        subst hw; subst hn
        rw [a5 m]; simp
      | closes m g' a1 a2 a3 a4 a5 => rw [a3] at hw; cases hw
      | hands who g' m a1 a2 a3 a4 => rw [a3] at hw; cases hw
    · have hw0 : (st.th t').op.win = some g := by rw [← hoth t' ht]; exact hw
      have hn0 : (st.th t').loc.node = some n := by rw [← hoth t' ht]; exact hn
      have old := h.inside t' g n hw0 hn0
      have own' : ownsT ((microStep st t b).1.th t') = some n := by
        rw [owns_of_win _ g hw]; exact hn
      cases hstep with
      | same h1 _ _ => rw [h1 n]; exact old
      | opens m g' a1 a2 a3 a4 a5 =>
        rw [a5 n]
        by_cases hnm : n = m
        · subst hnm
          have ownt : ownsT ((microStep st t b).1.th t) = some n := by rw [owns_of_win _ g' a4]; exact a2
          exact absurd ownt (ho'.excl t' t n ht own')
        · simp only [hnm, ↓reduceIte]; exact old
      | closes m g' a1 a2 a3 a4 a5 =>
        by_cases hnm : n = m
        · subst hnm
          have ownt : ownsT (st.th t) = some n := by rw [owns_of_win _ g' a2]; exact a1
          have ownt' : ownsT (st.th t') = some n := by rw [owns_of_win _ g hw0]; exact hn0
          exact absurd ownt (ho.excl t' t n ht ownt')
        · rw [a5 n hnm]; exact old
      | hands who g' m a1 a2 a3 a4 =>
        rw [a4 n]
        by_cases hnw : n = who
        · subst hnw; simp
        · simp only [hnw, ↓reduceIte]; exact old

/-- node bookkeeping of every thread (no assumption about hand-overs) -/
structure NodeInv (st : State) : Prop where
  nodes : NodesOk st.sh
  th : ∀ t, (st.th t).op.okN st.sh (st.th t).loc

theorem NodeInv.initial (cfg : Cfg) (progs : Nat → List (String × Op)) : NodeInv (State.initial cfg progs) :=
  ⟨(Wf.initial 1 cfg progs).nodes, (Wf.initial 1 cfg progs).thN⟩

theorem NodeInv.step {st : State} (h : NodeInv st) (t : Nat) (b : Bool) : NodeInv (microStep st t b).1 := by
  obtain ⟨h1, h2, h3⟩ := microStep_okN st t b h.nodes (h.th t)
  have hoth := (microStep_own st t b).2
  refine ⟨h2, fun t' => ?_⟩
  by_cases ht : t' = t
  · subst ht; exact h1
  · rw [hoth t' ht]; exact OpSt.okN_mono h3 _ _ (h.th t')

theorem NodeInv.run {st : State} (h : NodeInv st) (sched : List (Nat × Bool)) : NodeInv (run st sched) := by
  induction sched generalizing st with
  | nil => exact h
  | cons x rest ih => obtain ⟨t, b⟩ := x; exact ih (h.step t b)

theorem NodeInv.reachable {st : State} (h : Reachable st) : NodeInv st := by
  obtain ⟨cfg, progs, sched, rfl⟩ := h
  exact (NodeInv.initial cfg progs).run sched

theorem CtlInv.run {st : State} (h : CtlInv st) (hn : NodeInv st) (ho : OwnInv st) (sched : List (Nat × Bool))
    (hf : (run st sched).sh.fault = none) : CtlInv (run st sched) := by
  induction sched generalizing st with
  | nil => exact h
  | cons x rest ih =>
    obtain ⟨t, b⟩ := x
    have hf1 : (microStep st t b).1.sh.fault = none := run_fault_mono _ rest hf
    exact ih (h.step t b hn.nodes hn.th ho hf1) (hn.step t b) (ho.step t b) hf

/-- **the control-word invariant holds in every reachable state without a fault** -/
theorem CtlInv.reachable {st : State} (h : Reachable st) (hf : st.sh.fault = none) : CtlInv st := by
  obtain ⟨cfg, progs, sched, rfl⟩ := h
  exact (CtlInv.initial cfg progs).run (NodeInv.initial cfg progs) (OwnInv.initial cfg progs) sched hf

/-- outside its window, the control word of the node a thread owns is idle -/
theorem control_idle_outside {st : State} (h : CtlInv st) (ho : OwnInv st) (t n : Nat)
    (hown : ownsT (st.th t) = some n) (hw : (st.th t).op.win = none) : (st.sh.nodes n).control = .idle := by
  apply Classical.byContradiction
  intro hne
  obtain ⟨t', g, a1, a2, _⟩ := h.owner n hne
  by_cases ht : t' = t
  · subst ht; rw [hw] at a2; cases a2
  · have : ownsT (st.th t') = some n := by rw [owns_of_win _ g a2]; exact a1
    exact ho.excl t' t n ht this hown

end M
