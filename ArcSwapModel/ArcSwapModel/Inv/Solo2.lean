import ArcSwapModel.Inv.Solo
import ArcSwapModel.Inv.HazD1

/-!
# Every walk, running alone, ends: `swap`/`store`, `compare_and_swap`, `rcu`, `into_inner`, `Drop`

`Inv/Solo.lean` bounds the walk of `swap`/`store`.  Here the step lemma is stated for `pay_all`
itself (`walkPP_step`), so the bound holds for the walk of every operation that has one.
-/

namespace M
open Consts

/-- **one own step of a walk** (of whatever operation): still walking, closer to the end — or at the end -/
theorem walkPP_step (cfg : Cfg) (old c : Nat) (s : Shared) (l : Locals) (pp : PP) (L : List Nat)
    (hw : WalkAt s l pp L) (hnode : l.node.isSome = true) :
    ∃ pp' L', (stepPP cfg old c s l false pp).2.2.1 = pp' ∧
      (stepPP cfg old c s l false pp).2.1 = l ∧
      (pp' = .fin ∨
        (WalkAt (stepPP cfg old c s l false pp).1 l pp' L' ∧
          walkFuel pp' L'.length < walkFuel pp L.length)) := by
  cases pp with
  | start =>
    have hroad : Road s s.head L := hw
    obtain ⟨own, hown⟩ := Option.isSome_iff_exists.mp hnode
    by_cases h0 : old = 0
    · refine ⟨.trav, L, ?_, ?_, Or.inr ⟨?_, ?_⟩⟩
      · simp [stepPP, hown, h0]
      · simp [stepPP, hown, h0]
      · simp only [stepPP, hown, h0, ↓reduceIte, upd_same, WalkAt]; exact hroad
      · simp only [walkFuel]; omega
    · refine ⟨.inc, L, ?_, ?_, Or.inr ⟨?_, ?_⟩⟩
      · simp [stepPP, hown, h0]
      · simp [stepPP, hown, h0]
      · simp only [stepPP, hown, h0, ↓reduceIte, upd_same, WalkAt]; exact hroad
      · simp only [walkFuel]; omega
  | inc =>
    have hroad : Road s s.head L := hw
    refine ⟨.trav, L, ?_, ?_, Or.inr ⟨?_, ?_⟩⟩
    · simp [stepPP]
    · simp [stepPP]
    · simp only [stepPP, upd_same, WalkAt]
      simpa using hroad.incObj old
    · simp only [walkFuel]; omega
  | trav =>
    have hroad : Road s s.head L := hw
    cases hh : s.head with
    | none => exact ⟨.fin, [], by simp [stepPP, hh], by simp [stepPP, hh], Or.inl rfl⟩
    | some m =>
      refine ⟨.res m, L, ?_, ?_, Or.inr ⟨?_, ?_⟩⟩
      · simp [stepPP, hh]
      · simp [stepPP, hh]
      · simp only [stepPP, hh, upd_same, WalkAt]
        rw [hh] at hroad; exact hroad
      · simp only [walkFuel]; omega
  | res m =>
    have hroad : Road s (some m) L := hw
    obtain ⟨own, hown⟩ := Option.isSome_iff_exists.mp hnode
    cases L with
    | nil => exact absurd hroad.chain (by simp [chainFrom])
    | cons m' rest =>
      obtain ⟨e, hnot, hch⟩ := hroad.chain
      cases e
      refine ⟨.hDbg0 { who := m, own := own }, rest, ?_, ?_, Or.inr ⟨?_, ?_⟩⟩
      · simp [stepPP, hown]
      · simp [stepPP, hown]
      · simp only [stepPP, hown, upd_same, WalkAt]
        refine ⟨?_, trivial, ?_⟩
        · simp only [setNode_nodes_same]; exact hroad.quiet m (List.mem_cons_self ..)
        · simp only [setNode_nodes_same]
          refine Road.setNode ⟨hch, fun x hx => hroad.quiet x (List.mem_cons_of_mem _ hx)⟩ _ _ ?_ ?_ <;> (intro _; rfl)
      · simp only [walkFuel, List.length_cons]; omega
  | hDbg0 h =>
    obtain ⟨hc, hr, hroad⟩ := hw
    refine ⟨.hDbg1 h, L, ?_, ?_, Or.inr ⟨?_, ?_⟩⟩
    · simp [stepPP]
    · simp [stepPP]
    · simp only [stepPP, upd_same, WalkAt]
      unfold dbgInUse
      split
      · exact ⟨hc, hr, hroad⟩
      · exact ⟨by simpa using hc, hr, by simpa using hroad.setFault _⟩
    · simp only [walkFuel]; omega
  | hDbg1 h =>
    obtain ⟨hc, hr, hroad⟩ := hw
    refine ⟨.h1 h, L, ?_, ?_, Or.inr ⟨?_, ?_⟩⟩
    · simp [stepPP]
    · simp [stepPP]
    · simp only [stepPP, upd_same, WalkAt]
      split
      · exact ⟨hc, hr, hroad⟩
      · exact ⟨by simpa using hc, hr, by simpa using hroad.setFault _⟩
    · simp only [walkFuel]; omega
  | h1 h =>
    obtain ⟨hc, hr, hroad⟩ := hw
    refine ⟨.hend { h with ctl := .idle }, L, ?_, ?_, Or.inr ⟨?_, ?_⟩⟩
    · simp [stepPP, hc, PP.dispatch]
    · simp [stepPP, hc, PP.dispatch]
    · simp only [stepPP, hc, PP.dispatch, upd_same, WalkAt]
      exact ⟨hr, hroad⟩
    · simp only [walkFuel]; omega
  | hend h =>
    obtain ⟨hr, hroad⟩ := hw
    refine ⟨.slot h.who 0, L, ?_, ?_, Or.inr ⟨?_, ?_⟩⟩
    · simp [stepPP, hr]
    · simp [stepPP, hr]
    · simp only [stepPP, hr, Bool.false_eq_true, ↓reduceIte, upd_same, WalkAt]
      exact ⟨Nat.zero_le _, hroad⟩
    · simp only [walkFuel]; omega
  | slot n j =>
    obtain ⟨hj, hroad⟩ := hw
    have hs : slotCnt = 8 := rfl
    by_cases hlt : j < slotCnt
    · by_cases hv : (s.nodes n).fast j = .ptr old
      · by_cases h0 : old = 0
        · -- paid, null: on to the next slot
          refine ⟨.slot n (j + 1), L, ?_, ?_, Or.inr ⟨?_, ?_⟩⟩
          · simp [stepPP, hlt, hv, h0, PP.nextSlot]
          · simp [stepPP, hlt, hv, h0, PP.nextSlot]
          · simp only [stepPP, hlt, hv, h0, ↓reduceIte, PP.nextSlot, upd_same, WalkAt]
            refine ⟨by omega, ?_⟩
            simp only [setNode_nodes_same]
            refine Road.setNode hroad _ _ ?_ ?_ <;> (intro _; rfl)
          · simp only [walkFuel]; omega
        · refine ⟨.slotInc n j, L, ?_, ?_, Or.inr ⟨?_, ?_⟩⟩
          · simp [stepPP, hlt, hv, h0]
          · simp [stepPP, hlt, hv, h0]
          · simp only [stepPP, hlt, hv, h0, ↓reduceIte, upd_same, WalkAt]
            refine ⟨hj, ?_⟩
            simp only [setNode_nodes_same]
            refine Road.setNode hroad _ _ ?_ ?_ <;> (intro _; rfl)
          · simp only [walkFuel]; omega
      · refine ⟨.slot n (j + 1), L, ?_, ?_, Or.inr ⟨?_, ?_⟩⟩
        · simp [stepPP, hlt, hv, PP.nextSlot]
        · simp [stepPP, hlt, hv, PP.nextSlot]
        · simp only [stepPP, hlt, hv, ↓reduceIte, PP.nextSlot, upd_same, WalkAt]
          exact ⟨by omega, hroad⟩
        · simp only [walkFuel]; omega
    · have hj8 : j = slotCnt := by omega
      by_cases hv : (s.nodes n).hslot = .ptr old
      · by_cases h0 : old = 0
        · refine ⟨.rel n, L, ?_, ?_, Or.inr ⟨?_, ?_⟩⟩
          · simp [stepPP, hlt, hv, h0, PP.nextSlot]
          · simp [stepPP, hlt, hv, h0, PP.nextSlot]
          · simp only [stepPP, hlt, hv, h0, ↓reduceIte, PP.nextSlot, upd_same, WalkAt]
            simp only [setNode_nodes_same]
            refine Road.setNode hroad _ _ ?_ ?_ <;> (intro _; rfl)
          · simp only [walkFuel]; omega
        · refine ⟨.slotInc n j, L, ?_, ?_, Or.inr ⟨?_, ?_⟩⟩
          · simp [stepPP, hlt, hv, h0]
          · simp [stepPP, hlt, hv, h0]
          · simp only [stepPP, hlt, hv, h0, ↓reduceIte, upd_same, WalkAt]
            refine ⟨hj, ?_⟩
            simp only [setNode_nodes_same]
            refine Road.setNode hroad _ _ ?_ ?_ <;> (intro _; rfl)
          · simp only [walkFuel]; omega
      · refine ⟨.rel n, L, ?_, ?_, Or.inr ⟨?_, ?_⟩⟩
        · simp [stepPP, hlt, hv, PP.nextSlot]
        · simp [stepPP, hlt, hv, PP.nextSlot]
        · simp only [stepPP, hlt, hv, ↓reduceIte, PP.nextSlot, upd_same, WalkAt]
          exact hroad
        · simp only [walkFuel]; omega
  | slotInc n j =>
    obtain ⟨hj, hroad⟩ := hw
    have hs8 : slotCnt = 8 := rfl
    by_cases hlt : j < slotCnt
    · refine ⟨.slot n (j + 1), L, ?_, ?_, Or.inr ⟨?_, ?_⟩⟩
      · simp [stepPP, PP.nextSlot, hlt]
      · simp [stepPP, PP.nextSlot, hlt]
      · simp only [stepPP, PP.nextSlot, hlt, ↓reduceIte, upd_same, WalkAt]
        refine ⟨by omega, ?_⟩
        simpa using hroad.incObj old
      · simp only [walkFuel]; omega
    · refine ⟨.rel n, L, ?_, ?_, Or.inr ⟨?_, ?_⟩⟩
      · simp [stepPP, PP.nextSlot, hlt]
      · simp [stepPP, PP.nextSlot, hlt]
      · simp only [stepPP, PP.nextSlot, hlt, ↓reduceIte, upd_same, WalkAt]
        simpa using hroad.incObj old
      · have : j = slotCnt := by omega
        have hs : slotCnt = 8 := rfl
        simp only [walkFuel]; omega
  | rel n =>
    have hroad : Road s (s.nodes n).next L := hw
    cases hnx : (s.nodes n).next with
    | none =>
      exact ⟨.fin, [], by simp [stepPP, hnx], by simp [stepPP, hnx], Or.inl rfl⟩
    | some m =>
      refine ⟨.res m, L, ?_, ?_, Or.inr ⟨?_, ?_⟩⟩
      · simp [stepPP, hnx]
      · simp [stepPP, hnx]
      · simp only [stepPP, hnx, upd_same, WalkAt]
        rw [hnx] at hroad
        refine Road.setNode hroad _ _ ?_ ?_ <;> (intro _; rfl)
      · simp only [walkFuel]
        have : 1 ≤ L.length := by
          rw [hnx] at hroad
          cases L with
          | nil => exact absurd hroad.chain (by simp [chainFrom])
          | cons x r => simp
        omega
  | _ => exact hw.elim



theorem WalkAt.congr {s s' : Shared} {l : Locals} {pp : PP} {L : List Nat} (h : WalkAt s l pp L)
    (hn : s'.nodes = s.nodes) (hh : s'.head = s.head) : WalkAt s' l pp L := by
  have fr : ∀ cur L, Road s cur L → Road s' cur L := fun cur L r =>
    r.frame (fun m => by rw [hn]) (fun m => by rw [hn])
  cases pp <;> simp only [WalkAt] at h ⊢ <;> first
    | exact h.elim
    | (rw [hh]; exact fr _ _ h)
    | exact fr _ _ h
    | (rw [hn]; exact ⟨h.1, h.2.1, fr _ _ h.2.2⟩)
    | (rw [hn]; exact ⟨h.1, fr _ _ h.2⟩)
    | (rw [hn]; exact fr _ _ h)

/-- **every walk ends, alone**: a thread that is walking the list — for the value it exchanged out
    (`swap`, `store`, `compare_and_swap`, `rcu`) or for the value of the container it is consuming or
    dropping — with the road ahead quiet, running alone, reaches the end of the walk within
    `walkFuel + 1` of its own steps -/
theorem walkC_ends_alone (f : Nat) : ∀ (st : State) (t a : Nat) (pp : PP) (L : List Nat),
    (st.th t).op.walkC? = some (a, pp) → WalkAt st.sh (st.th t).loc pp L →
    (st.th t).loc.node.isSome = true → walkFuel pp L.length ≤ f →
    ∃ k, k ≤ f + 1 ∧ ((solo st t k).th t).op.walkC? = some (a, .fin) := by
  induction f with
  | zero =>
    intro st t a pp L hop hw hnode hf
    obtain ⟨c, hnodes, hloc, hor, hhead⟩ := microStep_walkC_fwd st t false a pp hop
    obtain ⟨pp', L', h1, h2, h3⟩ := walkPP_step st.cfg a c st.sh (st.th t).loc pp L hw hnode
    rcases h3 with rfl | ⟨_, hlt⟩
    · rcases hor with h4 | h4
      · exact ⟨1, by omega, by rw [← h1]; exact h4⟩
      · rw [h1] at h4; cases h4
    · omega
  | succ f ih =>
    intro st t a pp L hop hw hnode hf
    obtain ⟨c, hnodes, hloc, hor, hhead⟩ := microStep_walkC_fwd st t false a pp hop
    obtain ⟨pp', L', h1, h2, h3⟩ := walkPP_step st.cfg a c st.sh (st.th t).loc pp L hw hnode
    rcases h3 with rfl | ⟨hw', hlt⟩
    · rcases hor with h4 | h4
      · exact ⟨1, by omega, by rw [← h1]; exact h4⟩
      · rw [h1] at h4; cases h4
    · rcases hor with h4 | h4
      · have hl : ((microStep st t false).1.th t).loc = (st.th t).loc := by rw [hloc, h2]
        obtain ⟨k, hk, hfin⟩ := ih (microStep st t false).1 t a pp' L' (by rw [← h1]; exact h4)
          (by rw [hl]; exact hw'.congr hnodes hhead) (by rw [hl]; exact hnode) (by omega)
        exact ⟨k + 1, by omega, hfin⟩
      · -- a walk that is over has no fuel left: not this case
        rw [h1] at h4; subst h4
        exact hw'.elim

/-- **in every reachable state**: a thread at the start of a walk — of a `swap`, `store`,
    `compare_and_swap`, `rcu`, `into_inner` or container drop — with every other thread frozen
    wherever it is and no reader inside its fallback window, ends the walk alone within
    `25 · nNodes + 4` own steps -/
theorem walkC_bound_reachable {st : State} (h : Reachable st) (t a : Nat)
    (hop : (st.th t).op.walkC? = some (a, .start)) (hnode : (st.th t).loc.node.isSome = true)
    (hq : ∀ m, (st.sh.nodes m).control = .idle) :
    ∃ k, k ≤ 25 * st.sh.nNodes + 4 ∧ ((solo st t k).th t).op.walkC? = some (a, .fin) := by
  obtain ⟨L, hL⟩ := ListInv.reachable h
  obtain ⟨k, hk, hfin⟩ := walkC_ends_alone (25 * L.length + 3) st t a .start L hop ⟨hL.1, fun m _ => hq m⟩ hnode
    (Nat.le_refl _)
  have := hL.length_le
  exact ⟨k, by omega, hfin⟩

end M
