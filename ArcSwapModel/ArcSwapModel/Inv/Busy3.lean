import ArcSwapModel.Inv.Busy2

/-!
# The `busy` invariant

`BusyInv`: the operations in progress on a container are counted in `busy`; a container taken for
destruction is worked on by its destroyer alone, keeps its value until the destroyer's walk is
over, and an operation that does not destroy works on a container that exists and is not taken.
-/

namespace M
open Consts

structure BusyInv (N T : Nat) (st : State) : Prop where
  idle : IdleBeyond T st
  count : ∀ c, sumN (fun t => (st.th t).op.nb c) T ≤ st.sh.busy c
  taken : ∀ t c, (st.th t).op.cons = true → (st.th t).op.cell? = some c → st.ctaken c = true
  consN : ∀ t c, (st.th t).op.cons = true → (st.th t).op.cell? = some c → c < N
  free : ∀ t c, (st.th t).op.cell? = some c → (st.th t).op.cons = false →
    st.sh.cells c ≠ none ∧ c < N ∧ st.ctaken c = false
  uniq : ∀ t u c, (st.th t).op.cons = true → (st.th u).op.cons = true →
    (st.th t).op.cell? = some c → (st.th u).op.cell? = some c → t = u
  ccell : ∀ t c p, (st.th t).op.consWalk c p → st.sh.cells c = some p
  cdec : ∀ t c p, (st.th t).op = .dropcDec c p → st.sh.cells c = some p

theorem BusyInv.initial (N T : Nat) (cfg : Cfg) (progs : Nat → List (String × Op)) : BusyInv N T (State.initial cfg progs) :=
  ⟨(fun _ _ => rfl), (fun c => by
      have : sumN (fun t => ((State.initial cfg progs).th t).op.nb c) T = 0 := by
        rw [← sumN_zero T]; exact sumN_congr (fun n _ => by simp [State.initial, OpSt.nb, OpSt.cell?])
      omega),
   (fun t c h => by cases h), (fun t c h => by cases h), (fun t c h => by cases h), (fun t u c h => by cases h),
   (fun t c p h => by rcases h with ⟨_, _, h⟩ | ⟨_, h⟩ <;> cases h), (fun t c p h => by cases h)⟩

theorem OpSt.consWalk_cons {op : OpSt} {c p : Nat} (h : op.consWalk c p) : op.cons = true ∧ op.cell? = some c := by
  rcases h with ⟨x, pp, rfl⟩ | ⟨pp, rfl⟩ <;> exact ⟨rfl, rfl⟩

theorem BusyInv.step {N T : Nat} {st : State} (h : BusyInv N T st) (hx : ∀ t, (st.th t).op.cxok)
    (t : Nat) (ht : t < T) (b : Bool) (htame : Tame2 N st t) : BusyInv N T (microStep st t b).1 := by
  have hoth := (microStep_own st t b).2
  -- a thread with an operation on a container is below `T`
  have below : ∀ u c, (st.th u).op.cell? = some c → u < T := by
    intro u c hc
    refine Nat.lt_of_not_le (fun hle => ?_)
    rw [h.idle u hle] at hc; cases hc
  have counted : ∀ u c, (st.th u).op.cell? = some c → (st.th u).op.cons = false → 1 ≤ st.sh.busy c := by
    intro u c hc hn
    have h1 := @sumN_term (fun t => (st.th t).op.nb c) T u (below u c hc)
    have h2 : (st.th u).op.nb c = 1 := by simp [OpSt.nb, hc, hn]
    have := h.count c
    omega
  -- what the step does to `ctaken`
  have hct : (microStep st t b).1.ctaken = st.ctaken ∨
      ∃ c2, (st.th t).op = .idle ∧ st.ctaken c2 = false ∧ st.sh.busy c2 = 0 ∧
        (microStep st t b).1.ctaken = upd st.ctaken c2 true ∧
        ((microStep st t b).1.th t).op.cell? = some c2 ∧ ((microStep st t b).1.th t).op.cons = true := by
    rcases microStep_ctaken st t b with h1 | ⟨hidle, c2, hc2, hcons⟩
    · exact Or.inl h1
    · rcases microStep_cellq2 st t b c2 hc2 with ⟨h2, _⟩ | ⟨_, _, h3, _, _, _, h7⟩
      · rw [hidle] at h2; cases h2
      · obtain ⟨h8, h9, _⟩ := h7 hcons
        exact Or.inr ⟨c2, hidle, h3, h8, h9, hc2, hcons⟩
  -- the cell of a container that an operation of another kind is working on stays non-empty
  have keep_cell : ∀ c, st.sh.cells c ≠ none → st.ctaken c = false → (microStep st t b).1.sh.cells c ≠ none := by
    intro c hne hnt
    by_cases hc : (st.th t).op.cell? = some c
    · have hncons : (st.th t).op.cons = false := by
        cases hcb : (st.th t).op.cons with
        | false => rfl
        | true => have := h.taken t c hcb hc; rw [hnt] at this; cases this
      cases hq : st.sh.cells c with
      | none => exact absurd hq hne
      | some a =>
        have hnidle : (st.th t).op ≠ .idle := fun e => by rw [e] at hc; cases hc
        rcases microStep_cells (N := N) st t b (hx t) (fun e => absurd e hnidle) hncons c a hq with h1 | h1
        · rw [h1]; simp
        · exact h1.2
    · rw [microStep_cells_other st t b c hc (fun hidle txt x rest hp => by
        have := (htame hidle txt _ rest hp).2 c x rfl
        exact absurd this hne)]
      exact hne
  refine ⟨fun u hu => ?_, fun c => ?_, fun u c hcons hcell => ?_, fun u c hcons hcell => ?_, fun u c hcell hcons => ?_,
    fun u1 u2 c hc1 hc2 hl1 hl2 => ?_, fun u c p hw => ?_, fun u c p hd => ?_⟩
  · -- idle beyond T
    have : u ≠ t := by omega
    rw [hoth u this]; exact h.idle u hu
  · -- the count
    have h1 := microStep_busy st t b c (by
      have := @sumN_term (fun t => (st.th t).op.nb c) T t ht
      have := h.count c
      omega)
    have h2 := @sumN_upd (fun u => (st.th u).op.nb c) (fun u => ((microStep st t b).1.th u).op.nb c) T t ht
      (fun m hm => by rw [hoth m hm])
    have h3 := h.count c
    omega
  · -- a destroyer's container is taken
    by_cases e : u = t
    · subst e
      rcases microStep_cellq2 st u b c hcell with ⟨h2, h3⟩ | ⟨_, _, _, _, _, _, h7⟩
      · rw [h3] at hcons
        have := h.taken u c hcons h2
        rcases hct with h4 | ⟨c2, hidle, _, _, _, _, _⟩
        · rw [h4]; exact this
        · rw [hidle] at h2; cases h2
      · obtain ⟨_, h9, _⟩ := h7 hcons
        rw [h9]; simp
    · rw [hoth u e] at hcons hcell
      have := h.taken u c hcons hcell
      rcases hct with h4 | ⟨c2, _, _, _, h5, _, _⟩
      · rw [h4]; exact this
      · rw [h5]; by_cases e2 : c = c2 <;> simp [upd, e2, this]
  · -- a destroyer's container is below N
    by_cases e : u = t
    · subst e
      rcases microStep_cellq2 st u b c hcell with ⟨h2, h3⟩ | ⟨_, _, _, h6, _⟩
      · rw [h3] at hcons; exact h.consN u c hcons h2
      · exact h6 N htame
    · rw [hoth u e] at hcons hcell; exact h.consN u c hcons hcell
  · -- an operation of another kind works on a container that exists and is not taken
    by_cases e : u = t
    · subst e
      rcases microStep_cellq2 st u b c hcell with ⟨h2, h3⟩ | ⟨_, h4, h5, h6, h7, h8, _⟩
      · rw [h3] at hcons
        obtain ⟨f1, f2, f3⟩ := h.free u c h2 hcons
        refine ⟨keep_cell c f1 f3, f2, ?_⟩
        rcases hct with h4 | ⟨c2, hidle, _, _, _, _, _⟩
        · rw [h4]; exact f3
        · rw [hidle] at h2; cases h2
      · refine ⟨by rw [h7]; exact h4, h6 N htame, ?_⟩
        rw [h8 hcons]; exact h5
    · rw [hoth u e] at hcons hcell
      obtain ⟨f1, f2, f3⟩ := h.free u c hcell hcons
      refine ⟨keep_cell c f1 f3, f2, ?_⟩
      rcases hct with h4 | ⟨c2, _, _, hb0, h5, _, _⟩
      · rw [h4]; exact f3
      · rw [h5]
        by_cases e2 : c = c2
        · subst e2
          have := counted u c hcell hcons
          omega
        · simp [upd, e2, f3]
  · -- one destroyer per container
    by_cases e1 : u1 = t <;> by_cases e2 : u2 = t
    · rw [e1, e2]
    · subst e1
      rw [hoth u2 e2] at hc2 hl2
      rcases microStep_cellq2 st u1 b c hl1 with ⟨h2, h3⟩ | ⟨_, _, h5, _⟩
      · rw [h3] at hc1; exact h.uniq u1 u2 c hc1 hc2 h2 hl2
      · have := h.taken u2 c hc2 hl2; rw [h5] at this; cases this
    · subst e2
      rw [hoth u1 e1] at hc1 hl1
      rcases microStep_cellq2 st u2 b c hl2 with ⟨h2, h3⟩ | ⟨_, _, h5, _⟩
      · rw [h3] at hc2; exact h.uniq u1 u2 c hc1 hc2 hl1 h2
      · have := h.taken u1 c hc1 hl1; rw [h5] at this; cases this
    · rw [hoth u1 e1] at hc1 hl1; rw [hoth u2 e2] at hc2 hl2
      exact h.uniq u1 u2 c hc1 hc2 hl1 hl2
  · -- the container keeps its value while its destroyer walks
    by_cases e : u = t
    · subst e
      rcases microStep_consWalk st u b c p hw with ⟨h1, h2⟩ | hidle
      · rw [h2]; exact h.ccell u c p h1
      · obtain ⟨hcons, hcell⟩ := OpSt.consWalk_cons hw
        rcases microStep_cellq2 st u b c hcell with ⟨h2, _⟩ | ⟨_, _, _, _, h7, _, h9⟩
        · rw [hidle] at h2; cases h2
        · obtain ⟨_, _, p', hp', hor⟩ := h9 hcons
          rw [h7, hp']
          rcases hor with ⟨x, hx'⟩ | hx' <;> rcases hw with ⟨y, pp, hy⟩ | ⟨pp, hy⟩ <;> rw [hx'] at hy <;> cases hy <;> rfl
    · rw [hoth u e] at hw
      obtain ⟨hcons, hcell⟩ := OpSt.consWalk_cons hw
      have hcp := h.ccell u c p hw
      have htk := h.taken u c hcons hcell
      rw [microStep_cells_other st t b c ?_ ?_]
      · exact hcp
      · intro hc
        cases hcb : (st.th t).op.cons with
        | false => have := (h.free t c hc hcb).2.2; rw [htk] at this; cases this
        | true => exact e (h.uniq u t c hcons hcb hcell hc)
      · intro hidle txt x rest hp
        have := (htame hidle txt _ rest hp).2 c x rfl
        rw [hcp] at this; cases this
  · -- … and until the final decrement of a drop
    by_cases e : u = t
    · subst e
      obtain ⟨⟨pp, h1⟩, h2⟩ := microStep_dropcDec st u b c p hd
      rw [h2]; exact h.ccell u c p (Or.inr ⟨pp, h1⟩)
    · rw [hoth u e] at hd
      have hcons : (st.th u).op.cons = true := by rw [hd]; rfl
      have hcell : (st.th u).op.cell? = some c := by rw [hd]; rfl
      have hcp := h.cdec u c p hd
      have htk := h.taken u c hcons hcell
      rw [microStep_cells_other st t b c ?_ ?_]
      · exact hcp
      · intro hc
        cases hcb : (st.th t).op.cons with
        | false => have := (h.free t c hc hcb).2.2; rw [htk] at this; cases this
        | true => exact e (h.uniq u t c hcons hcb hcell hc)
      · intro hidle txt x rest hp
        have := (htame hidle txt _ rest hp).2 c x rfl
        rw [hcp] at this; cases this

end M
