import ArcSwapModel.Inv.Haz1

/-!
# An operation in progress works on a container that exists
-/

namespace M
open Consts

theorem beginOp_cellq (st : State) (t : Nat) (o : Op) (c : Nat)
    (h : ((beginOp st t o).1.th t).op.cell? = some c) : st.sh.cells c ≠ none := by
  cases o <;> simp only [beginOp] at h <;> (repeat' split at h) <;>
    first
      | (simp [OpSt.cell?] at h; done)
      | (simp only [upd_same, OpSt.cell?, Option.some.injEq] at h; subst h; simp_all; done)
      | (revert h; dsimp only; (try split) <;> simp [OpSt.cell?]; done)
      | skip

theorem beginOp_cell_below (N : Nat) (st : State) (t : Nat) (o : Op) (c : Nat) (hb : o.below N)
    (h : ((beginOp st t o).1.th t).op.cell? = some c) : c < N := by
  cases o <;> simp only [beginOp] at h <;> (repeat' split at h) <;>
    first
      | (simp [OpSt.cell?] at h; done)
      | (simp only [upd_same, OpSt.cell?, Option.some.injEq] at h; subst h; simp only [Op.below] at hb; omega)
      | (revert h; dsimp only; (try split) <;> simp [OpSt.cell?]; done)
      | skip

theorem microStep_cellq (st : State) (t : Nat) (b : Bool) (c : Nat)
    (h : ((microStep st t b).1.th t).op.cell? = some c) :
    (st.th t).op.cell? = some c ∨ (st.sh.cells c ≠ none ∧ ∀ N, Tame N st t → c < N) := by
  cases hop : (st.th t).op with
  | idle =>
    simp only [microStep, hop] at h
    split at h
    · simp only [upd_same] at h; split at h <;> cases h
    · rename_i txt o rest hp
      exact Or.inr ⟨beginOp_cellq { st with th := upd st.th t { prog := rest, op := .idle, loc := (st.th t).loc } } t o c h,
        fun N hN => beginOp_cell_below N { st with th := upd st.th t { prog := rest, op := .idle, loc := (st.th t).loc } } t o c
          (hN hop txt o rest hp).1 h⟩
  | finished => simp only [microStep, hop] at h; cases h
  | swapSw c0 a0 out isStore =>
    simp only [microStep, hop] at h
    split at h
    · left; simpa [OpSt.cell?] using h
    · rw [hop] at h; left; exact h
  | _ =>
    left
    simp only [microStep, hop] at h
    (repeat' split at h) <;> first | (simp [OpSt.cell?] at h; done) | (simpa [OpSt.cell?] using h)

/-- every operation in progress works on a container that exists -/
def OpCell (N : Nat) (st : State) : Prop := ∀ t c, (st.th t).op.cell? = some c → st.sh.cells c ≠ none ∧ c < N

/-- no container is being destroyed -/
def NoCons (st : State) : Prop := ∀ t, (st.th t).op.cons = false

theorem beginOp_nocons (st : State) (t : Nat) (o : Op)
    (htame : match o with | .mk c _ => st.sh.cells c = none | .cinto _ _ => False | .dropc _ => False | _ => True) :
    ((beginOp st t o).1.th t).op.cons = false := by
  cases o with
  | cinto c h => exact htame.elim
  | dropc c => exact htame.elim
  | _ =>
    simp only [beginOp] <;> (repeat' split) <;>
      first
        | (simp [OpSt.cons]; done)
        | (dsimp only; (try split) <;> simp [OpSt.cons])

theorem microStep_nocons {N : Nat} (st : State) (t : Nat) (b : Bool) (htame : Tame N st t) (h : (st.th t).op.cons = false) :
    ((microStep st t b).1.th t).op.cons = false := by
  cases hop : (st.th t).op with
  | idle =>
    simp only [microStep, hop]
    split
    · simp only [upd_same]; split <;> rfl
    · rename_i txt o rest hp
      exact beginOp_nocons { st with th := upd st.th t { prog := rest, op := .idle, loc := (st.th t).loc } } t o
        (htame hop txt o rest hp).2
  | finished => simp only [microStep, hop]; rfl
  | swapSw c0 a0 out isStore =>
    simp only [microStep, hop]
    split
    · simp [OpSt.cons]
    · rw [hop]; rfl
  | cinto c x p pp => rw [hop] at h; cases h
  | dropc c p pp => rw [hop] at h; cases h
  | dropcDec c p => rw [hop] at h; cases h
  | _ => simp only [microStep, hop] <;> (repeat' split) <;> simp [OpSt.cons]

theorem NoCons.step {N : Nat} {st : State} (h : NoCons st) (t : Nat) (b : Bool) (htame : Tame N st t) : NoCons (microStep st t b).1 := by
  intro u
  by_cases e : u = t
  · subst e; exact microStep_nocons st u b htame (h u)
  · rw [(microStep_own st t b).2 u e]; exact h u

theorem OpCell.step {N : Nat} {st : State} (h : OpCell N st) (hn : NoCons st) (hx : ∀ t, (st.th t).op.cxok) (t : Nat) (b : Bool)
    (htame : Tame N st t) : OpCell N (microStep st t b).1 := by
  intro u c hc
  have keep : ∀ c, st.sh.cells c ≠ none → (microStep st t b).1.sh.cells c ≠ none := by
    intro c hne
    cases hq : st.sh.cells c with
    | none => exact absurd hq hne
    | some a =>
      rcases microStep_cells st t b (hx t) htame (hn t) c a hq with h1 | h1
      · rw [h1]; simp
      · exact h1.2
  by_cases e : u = t
  · subst e
    rcases microStep_cellq st u b c hc with h1 | h1
    · exact ⟨keep c (h u c h1).1, (h u c h1).2⟩
    · exact ⟨keep c h1.1, h1.2 N htame⟩
  · rw [(microStep_own st t b).2 u e] at hc
    exact ⟨keep c (h u c hc).1, (h u c hc).2⟩

end M
