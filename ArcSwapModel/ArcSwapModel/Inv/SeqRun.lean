import ArcSwapModel.Inv.FaultFree
import ArcSwapModel.Inv.EnvEx

/-!
# Sequential executions need no assumption about hand-overs

A hand-over needs two threads: the writer at the exchange of `help` (`h7`) has no window of its own,
and the control word it exchanges belongs to a thread inside its window.  So along executions of
one thread no control word ever holds an envelope (`NoEnv` is a consequence, not an assumption), and
everything proved for `EnvRun0` holds for every sequential execution that keeps the program
discipline: no fault, the ledger, exact counts at rest.
-/

namespace M
open Consts

/-- `EnvOK0` for thread 0, without the two clauses about envelopes -/
structure SeqOK (K N : Nat) (st : State) (b : Bool) : Prop where
  regs : (st.th 0).op.okR N st.sh
  nodesBelow : (microStep st 0 b).1.sh.nNodes ≤ K
  room : ∀ v, (st.sh.heap (alloc st.sh v).2.1).cnt = 0
  next : ∀ txt o rest, (st.th 0).prog = (txt, o) :: rest → o.below N ∧ (∀ c h, o = .mk c h → st.sh.cells c = none)

/-- executions of thread 0 alone -/
def SeqRun (K N : Nat) : State → List Bool → Prop
  | _, [] => True
  | st, b :: rest => SeqOK K N st b ∧ SeqRun K N (microStep st 0 b).1 rest

def seqSched (bs : List Bool) : List (Nat × Bool) := bs.map (fun b => (0, b))

theorem seqSched_append (b1 b2 : List Bool) : seqSched (b1 ++ b2) = seqSched b1 ++ seqSched b2 := by
  simp [seqSched]

theorem SeqRun.prefix {K N : Nat} {st : State} {b1 b2 : List Bool} (h : SeqRun K N st (b1 ++ b2)) :
    SeqRun K N st b1 ∧ SeqRun K N (run st (seqSched b1)) b2 := by
  induction b1 generalizing st with
  | nil => exact ⟨trivial, h⟩
  | cons x rest ih =>
    obtain ⟨h1, h2⟩ := h
    obtain ⟨i1, i2⟩ := ih h2
    exact ⟨⟨h1, i1⟩, i2⟩

theorem EnvRun0.append {K N T : Nat} {st : State} {s1 s2 : List (Nat × Bool)} (h1 : EnvRun0 K N T st s1)
    (h2 : EnvRun0 K N T (run st s1) s2) : EnvRun0 K N T st (s1 ++ s2) := by
  induction s1 generalizing st with
  | nil => exact h2
  | cons x rest ih =>
    obtain ⟨t, b⟩ := x
    obtain ⟨ht, hok, hrest⟩ := h1
    exact ⟨ht, hok, ih hrest h2⟩

theorem noEnv_run {K N T : Nat} {st : State} (sched : List (Nat × Bool)) (he : EnvRun0 K N T st sched)
    (h0 : NoEnv st.sh) : NoEnv (run st sched).sh := by
  induction sched generalizing st with
  | nil => exact h0
  | cons x rest ih => obtain ⟨t, b⟩ := x; exact ih he.2.2 he.2.1.noEnvAfter

/-- a step of the only running thread creates no envelope -/
theorem seq_step_noEnv {st : State} (hr : Reachable st) (hf : st.sh.fault = none) (hib : IdleBeyond 1 st)
    (hne : NoEnv st.sh) (b : Bool) (hf' : (microStep st 0 b).1.sh.fault = none) :
    NoEnv (microStep st 0 b).1.sh := by
  have hctl := CtlInv.reachable hr hf
  have hn := NodeInv.reachable hr
  obtain ⟨hstep, _⟩ := microStep_ctl st 0 b hctl.beyond (hn.th 0) (hctl.hwf 0) hf'
  intro n j hc
  cases hstep with
  | same h1 _ _ => rw [h1 n] at hc; exact hne n j hc
  | opens n0 g _ _ _ _ h5 =>
    rw [h5 n] at hc
    split at hc
    · cases hc
    · exact hne n j hc
  | closes n0 g _ _ _ h4 h5 =>
    by_cases e : n = n0
    · subst e; rw [h4] at hc; cases hc
    · rw [h5 n e] at hc; exact hne n j hc
  | hands who g m h1 h2 _ _ =>
    have hnz : (st.sh.nodes who).control ≠ .idle := by rw [h1]; intro h; cases h
    obtain ⟨t', g', _, hw, _⟩ := hctl.owner who hnz
    by_cases e : t' = 0
    · subst e; rw [h2] at hw; cases hw
    · have : 1 ≤ t' := Nat.pos_of_ne_zero e
      rw [hib t' this] at hw; cases hw

/-- **a sequential execution that keeps the program discipline satisfies the assumptions of the
    ledger**: that no hand-over succeeds is a consequence -/
theorem seqRun_env (K N : Nat) (hK : 0 < K) (cfg : Cfg) (progs : Nat → List (String × Op)) (bs : List Bool)
    (h : SeqRun K N (State.initial cfg progs) bs) : EnvRun0 K N 1 (State.initial cfg progs) (seqSched bs) := by
  revert h
  refine list_snoc_induction (fun bs => SeqRun K N (State.initial cfg progs) bs →
    EnvRun0 K N 1 (State.initial cfg progs) (seqSched bs)) ?_ ?_ bs
  · intro _; trivial
  · intro pre b ih h
    obtain ⟨h1, h2, _⟩ := SeqRun.prefix h
    have he := ih h1
    have hf := env_run_fault_free K N 1 hK cfg progs _ he
    have hne : NoEnv (run (State.initial cfg progs) (seqSched pre)).sh :=
      noEnv_run _ he (fun n j h => by simp [State.initial] at h)
    have hib : IdleBeyond 1 (run (State.initial cfg progs) (seqSched pre)) := idleBeyond_run _ he (fun _ _ => rfl)
    have hf' := env_step_no_fault K N 1 hK cfg progs _ he hf 0 (by decide) b
      (fun txt o rest hp => (h2.next txt o rest hp).1)
    have hne' := seq_step_noEnv ⟨cfg, progs, _, rfl⟩ hf hib hne b hf'
    rw [seqSched_append]
    exact he.append ⟨by decide, ⟨h2.regs, h2.nodesBelow, hne, hne', h2.room, h2.next⟩, trivial⟩

/-- **no sequential execution that keeps the program discipline raises a fault** — nothing assumed
    about the helping protocol -/
theorem seq_run_fault_free (K N : Nat) (hK : 0 < K) (cfg : Cfg) (progs : Nat → List (String × Op)) (bs : List Bool)
    (h : SeqRun K N (State.initial cfg progs) bs) : (run (State.initial cfg progs) (seqSched bs)).sh.fault = none :=
  env_run_fault_free K N 1 hK cfg progs _ (seqRun_env K N hK cfg progs bs h)

/-- … and the count ledger holds in its end state -/
theorem seq_run_ledger (K N : Nat) (hK : 0 < K) (cfg : Cfg) (progs : Nat → List (String × Op)) (bs : List Bool)
    (h : SeqRun K N (State.initial cfg progs) bs) : Ledger K N 1 (run (State.initial cfg progs) (seqSched bs)) :=
  C02_ledger_final K N 1 hK cfg progs _ (seqRun_env K N hK cfg progs bs h) (seq_run_fault_free K N hK cfg progs bs h)


/-- **between operations the counts are exact**: in the end state of a sequential execution that
    keeps the program discipline, with the thread between two operations (or finished), for every
    value: strong count + debt slots naming it = containers + handles + guards denoting it — a
    borrowed guard is an owner like any other, which is the accounting law of the sequential
    specification (`Spec`, `C14_accounting`) -/
theorem seq_between_ops_counts (K N : Nat) (hK : 0 < K) (cfg : Cfg) (progs : Nat → List (String × Op)) (bs : List Bool)
    (h : SeqRun K N (State.initial cfg progs) bs)
    (hidle : ((run (State.initial cfg progs) (seqSched bs)).th 0).op = .idle ∨
      ((run (State.initial cfg progs) (seqSched bs)).th 0).op = .finished)
    (a : Nat) (ha : a ≠ 0) :
    ((run (State.initial cfg progs) (seqSched bs)).sh.heap a).cnt +
        occ K (run (State.initial cfg progs) (seqSched bs)).sh.nodes a =
      (run (State.initial cfg progs) (seqSched bs)).sh.regs N a := by
  have hl := seq_run_ledger K N hK cfg progs bs h a ha
  have e1 : threadsU 1 (run (State.initial cfg progs) (seqSched bs)) a = 0 := by
    simp only [threadsU, sumN]
    rcases hidle with e | e <;> rw [e] <;> rfl
  simp only [pot] at hl
  omega

/-- along a sequential execution no control word ever holds an envelope -/
theorem seq_run_noEnv (K N : Nat) (hK : 0 < K) (cfg : Cfg) (progs : Nat → List (String × Op)) (bs : List Bool)
    (h : SeqRun K N (State.initial cfg progs) bs) : NoEnv (run (State.initial cfg progs) (seqSched bs)).sh :=
  noEnv_run _ (seqRun_env K N hK cfg progs bs h) (fun n j h => by simp [State.initial] at h)

/-! ## An executable check of `SeqRun` -/

def seqOKB (K N : Nat) (st : State) (b : Bool) : Bool :=
  decide ((st.th 0).op.okR N st.sh) && decide ((microStep st 0 b).1.sh.nNodes ≤ K) &&
    decide ((st.sh.heap (lowestFree st.sh.heap 4096)).cnt = 0) && nextB N st 0

def seqRunB (K N : Nat) : State → List Bool → Bool
  | _, [] => true
  | st, b :: rest => seqOKB K N st b && seqRunB K N (microStep st 0 b).1 rest

theorem seqRun_of_B {K N : Nat} {st : State} {bs : List Bool} (h : seqRunB K N st bs = true) : SeqRun K N st bs := by
  induction bs generalizing st with
  | nil => trivial
  | cons b rest ih =>
    simp only [seqRunB, seqOKB, Bool.and_eq_true, decide_eq_true_eq] at h
    obtain ⟨⟨⟨⟨h1, h2⟩, h3⟩, h4⟩, hrest⟩ := h
    exact ⟨⟨h1, h2, fun v => h3, next_of_B h4⟩, ih hrest⟩

/-- one thread: two values, a container, a borrowed guard held across a store, a full load, a
    successful and a failing `compare_and_swap`, `rcu`, a promotion, releases, `into_inner` -/
def seqEx : State := State.initial {} (fun t =>
  if t = 0 then
    [("new h0 5", .new 0 5), ("mk c0 h0", .mk 0 0), ("load c0 g0", .load 0 0), ("new h1 6", .new 1 6),
     ("store c0 h1", .store 0 1), ("loadfull c0 h2", .loadfull 0 2), ("cas c0 h2 h2 g1", .cas 0 (.h 2) 2 1),
     ("rcu c0 h3", .rcu 0 3), ("ginto g0 h1", .ginto 0 1), ("dropg g1", .dropg 1), ("droph h1", .droph 1),
     ("cinto c0 h0", .cinto 0 0), ("droph h0", .droph 0), ("droph h3", .droph 3)]
  else [])

end M
