import ArcSwapModel.Inv.AssertFree

/-!
# The facts the assertions check hold in every reachable fault-free state
-/

namespace M
open Consts

/-! ## From the innermost components to the whole operation -/

theorem PP.okN_lp {s : Shared} {l : Locals} {pp : PP} {lp : LP} (h : pp.okN s l) (hl : pp.lp? = some lp) : lp.okN s l := by
  cases pp <;> first | (cases hl; done) | (simp only [PP.lp?, Option.some.injEq] at hl; subst hl; exact h)
theorem CP.okN_lp {s : Shared} {l : Locals} {cp : CP} {lp : LP} (h : cp.okN s l) (hl : cp.lp? = some lp) : lp.okN s l := by
  cases cp with
  | load ld => simp only [CP.lp?, Option.some.injEq] at hl; subst hl; exact h
  | pay old pp => exact PP.okN_lp (pp := pp) h hl
  | _ => cases hl
theorem RP.okN_lp {s : Shared} {l : Locals} {rp : RP} {lp : LP} (h : rp.okN s l) (hl : rp.lp? = some lp) : lp.okN s l := by
  cases rp with
  | load ld => simp only [RP.lp?, Option.some.injEq] at hl; subst hl; exact h
  | cas cur x cp => exact CP.okN_lp (cp := cp) h hl
  | _ => cases hl
theorem OpSt.okN_lp {s : Shared} {l : Locals} {op : OpSt} {lp : LP} (h : op.okN s l) (hl : op.lp? = some lp) : lp.okN s l := by
  cases op with
  | load c g ld => simp only [OpSt.lp?, Option.some.injEq] at hl; subst hl; exact h
  | loadFull c x ld => simp only [OpSt.lp?, Option.some.injEq] at hl; subst hl; exact h
  | swapPay c out old isStore pp => exact PP.okN_lp (pp := pp) h hl
  | cinto c x p pp => exact PP.okN_lp (pp := pp) h hl
  | dropc c p pp => exact PP.okN_lp (pp := pp) h hl
  | cas c cur keep curPtr new g cp => exact CP.okN_lp (cp := cp) h hl
  | rcu c out tries rp => exact RP.okN_lp (rp := rp) h hl
  | _ => cases hl

/-- the part of `PP.pre` that is not about a nested load -/
def PP.preOwn (s : Shared) (l : Locals) : PP → Prop
  | .hload _ _ => True
  | pp => pp.pre s l

theorem PP.pre_of {s : Shared} {l : Locals} {pp : PP} (h1 : ∀ lp, pp.lp? = some lp → lp.pre s l) (h2 : pp.preOwn s l) :
    pp.pre s l := by
  cases pp with
  | hload x ld => exact h1 ld rfl
  | _ => exact h2

theorem OpSt.pre_of {s : Shared} {l : Locals} {op : OpSt}
    (h1 : ∀ lp, op.lp? = some lp → lp.pre s l)
    (h2 : ∀ a pp, op.walkC? = some (a, pp) → pp.preOwn s l)
    (h3 : ∀ cd n, op = .exitCool cd → cd = .swap n → (s.nodes n).inUse = nodeUsed) : op.pre s l := by
  cases op with
  | load c g ld => exact h1 ld rfl
  | loadFull c x ld => exact h1 ld rfl
  | swapPay c out old isStore pp => exact PP.pre_of (fun lp hl => h1 lp hl) (h2 old pp rfl)
  | cinto c x p pp => exact PP.pre_of (fun lp hl => h1 lp hl) (h2 p pp rfl)
  | dropc c p pp => exact PP.pre_of (fun lp hl => h1 lp hl) (h2 p pp rfl)
  | exitCool cd => exact fun n hn => h3 cd n rfl hn
  | cas c cur keep curPtr new g cp =>
    cases cp with
    | load ld => exact h1 ld rfl
    | pay old pp => exact PP.pre_of (fun lp hl => h1 lp hl) (h2 old.ptr pp rfl)
    | _ => trivial
  | rcu c out tries rp =>
    cases rp with
    | load ld => exact h1 ld rfl
    | cas cur x cp =>
      cases cp with
      | load ld => exact h1 ld rfl
      | pay old pp => exact PP.pre_of (fun lp hl => h1 lp hl) (h2 old.ptr pp rfl)
      | _ => trivial
    | _ => trivial
  | _ => trivial

theorem PP.chk_of_lp {pp : PP} {lp : LP} (h : pp.lp? = some lp) : pp.chk = lp.chk := by
  cases pp <;> first | (cases h; done) | (simp only [PP.lp?, Option.some.injEq] at h; subst h; rfl)
theorem CP.chk_of_lp {cp : CP} {lp : LP} (h : cp.lp? = some lp) : cp.chk = lp.chk := by
  cases cp with
  | load ld => simp only [CP.lp?, Option.some.injEq] at h; subst h; rfl
  | pay old pp => exact PP.chk_of_lp (pp := pp) h
  | _ => cases h
theorem RP.chk_of_lp {rp : RP} {lp : LP} (h : rp.lp? = some lp) : rp.chk = lp.chk := by
  cases rp with
  | load ld => simp only [RP.lp?, Option.some.injEq] at h; subst h; rfl
  | cas cur x cp => exact CP.chk_of_lp (cp := cp) h
  | _ => cases h
theorem OpSt.chk_of_lp {op : OpSt} {lp : LP} (h : op.lp? = some lp) : op.chk = lp.chk := by
  cases op with
  | load c g ld => simp only [OpSt.lp?, Option.some.injEq] at h; subst h; rfl
  | loadFull c x ld => simp only [OpSt.lp?, Option.some.injEq] at h; subst h; rfl
  | swapPay c out old isStore pp => exact PP.chk_of_lp (pp := pp) h
  | cinto c x p pp => exact PP.chk_of_lp (pp := pp) h
  | dropc c p pp => exact PP.chk_of_lp (pp := pp) h
  | cas c cur keep curPtr new g cp => exact CP.chk_of_lp (cp := cp) h
  | rcu c out tries rp => exact RP.chk_of_lp (rp := rp) h
  | _ => cases h

theorem OpSt.chk_of_walk {op : OpSt} {a : Nat} {pp : PP} (h : op.walkC? = some (a, pp)) : op.chk = pp.chk := by
  cases op with
  | swapPay c out old isStore pp0 =>
    simp only [OpSt.walkC?, OpSt.walk?, Option.some.injEq, Prod.mk.injEq] at h; obtain ⟨_, rfl⟩ := h; rfl
  | cinto c x p pp0 => simp only [OpSt.walkC?, Option.some.injEq, Prod.mk.injEq] at h; obtain ⟨_, rfl⟩ := h; rfl
  | dropc c p pp0 => simp only [OpSt.walkC?, Option.some.injEq, Prod.mk.injEq] at h; obtain ⟨_, rfl⟩ := h; rfl
  | cas c cur keep curPtr new g cp =>
    cases cp with
    | pay old pp0 =>
      simp only [OpSt.walkC?, OpSt.walk?, CP.walk?, Option.some.injEq, Prod.mk.injEq] at h; obtain ⟨_, rfl⟩ := h; rfl
    | _ => simp [OpSt.walkC?, OpSt.walk?, CP.walk?] at h
  | rcu c out tries rp =>
    cases rp with
    | cas cur x cp =>
      cases cp with
      | pay old pp0 =>
        simp only [OpSt.walkC?, OpSt.walk?, RP.walk?, CP.walk?, Option.some.injEq, Prod.mk.injEq] at h
        obtain ⟨_, rfl⟩ := h; rfl
      | _ => simp [OpSt.walkC?, OpSt.walk?, RP.walk?, CP.walk?] at h
    | _ => simp [OpSt.walkC?, OpSt.walk?, RP.walk?] at h
  | _ => simp [OpSt.walkC?, OpSt.walk?] at h

theorem WalkNodeC.reachable {st : State} (h : Reachable st) : WalkNodeC st := by
  obtain ⟨cfg, progs, sched, rfl⟩ := h
  have h0 : WalkNodeC (State.initial cfg progs) := fun t a pp hw => by cases hw
  generalize State.initial cfg progs = st at h0
  induction sched generalizing st with
  | nil => exact h0
  | cons x rest ih => obtain ⟨t, b⟩ := x; exact ih _ (h0.step t b)

/-- **the facts every assertion checks hold in every reachable fault-free state** -/
theorem pre_reachable {st : State} (h : Reachable st) (hf : st.sh.fault = none) (t : Nat) :
    (st.th t).op.pre st.sh (st.th t).loc := by
  have hchk := CheckInv.reachable h
  have hown := OwnInv.reachable h
  have hnode := NodeInv.reachable h
  have hprobe := ProbeInv.reachable h
  have hctl := CtlInv.reachable h hf
  have hhold := HHoldInv.reachable h hf
  have hwalk := WalkNodeC.reachable h
  have hself := SelfInv.reachable h hf
  refine OpSt.pre_of (fun lp hlp => ?_) (fun a pp hw => ?_) (fun cd n hop hcd => ?_)
  · -- the innermost load
    have hokn := OpSt.okN_lp (hnode.th t) hlp
    have hownlp := ownsT_of_lp (st.th t) lp hlp
    have used_node : lp.early = false → ownsLP (st.th t).loc lp = (st.th t).loc.node →
        ∃ n, (st.th t).loc.node = some n ∧ (st.sh.nodes n).inUse = nodeUsed := by
      intro he hol
      obtain ⟨n, hn⟩ := Option.isSome_iff_exists.mp (hokn.2.1 he)
      exact ⟨n, hn, hown.used t n (by rw [hownlp, hol]; exact hn)⟩
    have getD : lp.early = false → ∃ n, (st.th t).loc.node = some n ∧ (st.th t).loc.node.getD 0 = n := by
      intro he
      obtain ⟨n, hn⟩ := Option.isSome_iff_exists.mp (hokn.2.1 he)
      exact ⟨n, hn, by rw [hn]; rfl⟩
    cases lp with
    | get ng => exact fun n hn => hchk.held t n (by rw [OpSt.chk_of_lp hlp]; exact hn)
    | reget ng => exact fun n hn => hchk.held t n (by rw [OpSt.chk_of_lp hlp]; exact hn)
    | cool cd =>
      intro n hn
      subst hn
      refine hown.used t n (owns_of_cooldown (st.th t) n ?_)
      cases hop : (st.th t).op with
      | exitCool cd' => rw [hop] at hlp; cases hlp
      | _ => simp only [OpSt.cd?, hop] <;> (rw [hop] at hlp; simp only [hlp, Option.bind, LP.cd?])
    | nfDbg p => exact used_node rfl rfl
    | nhDbg => exact used_node rfl rfl
    | chDbg g cand => exact used_node rfl rfl
    | pswap p i =>
      obtain ⟨n, hn, hg⟩ := getD rfl
      show (st.sh.nodes ((st.th t).loc.node.getD 0)).fast i = .none
      rw [hg]; exact hprobe t p i n hlp hn
    | f2 g =>
      obtain ⟨n, hn, hg⟩ := getD rfl
      show (st.sh.nodes ((st.th t).loc.node.getD 0)).control = .idle
      rw [hg]
      refine control_idle_outside hctl hown t n ?_ ?_
      · rw [hownlp]; exact hn
      · rw [OpSt.win_lp, hlp]; rfl
    | f4 g cand =>
      obtain ⟨n, hn, hg⟩ := getD rfl
      show (st.sh.nodes ((st.th t).loc.node.getD 0)).hslot = .none
      rw [hg]
      cases hv : (st.sh.nodes n).hslot with
      | none => rfl
      | ptr a =>
        exfalso
        refine hslot_free_unless_held hhold hown t n (by rw [hownlp]; exact hn) a (fun hh => ?_) hv
        obtain ⟨ld, h1, h2⟩ := OpSt.hholds_lp hh
        rw [hlp] at h1; cases h1; exact h2
    | f5 g cand =>
      obtain ⟨n, hn, hg⟩ := getD rfl
      show (st.sh.nodes ((st.th t).loc.node.getD 0)).control = .gen g ∨ ∃ j, (st.sh.nodes ((st.th t).loc.node.getD 0)).control = .env j
      rw [hg]
      exact hctl.inside t g n (by rw [OpSt.win_lp, hlp]; rfl) hn
    | _ => trivial
  · -- the walk's own assertions
    cases pp with
    | get ng => exact fun n hn => hchk.held t n (by rw [OpSt.chk_of_walk hw]; exact hn)
    | res n => exact hwalk t a _ hw rfl
    | hDbg0 x =>
      have hn := hself.entry t a _ x hw rfl
      have ho : ownsT (st.th t) = some x.own := by rw [walkC_owns hw (fun ng => by simp) rfl]; exact hn
      exact hown.used t x.own ho
    | hDbg1 x =>
      have hn := hself.entry t a _ x hw rfl
      have ho : ownsT (st.th t) = some x.own := by rw [walkC_owns hw (fun ng => by simp) rfl]; exact hn
      exact control_idle_outside hctl hown t x.own ho (walkC_win_none hw rfl)
    | h2 x => exact hself.deep t a _ x hw rfl
    | _ => trivial
  · subst hcd
    exact hown.used t n (owns_of_cooldown (st.th t) n (by rw [hop]; rfl))

/-- **no assertion of the crate fires and no `expect` panics**: in every reachable state that has
    raised no fault, the next step of any thread raises no `debug_assert!`, `assert!` or `expect`
    failure — whatever fault it raises (if any) is a use-after-free, a double free or a stuck state
    of the model -/
theorem no_assertion_fires {st : State} (h : Reachable st) (hf : st.sh.fault = none) (t : Nat) (b : Bool)
    (f : Fault) (hf' : (microStep st t b).1.sh.fault = some f) : f.isAssert = false :=
  microStep_af st t b (pre_reachable h hf t) hf f hf'


/-- **no execution ever raises an assertion or an `expect` panic**: in every reachable state the
    fault flag of the machine, if set, is a use-after-free, a double free or a stuck state of the
    model — never a `debug_assert!`, an `assert!` or an `expect` of the crate.  For any number of
    threads, any programs, any schedule, any wrap modulus. -/
theorem never_an_assertion {st : State} (h : Reachable st) (f : Fault) (hf : st.sh.fault = some f) :
    f.isAssert = false := by
  obtain ⟨cfg, progs, sched, rfl⟩ := h
  revert f
  refine list_snoc_induction (fun sched => ∀ f, (run (State.initial cfg progs) sched).sh.fault = some f →
    f.isAssert = false) ?_ ?_ sched
  · intro f hf; simp [run, State.initial] at hf
  · intro pre x ih f hf
    obtain ⟨t, b⟩ := x
    have hrun : run (State.initial cfg progs) (pre ++ [(t, b)]) = (microStep (run (State.initial cfg progs) pre) t b).1 := by
      rw [run_append]; rfl
    rw [hrun] at hf
    cases hpre : (run (State.initial cfg progs) pre).sh.fault with
    | none => exact no_assertion_fires ⟨cfg, progs, pre, rfl⟩ hpre t b f hf
    | some f0 =>
      have := microStep_keep _ t b f0 hpre
      rw [this] at hf
      have e : f0 = f := by cases hf; rfl
      rw [← e]
      exact ih f0 hpre

end M
