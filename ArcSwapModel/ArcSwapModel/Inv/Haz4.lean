import ArcSwapModel.Inv.Haz3
import ArcSwapModel.Inv.SlotStep

/-!
# The hazard invariant

A fast slot that names a value protects it: the value is still in a container, or a thread that
took it out of one is walking the list and has not passed the slot — or the slot's owner has not
confirmed it yet (it is between the swap into the slot and the re-read of the container, or on its
way to take the slot back).
-/

namespace M
open Consts

/-- the owner has written the slot and not yet confirmed it -/
def Unc (lp : Option LP) (a i : Nat) : Prop := lp = some (.a3 a i) ∨ lp = some (.a4 a i)

structure HazInv (N : Nat) (st : State) (L : List Nat) : Prop where
  named : NamedLinked st L
  haz : ∀ n i a, i < slotCnt → (st.sh.nodes n).fast i = .ptr a →
    (∃ c, c < N ∧ st.sh.cells c = some a) ∨
      (∃ w pp, (st.th w).op.walk? = some (a, pp) ∧ pp.ahead L n i) ∨
      (∃ o, (st.th o).loc.node = some n ∧ Unc (st.th o).op.lp? a i)

theorem HazInv.initial (N : Nat) (cfg : Cfg) (progs : Nat → List (String × Op)) : HazInv N (State.initial cfg progs) [] :=
  ⟨NamedLinked.initial cfg progs, fun n i a _ h => by simp [State.initial] at h⟩

theorem PP.not_ahead_done (L : List Nat) (n i : Nat) : ¬ PP.done.ahead L n i := by
  intro h
  rcases h with h | ⟨m, j, h, _⟩ <;> cases h

theorem HazInv.step {N : Nat} {st : State} {L : List Nat} (h : HazInv N st L) (ho : OwnInv st) (hn : NodeInv st)
    (hw : WalkNode st) (hx : ∀ t, (st.th t).op.cxok) (hnc : NoCons st) (hoc : OpCell N st)
    (t : Nat) (b : Bool) (htame : Tame N st t) : ∃ pre, HazInv N (microStep st t b).1 (pre ++ L) := by
  obtain ⟨pre, hpre⟩ := h.named.step ho hn t b
  refine ⟨pre, hpre, fun n i a hi hs' => ?_⟩
  have hoth := (microStep_own st t b).2
  rcases microStep_slot st t b hn.nodes.slots (hn.th t) n i with e | e | ⟨hnode, p, hlp⟩
  · -- the slot is as it was
    have hs : (st.sh.nodes n).fast i = .ptr a := by rw [← e]; exact hs'
    have hnL : n ∈ L := h.named.named n i (by rw [hs]; simp)
    rcases h.haz n i a hi hs with ⟨c, hcN, hc⟩ | ⟨w, pp, hw1, hah⟩ | ⟨o, ho1, hu⟩
    · rcases microStep_cells st t b (hx t) htame (hnc t) c a hc with h1 | ⟨h1, _⟩
      · exact Or.inl ⟨c, hcN, h1⟩
      · exact Or.inr (Or.inl ⟨t, .start, h1, PP.ahead_start _ n i⟩)
    · by_cases ew : w = t
      · subst ew
        obtain ⟨c, hnodes, _, _, _, hor⟩ := microStep_walk_fwd st w b a pp hw1
        rcases ahead_step st.cfg a c st.sh (st.th w).loc b pp L h.named.linked.list.1 n i hnL hi (hw w a pp hw1) hah with h2 | h2
        · rcases hor with h3 | h3
          · exact Or.inr (Or.inl ⟨w, _, h3, h2.prepend pre⟩)
          · rw [h3] at h2; exact absurd h2 (PP.not_ahead_done L n i)
        · subst h2
          exfalso
          rw [hnodes] at hs'
          simp [stepPP, hi, hs] at hs'
      · refine Or.inr (Or.inl ⟨w, pp, ?_, hah.prepend pre⟩)
        rw [hoth w ew]; exact hw1
    · by_cases eo : o = t
      · subst eo
        have e0 : (st.th o).loc.node.getD 0 = n := by rw [ho1]; rfl
        rcases hu with hu | hu
        · obtain ⟨c, hcell, hnodes, hcells, hloc, hor⟩ := microStep_lp st o b _ hu
          have hcne := (hoc o c hcell).1
          cases hq : st.sh.cells c with
          | none => exact absurd hq hcne
          | some q =>
            by_cases eq : q = a
            · subst eq
              refine Or.inl ⟨c, (hoc o c hcell).2, ?_⟩
              rw [hcells]
              simp [stepLP, hq]
            · refine Or.inr (Or.inr ⟨o, ?_, Or.inr ?_⟩)
              · rw [hloc]; simp [stepLP, hq, ho1]
              · rcases hor with h3 | ⟨q', d, h3⟩
                · rw [h3]; simp [stepLP, hq, eq]
                · simp [stepLP, hq, eq] at h3
        · obtain ⟨c, hcell, hnodes, hcells, hloc, hor⟩ := microStep_lp st o b _ hu
          exfalso
          rw [hnodes] at hs'
          simp [stepLP, e0, hs] at hs'
      · refine Or.inr (Or.inr ⟨o, ?_, ?_⟩)
        · rw [hoth o eo]; exact ho1
        · rw [hoth o eo]; exact hu
  · rw [e] at hs'; cases hs'
  · -- the owner has just written the slot
    obtain ⟨c, hcell, hnodes, hcells, hloc, hor⟩ := microStep_lp st t b _ hlp
    have e0 : (st.th t).loc.node.getD 0 = n := by rw [hnode]; rfl
    have hpa : p = a := by
      rw [hnodes] at hs'
      simp only [stepLP, e0] at hs'
      split at hs' <;> simpa using hs'
    subst hpa
    refine Or.inr (Or.inr ⟨t, ?_, Or.inl ?_⟩)
    · rw [hloc]; simp [stepLP, hnode]
    · rcases hor with h3 | ⟨q', d, h3⟩
      · rw [h3]; simp [stepLP]
      · simp [stepLP] at h3

end M
