import ArcSwapModel.Inv.Live

/-!
# A guard whose debt has been paid owns its reference

`Inv/Alive.lean` counts claims against occupied slots.  A claim on a slot that does *not* name the
value (the writer has paid it) is a claim nobody matches, so the count is strictly larger: the
guard keeps its value alive although it still carries the debt.  The same when two holders claim
one occupied slot (a stale guard and a fresh load of the same value through the same slot).
-/

namespace M
open Consts

theorem Wf.run0 {K N T : Nat} (hK : 0 < K) {st : State} (h : Wf K st) (sched : List (Nat × Bool))
    (he : EnvRun0 K N T st sched) : Wf K (run st sched) := by
  induction sched generalizing st with
  | nil => exact h
  | cons x rest ih =>
    obtain ⟨t, b⟩ := x
    obtain ⟨_, h1, hrest⟩ := he
    have hmono := (microStep_okN st t b h.nodes (h.thN t)).2.2
    have hn : st.sh.nNodes ≤ K := Nat.le_trans hmono h1.nodesBelow
    exact ih (h.step t b hK hn h1.noEnv) hrest

theorem sum2_lt {f g : Nat → Nat → Nat} {K M n0 i0 : Nat} (h : ∀ n i, n < K → i < M → f n i ≤ g n i)
    (hn : n0 < K) (hi : i0 < M) (hlt : f n0 i0 + 1 ≤ g n0 i0) : sum2 f K M + 1 ≤ sum2 g K M := by
  simp only [sum2]
  refine sumN_lt (fun n hn' => sumN_le (fun i hi' => h n i hn' hi')) hn ?_
  exact sumN_lt (fun i hi' => h n0 i hn hi') hi hlt

/-- the slots naming `a`, plus one, are at most the claims — when some slot is over-claimed -/
theorem occ_lt_claims (K N T : Nat) (st : State) (a : Nat) (h1 : HoldInv st) (h2 : HHoldInv st)
    (hg : GregBelow N st.sh.greg) (ht : IdleBeyond T st)
    (n0 i0 : Nat) (hn0 : n0 < K) (hi0 : i0 < slotCnt + 1)
    (hover : named (st.sh.nodes n0) a i0 + 1 ≤
        sumN (fun g => cnt2 (gClaims a (st.sh.greg g)) n0 i0) N +
        sumN (fun t => cnt2 ((st.th t).op.claims a (st.th t).loc) n0 i0) T) :
    occ K st.sh.nodes a + 1 ≤ sumN (fun g => (gClaims a (st.sh.greg g)).length) N +
      sumN (fun t => ((st.th t).op.claims a (st.th t).loc).length) T := by
  rw [occ_named]
  have key := occ_pointwise K N T st a h1 h2 hg ht
  refine Nat.le_trans (sum2_lt key hn0 hi0 hover) ?_
  rw [sum2_add, sum2_sumN (fun g n i => cnt2 (gClaims a (st.sh.greg g)) n i),
    sum2_sumN (fun t n i => cnt2 ((st.th t).op.claims a (st.th t).loc) n i)]
  refine Nat.add_le_add (sumN_le (fun g _ => ?_)) (sumN_le (fun t _ => ?_))
  · exact sum2_cnt2 _ _ _
  · exact sum2_cnt2 _ _ _

/-- **a guard whose debt has been paid keeps the value alive**: a register guard for `a` with a debt
    on a slot that does not name `a` (any more) -/
theorem paid_guard_counted (K N T : Nat) (hK : 0 < K) (cfg : Cfg) (progs : Nat → List (String × Op))
    (sched : List (Nat × Bool)) (he : EnvRun0 K N T (State.initial cfg progs) sched)
    (hf : (run (State.initial cfg progs) sched).sh.fault = none) (a : Nat) (ha : a ≠ 0)
    (g : Nat) (hg : g < N) (gd : Guard) (hreg : (run (State.initial cfg progs) sched).sh.greg g = some gd)
    (hp : gd.ptr = a) (n i : Nat) (hd : gd.debt = some (n, i))
    (hpaid : ((run (State.initial cfg progs) sched).sh.nodes n).fast i ≠ .ptr a) :
    1 ≤ ((run (State.initial cfg progs) sched).sh.heap a).cnt := by
  have hl := C02_ledger_final K N T hK cfg progs sched he hf a ha
  have h1 := holdInv_of_env cfg progs sched he hf
  have h2 := HHoldInv.reachable ⟨cfg, progs, sched, rfl⟩ hf
  have hgb : GregBelow N (run (State.initial cfg progs) sched).sh.greg :=
    gregBelow_run N sched (RegRun.of_env he) (fun _ _ => rfl)
  have ht : IdleBeyond T (run (State.initial cfg progs) sched) :=
    idleBeyond_run sched he (fun _ _ => rfl)
  have hwf := Wf.run0 hK (Wf.initial K cfg progs) sched he
  obtain ⟨hnK, hiS⟩ := hwf.greg g gd hreg n i hd
  -- the guard's claim on `(n, i)` is matched by nothing
  have hover : named ((run (State.initial cfg progs) sched).sh.nodes n) a i + 1 ≤
      sumN (fun g => cnt2 (gClaims a ((run (State.initial cfg progs) sched).sh.greg g)) n i) N +
      sumN (fun t => cnt2 (((run (State.initial cfg progs) sched).th t).op.claims a
        ((run (State.initial cfg progs) sched).th t).loc) n i) T := by
    have e0 : named ((run (State.initial cfg progs) sched).sh.nodes n) a i = 0 := by
      simp only [named, hiS, ↓reduceIte, ind, hpaid]
    have c1 : 1 ≤ cnt2 (gClaims a ((run (State.initial cfg progs) sched).sh.greg g)) n i := by
      rw [hreg]; exact cnt2_pos (Guard.claims_of_holds ⟨hp, hd⟩)
    have := @sumN_term (fun g => cnt2 (gClaims a ((run (State.initial cfg progs) sched).sh.greg g)) n i) N g hg
    omega
  have hocc := occ_lt_claims K N T _ a h1 h2 hgb ht n i hnK (by omega) hover
  have hG : sumN (fun g => (gClaims a ((run (State.initial cfg progs) sched).sh.greg g)).length) N ≤
      sumN (fun g => gU ((run (State.initial cfg progs) sched).sh.greg g) a) N :=
    sumN_le (fun g _ => gClaims_len _ a)
  have hT : sumN (fun t => (((run (State.initial cfg progs) sched).th t).op.claims a
        ((run (State.initial cfg progs) sched).th t).loc).length) T ≤
      threadsU T (run (State.initial cfg progs) sched) a :=
    sumN_le (fun t _ => OpSt.claims_len _ _ a)
  simp only [pot, Shared.regs, regs] at hl
  omega

end M
