import ArcSwapModel.Inv.HazD3

/-!
# Every guard in a register keeps its value alive — also when containers are consumed and dropped

The theorems of `Inv/Haz7.lean` without the restriction to executions that destroy no container:
the ledger's assumptions (`EnvRun0`) already contain what the hazard invariant needs.
-/

namespace M
open Consts

/-- **every guard in a register keeps its value alive.**  Along every execution that satisfies the
    assumptions of the ledger (registers not raced on, containers created on fresh cells, the
    pool not exhausted, at most `K` nodes, no successful hand-over) and that has raised no fault —
    containers may be consumed and dropped at any time: the value of every guard in a register — borrowed or
    not, paid or not, whatever the thread that made it and all the others are doing — has a
    positive count and has not been destroyed. -/
theorem guard_value_alive_env (K N T : Nat) (hK : 0 < K) (cfg : Cfg) (progs : Nat → List (String × Op))
    (sched : List (Nat × Bool)) (he : EnvRun0 K N T (State.initial cfg progs) sched)
    (hf : (run (State.initial cfg progs) sched).sh.fault = none) (a : Nat) (ha : a ≠ 0)
    (g : Nat) (hg : g < N) (gd : Guard) (hreg : (run (State.initial cfg progs) sched).sh.greg g = some gd)
    (hp : gd.ptr = a) :
    1 ≤ ((run (State.initial cfg progs) sched).sh.heap a).cnt ∧
      ((run (State.initial cfg progs) sched).sh.heap a).live = true := by
  suffices hcnt : 1 ≤ ((run (State.initial cfg progs) sched).sh.heap a).cnt from
    ⟨hcnt, HeapOk.reachable ⟨cfg, progs, sched, rfl⟩ a hcnt⟩
  cases hd : gd.debt with
  | none => exact owned_guard_counted K N T hK cfg progs sched he hf a ha g hg gd hreg hp hd
  | some ni =>
    obtain ⟨n, i⟩ := ni
    by_cases hs : ((run (State.initial cfg progs) sched).sh.nodes n).fast i = .ptr a
    · have hwf := Wf.run0 hK (Wf.initial K cfg progs) sched he
      obtain ⟨hnK, hiS⟩ := hwf.greg g gd hreg n i hd
      by_cases hu : ∃ o, ((run (State.initial cfg progs) sched).th o).loc.node = some n ∧
          Unc ((run (State.initial cfg progs) sched).th o).op.lp? a i
      · -- two claimants of one occupied slot
        obtain ⟨o, hno, huo⟩ := hu
        have hl := C02_ledger_final K N T hK cfg progs sched he hf a ha
        have h1 := holdInv_of_env cfg progs sched he hf
        have h2 := HHoldInv.reachable ⟨cfg, progs, sched, rfl⟩ hf
        have hgb : GregBelow N (run (State.initial cfg progs) sched).sh.greg :=
          gregBelow_run N sched (RegRun.of_env he) (fun _ _ => rfl)
        have hib : IdleBeyond T (run (State.initial cfg progs) sched) :=
          idleBeyond_run sched he (fun _ _ => rfl)
        have hoT : o < T := by
          refine Nat.lt_of_not_le (fun hle => ?_)
          exact idle_not_unc (hib o hle) a i huo
        have hover : named ((run (State.initial cfg progs) sched).sh.nodes n) a i + 1 ≤
            sumN (fun g => cnt2 (gClaims a ((run (State.initial cfg progs) sched).sh.greg g)) n i) N +
            sumN (fun t => cnt2 (((run (State.initial cfg progs) sched).th t).op.claims a
              ((run (State.initial cfg progs) sched).th t).loc) n i) T := by
          have e0 : named ((run (State.initial cfg progs) sched).sh.nodes n) a i ≤ 1 := by
            simp only [named]; split <;> simp only [ind] <;> split <;> omega
          have c1 : 1 ≤ cnt2 (gClaims a ((run (State.initial cfg progs) sched).sh.greg g)) n i := by
            rw [hreg]; exact cnt2_pos (Guard.claims_of_holds ⟨hp, hd⟩)
          have c2 : 1 ≤ cnt2 (((run (State.initial cfg progs) sched).th o).op.claims a
              ((run (State.initial cfg progs) sched).th o).loc) n i :=
            cnt2_pos (OpSt.claims_of_holds (holds_of_unc _ n i a hno huo))
          have s1 := @sumN_term (fun g => cnt2 (gClaims a ((run (State.initial cfg progs) sched).sh.greg g)) n i) N g hg
          have s2 := @sumN_term (fun t => cnt2 (((run (State.initial cfg progs) sched).th t).op.claims a
              ((run (State.initial cfg progs) sched).th t).loc) n i) T o hoT
          omega
        have hocc := occ_lt_claims K N T _ a h1 h2 hgb hib n i hnK (by omega) hover
        have hG : sumN (fun g => (gClaims a ((run (State.initial cfg progs) sched).sh.greg g)).length) N ≤
            sumN (fun g => gU ((run (State.initial cfg progs) sched).sh.greg g) a) N :=
          sumN_le (fun g _ => gClaims_len _ a)
        have hT : sumN (fun t => (((run (State.initial cfg progs) sched).th t).op.claims a
              ((run (State.initial cfg progs) sched).th t).loc).length) T ≤
            threadsU T (run (State.initial cfg progs) sched) a :=
          sumN_le (fun t _ => OpSt.claims_len _ _ a)
        simp only [pot, Shared.regs, regs] at hl
        omega
      · exact (confirmed_slot_value_alive K N T hK cfg progs sched he (TameRun2.of_env he) hf a ha n i hiS hs
          (fun o hno huo => hu ⟨o, hno, huo⟩)).1
    · exact paid_guard_counted K N T hK cfg progs sched he hf a ha g hg gd hreg hp n i hd hs


/-- **dereferencing a guard raises no fault**: the access through any guard in a register finds
    the value alive (the model's `gderef` raises a use-after-free fault otherwise) -/
theorem gderef_no_fault_env (K N T : Nat) (hK : 0 < K) (cfg : Cfg) (progs : Nat → List (String × Op))
    (sched : List (Nat × Bool)) (he : EnvRun0 K N T (State.initial cfg progs) sched)
    (hf : (run (State.initial cfg progs) sched).sh.fault = none)
    (t g : Nat) (hg : g < N) (b : Bool) (txt : String) (rest : List (String × Op))
    (hidle : ((run (State.initial cfg progs) sched).th t).op = .idle)
    (hprog : ((run (State.initial cfg progs) sched).th t).prog = (txt, .gderef g) :: rest) :
    (microStep (run (State.initial cfg progs) sched) t b).1.sh.fault = none := by
  simp only [microStep, hidle, hprog, beginOp]
  cases hreg : (run (State.initial cfg progs) sched).sh.greg g with
  | none => exact hf
  | some gd =>
    dsimp only
    by_cases h0 : gd.ptr = 0
    · simp [h0, hf]
    · have hl := (guard_value_alive_env K N T hK cfg progs sched he hf gd.ptr h0 g hg gd hreg rfl).2
      simp [hl, hf]


/-- **a guard outlives its container**: thread `o` rests on a borrowed guard (slot `i` of its node
    names `a`); whatever the others do meanwhile — replace the value, consume or drop the
    container — `a` stays alive -/
theorem resting_guard_alive_env (K N T : Nat) (hK : 0 < K) (cfg : Cfg) (progs : Nat → List (String × Op))
    (sched : List (Nat × Bool)) (he : EnvRun0 K N T (State.initial cfg progs) sched)
    (hf : (run (State.initial cfg progs) sched).sh.fault = none) (a : Nat) (ha : a ≠ 0)
    (o n i : Nat) (hi : i < slotCnt)
    (hidle : ((run (State.initial cfg progs) sched).th o).op = .idle)
    (hnode : ((run (State.initial cfg progs) sched).th o).loc.node = some n)
    (hs : ((run (State.initial cfg progs) sched).sh.nodes n).fast i = .ptr a) :
    1 ≤ ((run (State.initial cfg progs) sched).sh.heap a).cnt ∧
      ((run (State.initial cfg progs) sched).sh.heap a).live = true := by
  refine confirmed_slot_value_alive K N T hK cfg progs sched he (TameRun2.of_env he) hf a ha n i hi hs (fun o' hn' hu => ?_)
  have hown := OwnInv.reachable ⟨cfg, progs, sched, rfl⟩
  have h1 : ownsT ((run (State.initial cfg progs) sched).th o') = some n := by rw [owns_of_unc _ a i hu]; exact hn'
  have h2 : ownsT ((run (State.initial cfg progs) sched).th o) = some n := by
    unfold ownsT; rw [hidle]; exact hnode
  by_cases e : o' = o
  · subst e; exact idle_not_unc hidle a i hu
  · exact hown.excl o' o n e h1 h2

end M

namespace M
open Consts

/-! ## Non-vacuity -/

def tame2B (N : Nat) (st : State) (t : Nat) : Bool :=
  match (st.th t).op, (st.th t).prog with
  | .idle, (_, o) :: _ =>
    decide (o.below N) && (match o with | .mk c _ => (st.sh.cells c).isNone | _ => true)
  | _, _ => true

theorem tame2_of_B {N : Nat} {st : State} {t : Nat} (h : tame2B N st t = true) : Tame2 N st t := by
  intro hidle txt o rest hp
  simp only [tame2B, hidle, hp, Bool.and_eq_true, decide_eq_true_eq] at h
  refine ⟨h.1, fun c x e => ?_⟩
  subst e
  simpa using h.2

def tameRun2B (N T : Nat) : State → List (Nat × Bool) → Bool
  | _, [] => true
  | st, (t, b) :: rest => decide (t < T) && tame2B N st t && tameRun2B N T (microStep st t b).1 rest

theorem tameRun2_of_B {N T : Nat} {st : State} {sched : List (Nat × Bool)} (h : tameRun2B N T st sched = true) :
    TameRun2 N T st sched := by
  induction sched generalizing st with
  | nil => trivial
  | cons x rest ih =>
    obtain ⟨t, b⟩ := x
    simp only [tameRun2B, Bool.and_eq_true, decide_eq_true_eq] at h
    exact ⟨h.1.1, tame2_of_B h.1.2, ih h.2⟩

/-- thread 0 creates a value and a container and loads from it; thread 1 drops the container -/
def hazExD : State := State.initial {} (fun t =>
  if t = 0 then [("new h0 5", .new 0 5), ("mk c0 h0", .mk 0 0), ("load c0 g0", .load 0 0)]
  else if t = 1 then [("dropc c0", .dropc 0)] else [])
def hazSchedD : List (Nat × Bool) := List.replicate 12 (0, false) ++ List.replicate 1 (1, false)

/-- non-vacuity: after thread 0's load, thread 1 begins to drop the container: thread 0 rests with
    a borrowed guard of value 1, the container is taken, thread 1 is at the start of its walk -/
example : TameRun2 4 2 hazExD hazSchedD ∧ ((run hazExD hazSchedD).th 0).op = .idle ∧
    ((run hazExD hazSchedD).th 0).loc.node = some 0 ∧ ((run hazExD hazSchedD).sh.nodes 0).fast 0 = .ptr 1 ∧
    (run hazExD hazSchedD).ctaken 0 = true ∧ (run hazExD hazSchedD).sh.fault = none ∧
    ((run hazExD hazSchedD).th 1).op.walkC? = some (1, .start) :=
  ⟨tameRun2_of_B (by decide +kernel), by decide +kernel, by decide +kernel, by decide +kernel, by decide +kernel,
   by decide +kernel, by decide +kernel⟩

end M
