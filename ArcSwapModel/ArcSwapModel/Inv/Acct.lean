import ArcSwapModel.M.Frame

/-!
# Conservation of references: every step, for every shared state

A reference to the value at address `a` is *somewhere* at every moment: in the value's strong
count, or standing in for it as an occupied debt slot (a debt is a reference the container still
holds on the borrower's behalf).  On the other side of the ledger are the places that own
references: registers (containers, handles, guards) and the thread-local state of the operations
in flight — `units`, defined per program counter below (a borrowed guard, or a load that has
published its debt, counts one: it will either give the slot back or find it paid and own a
reference instead).

The theorems of this file are per step and for **any** shared state (nothing is assumed about what
other threads did or are doing): each step of the read path (`LP`), of a guard drop (`GD`) or
promotion (`GI`) and of the writer's walk (`PP`, helping included) changes

    potential(a) = strong count of a + number of debt slots holding a

by exactly the change of the stepping thread's `units(a)`.  The only two steps that move a
reference between threads other than through a slot are the two ends of a hand-over (the helper's
successful compare-exchange on the reader's control word gives its reference `r` away; the reader's
read of the envelope receives it): they are stated separately (`…_handover_gives`,
`…_handover_receives`).
-/

namespace M
open Consts

/-! ## Counting -/

def sumN (f : Nat → Nat) : Nat → Nat
  | 0 => 0
  | k + 1 => sumN f k + f k

theorem sumN_congr {f g : Nat → Nat} {K : Nat} (h : ∀ n, n < K → f n = g n) : sumN f K = sumN g K := by
  induction K with
  | zero => rfl
  | succ k ih => simp only [sumN, ih (fun n hn => h n (by omega)), h k (by omega)]

/-- changing one summand -/
theorem sumN_upd {f g : Nat → Nat} {K n : Nat} (hn : n < K) (h : ∀ m, m ≠ n → g m = f m) :
    sumN g K + f n = sumN f K + g n := by
  induction K with
  | zero => omega
  | succ k ih =>
    by_cases hk : k = n
    · subst hk
      have : sumN g k = sumN f k := sumN_congr (fun m hm => h m (by omega))
      simp only [sumN, this]; omega
    · have := ih (by omega)
      simp only [sumN, h k hk]; omega

def ind (p : Prop) [Decidable p] : Nat := if p then 1 else 0

/-- one reference to `a` if `p = a` (never for null, as `a ≠ 0` throughout) -/
def u (p a : Nat) : Nat := if p = a then 1 else 0

/-- occupied slots of one node naming `a` -/
def occN (nd : Node) (a : Nat) : Nat :=
  sumN (fun i => ind (nd.fast i = .ptr a)) slotCnt + ind (nd.hslot = .ptr a)

def occ (K : Nat) (nodes : Nat → Node) (a : Nat) : Nat := sumN (fun n => occN (nodes n) a) K

/-- the potential: strong count plus debt slots naming `a`, over the nodes below `K` -/
def pot (K : Nat) (s : Shared) (a : Nat) : Nat := (s.heap a).cnt + occ K s.nodes a

/-- nodes that do not exist yet have no occupied slot -/
def Beyond (s : Shared) : Prop :=
  ∀ n, s.nNodes ≤ n → (∀ i, (s.nodes n).fast i = .none) ∧ (s.nodes n).hslot = .none

theorem setFault_ne_none (s : Shared) (f : Fault) : (s.setFault f).fault ≠ none := by
  unfold Shared.setFault; split <;> simp_all

/-! ## Primitive effects on the potential -/

theorem pot_frame {K : Nat} {s s' : Shared} {a : Nat} (hh : s'.heap = s.heap)
    (hn : ∀ n, (s'.nodes n).fast = (s.nodes n).fast ∧ (s'.nodes n).hslot = (s.nodes n).hslot) :
    pot K s' a = pot K s a := by
  simp only [pot, hh, occ]
  congr 1
  apply sumN_congr; intro n _
  simp only [occN, (hn n).1, (hn n).2]

theorem pot_setNode_frame (K : Nat) (s : Shared) (n : Nat) (f : Node → Node) (a : Nat)
    (hf : ∀ nd, (f nd).fast = nd.fast ∧ (f nd).hslot = nd.hslot) :
    pot K (s.setNode n f) a = pot K s a := by
  refine pot_frame (s := s) (s' := s.setNode n f) rfl ?_
  intro m
  exact ⟨setNode_fast s n m f (fun nd => (hf nd).1), setNode_hslot s n m f (fun nd => (hf nd).2)⟩

theorem pot_setFast (K : Nat) (s : Shared) (n i : Nat) (v : Val) (a : Nat) (hn : n < K) (hi : i < slotCnt) :
    pot K (s.setNode n fun nd => { nd with fast := upd nd.fast i v }) a + ind ((s.nodes n).fast i = .ptr a)
      = pot K s a + ind (v = .ptr a) := by
  simp only [pot, setNode_heap, occ]
  have h1 := @sumN_upd (fun m => occN (s.nodes m) a)
    (fun m => occN ((s.setNode n fun nd => { nd with fast := upd nd.fast i v }).nodes m) a) K n hn
    (fun m hm => by simp [hm])
  have h2 := @sumN_upd (fun j => ind ((s.nodes n).fast j = .ptr a))
    (fun j => ind (upd (s.nodes n).fast i v j = .ptr a)) slotCnt i hi (fun m hm => by simp [upd, hm])
  simp only [setNode_nodes_same, occN, upd_same] at h1 h2 ⊢
  omega

theorem pot_setHslot (K : Nat) (s : Shared) (n : Nat) (v : Val) (a : Nat) (hn : n < K) :
    pot K (s.setNode n fun nd => { nd with hslot := v }) a + ind ((s.nodes n).hslot = .ptr a)
      = pot K s a + ind (v = .ptr a) := by
  simp only [pot, setNode_heap, occ]
  have h1 := @sumN_upd (fun m => occN (s.nodes m) a)
    (fun m => occN ((s.setNode n fun nd => { nd with hslot := v }).nodes m) a) K n hn
    (fun m hm => by simp [hm])
  simp only [setNode_nodes_same, occN] at h1 ⊢
  omega

theorem pot_inc (K : Nat) (s : Shared) (p a : Nat) (ha : a ≠ 0) (hf : (incObj s p).1.fault = none) :
    pot K (incObj s p).1 a = pot K s a + u p a := by
  unfold incObj at hf ⊢
  by_cases hl : (s.heap p).live = true
  · simp only [hl, ↓reduceIte, pot, u]
    by_cases hp : p = a
    · subst hp; simp [upd]; omega
    · have : a ≠ p := fun h => hp h.symm
      simp [upd, this, hp]
  · simp only [hl] at hf; exact absurd hf (setFault_ne_none _ _)

theorem pot_dec (K : Nat) (s : Shared) (p a : Nat) (ha : a ≠ 0) (hf : (decObj s p).1.fault = none) :
    pot K (decObj s p).1 a + u p a = pot K s a := by
  unfold decObj at hf ⊢
  by_cases hl : (s.heap p).live = true
  · by_cases h0 : (s.heap p).cnt = 0
    · simp only [hl, h0, ↓reduceIte] at hf; exact absurd hf (setFault_ne_none _ _)
    · by_cases h1 : (s.heap p).cnt = 1
      · simp only [hl, h0, h1, ↓reduceIte, pot, u]
        by_cases hp : p = a
        · subst hp; simp [upd, h1]; omega
        · have : a ≠ p := fun h => hp h.symm
          simp [upd, this, hp]
      · simp only [hl, h0, h1, ↓reduceIte, pot, u]
        by_cases hp : p = a
        · subst hp; simp [upd]; omega
        · have : a ≠ p := fun h => hp h.symm
          simp [upd, this, hp]
  · simp only [hl] at hf; exact absurd hf (setFault_ne_none _ _)

@[simp] theorem pot_setFault (K : Nat) (s : Shared) (f : Fault) (a : Nat) : pot K (s.setFault f) a = pot K s a :=
  pot_frame (by simp) (fun n => by simp)

@[simp] theorem pot_dbgInUse (K : Nat) (s : Shared) (n : Nat) (site : String) (a : Nat) :
    pot K (dbgInUse s n site) a = pot K s a := by
  unfold dbgInUse; split <;> simp

theorem pot_ite_setFault (K : Nat) (x : Shared) (c : Prop) [Decidable c] (f : Fault) (a : Nat) :
    pot K (if c then x else x.setFault f) a = pot K x a := by split <;> simp

@[simp] theorem pot_set_control (K : Nat) (s : Shared) (n : Nat) (v : Ctl) (a : Nat) :
    pot K (s.setNode n fun nd => { nd with control := v }) a = pot K s a :=
  pot_setNode_frame K s _ _ a (fun _ => ⟨rfl, rfl⟩)
@[simp] theorem pot_set_activeAddr (K : Nat) (s : Shared) (n : Nat) (v : Option Nat) (a : Nat) :
    pot K (s.setNode n fun nd => { nd with activeAddr := v }) a = pot K s a :=
  pot_setNode_frame K s _ _ a (fun _ => ⟨rfl, rfl⟩)
@[simp] theorem pot_set_spaceOffer (K : Nat) (s : Shared) (n : Nat) (v : Nat) (a : Nat) :
    pot K (s.setNode n fun nd => { nd with spaceOffer := v }) a = pot K s a :=
  pot_setNode_frame K s _ _ a (fun _ => ⟨rfl, rfl⟩)
@[simp] theorem pot_set_writers (K : Nat) (s : Shared) (n : Nat) (v : Nat) (a : Nat) :
    pot K (s.setNode n fun nd => { nd with writers := v }) a = pot K s a :=
  pot_setNode_frame K s _ _ a (fun _ => ⟨rfl, rfl⟩)
@[simp] theorem pot_set_inUse (K : Nat) (s : Shared) (n : Nat) (v : Nat) (a : Nat) :
    pot K (s.setNode n fun nd => { nd with inUse := v }) a = pot K s a :=
  pot_setNode_frame K s _ _ a (fun _ => ⟨rfl, rfl⟩)
@[simp] theorem pot_set_envelope (K : Nat) (s : Shared) (n : Nat) (v : Val) (a : Nat) :
    pot K (s.setNode n fun nd => { nd with envelope := v }) a = pot K s a :=
  pot_setNode_frame K s _ _ a (fun _ => ⟨rfl, rfl⟩)

theorem ind_ptr (p a : Nat) : ind (Val.ptr p = Val.ptr a) = u p a := by
  simp only [ind, u, Val.ptr.injEq]

theorem ind_none (a : Nat) : ind (Val.none = Val.ptr a) = 0 := by simp [ind]

theorem u_zero (a : Nat) (ha : a ≠ 0) : u 0 a = 0 := by
  simp only [u]; split
  · rename_i h; exact absurd h.symm ha
  · rfl

/-- the step moves `U` units of the stepping thread into `U'`, the potential absorbing the rest -/
def Cons (K : Nat) (s s' : Shared) (U U' : Nat → Nat) : Prop :=
  ∀ a, a ≠ 0 → pot K s' a + U a = pot K s a + U' a

/-! ## Guard drop and promotion -/

def uGD : GD → Nat → Nat
  | .pay p _ _ => u p
  | .dec p => u p
  | .done => fun _ => 0

def GD.ok (K : Nat) : GD → Prop
  | .pay _ n idx => n < K ∧ idx < slotCnt
  | _ => True

/-- **Guard drop conserves**: giving the slot back, or finding it paid and releasing the reference
    received instead — whichever the shared state makes happen. -/
theorem stepGD_cons (K : Nat) (s : Shared) (gd : GD) (hk : gd.ok K) (hf : (stepGD s gd).1.fault = none) :
    Cons K s (stepGD s gd).1 (uGD gd) (uGD (stepGD s gd).2.1) := by
  intro a ha
  cases gd with
  | pay p n idx =>
    simp only [stepGD] at hf ⊢
    split
    · rename_i hc
      have := pot_setFast K s n idx .none a hk.1 hk.2
      rw [hc, ind_ptr, ind_none] at this
      simp only [uGD]; omega
    · split
      · rename_i h0; subst h0; simp [uGD, u_zero a ha]
      · simp [uGD]
  | dec p =>
    simp only [stepGD] at hf ⊢
    have := pot_dec K s p a ha hf
    simp only [uGD]; omega
  | done => simp [stepGD, uGD]

/-- units of a promotion in progress; when it is finished the caller holds one full reference -/
def uGI (r : Nat) : GI → Nat → Nat
  | .inc p _ _ => u p
  | .pay p _ _ => fun a => 2 * u p a
  | .dec p => fun a => 2 * u p a
  | .done => u r

def GI.ok (K r : Nat) : GI → Prop
  | .inc p n idx => n < K ∧ idx < slotCnt ∧ p = r
  | .pay p n idx => n < K ∧ idx < slotCnt ∧ p = r
  | .dec p => p = r
  | .done => True

/-- **`Guard::into_inner` conserves**: take a reference first, then give the slot back — or find it
    paid, and release the surplus. -/
theorem stepGI_cons (K r : Nat) (s : Shared) (gi : GI) (hk : gi.ok K r) (hf : (stepGI s gi).1.fault = none) :
    Cons K s (stepGI s gi).1 (uGI r gi) (uGI r (stepGI s gi).2.1) := by
  intro a ha
  cases gi with
  | inc p n idx =>
    simp only [stepGI] at hf ⊢
    have := pot_inc K s p a ha hf
    simp only [uGI]; omega
  | pay p n idx =>
    obtain ⟨h1, h2, rfl⟩ := hk
    simp only [stepGI] at hf ⊢
    split
    · rename_i hc
      have := pot_setFast K s n idx .none a h1 h2
      rw [hc, ind_ptr, ind_none] at this
      simp only [uGI]; omega
    · split
      · rename_i h0; subst h0; simp [uGI, u_zero a ha]
      · simp [uGI]
  | dec p =>
    obtain rfl := hk
    simp only [stepGI] at hf ⊢
    have := pot_dec K s p a ha hf
    simp only [uGI]; omega
  | done => simp [stepGI, uGI]

theorem GI.ok_step (K r : Nat) (s : Shared) (gi : GI) (hk : gi.ok K r) : (stepGI s gi).2.1.ok K r := by
  cases gi with
  | inc p n idx => exact hk
  | pay p n idx =>
    simp only [stepGI]; split
    · trivial
    · split
      · trivial
      · exact hk.2.2
  | dec p => trivial
  | done => trivial

/-! ## The node list touches no slot and no count -/

theorem stepCD_pot (K : Nat) (s : Shared) (cd : CD) (a : Nat) : pot K (stepCD s cd).1 a = pot K s a := by
  cases cd <;> simp only [stepCD]
  · exact pot_setNode_frame K s _ _ a (fun nd => ⟨rfl, rfl⟩)
  · rw [pot_ite_setFault]; exact pot_setNode_frame K s _ _ a (fun nd => ⟨rfl, rfl⟩)
  · exact pot_setNode_frame K s _ _ a (fun nd => ⟨rfl, rfl⟩)

theorem Beyond.setNode_frame {s : Shared} (hb : Beyond s) (n : Nat) (f : Node → Node)
    (hf : ∀ nd, (f nd).fast = nd.fast ∧ (f nd).hslot = nd.hslot) : Beyond (s.setNode n f) := by
  intro m hm
  have := hb m hm
  rw [setNode_fast s n m f (fun nd => (hf nd).1), setNode_hslot s n m f (fun nd => (hf nd).2)]
  exact this

/-- a new node is linked with every slot empty, where there was an empty node before -/
theorem stepNG_slots (s : Shared) (b : Bool) (ng : NG) (hb : Beyond s) (m : Nat) :
    ((stepNG s b ng).1.nodes m).fast = (s.nodes m).fast ∧ ((stepNG s b ng).1.nodes m).hslot = (s.nodes m).hslot := by
  have hB := hb s.nNodes (Nat.le_refl _)
  have hfast : (s.nodes s.nNodes).fast = fun _ => Val.none := funext hB.1
  cases ng with
  | allocCas me h =>
    cases me with
    | some k =>
      simp only [stepNG]
      split <;> (simp only [Shared.setNode, upd]; split <;> simp_all)
    | none =>
      simp only [stepNG]
      split <;> (simp only [Shared.setNode, upd]; split <;> simp_all)
  | trav => simp [stepNG]
  | cc0 n =>
    simp only [stepNG]; split
    · simp only [Shared.setNode, upd]; split <;> simp_all
    · simp
  | cc1 n => simp [stepNG]
  | cc2 n idle =>
    simp only [stepNG]; split
    · simp only [Shared.setNode, upd]; split <;> simp_all
    · simp
  | claim n =>
    simp only [stepNG]; split
    · simp only [Shared.setNode, upd]; split <;> simp_all
    · simp
  | allocLoad => simp [stepNG]
  | done n => simp [stepNG]

theorem stepNG_pot (K : Nat) (s : Shared) (b : Bool) (ng : NG) (a : Nat) (hb : Beyond s) :
    pot K (stepNG s b ng).1 a = pot K s a :=
  pot_frame (stepNG_frame s b ng).2.2 (stepNG_slots s b ng hb)

/-! ## The read path -/

/-- units of a load in progress: a published debt counts one (the slot will be given back, or
    found paid: then it *is* a reference); a confirmed fallback candidate that was also counted in
    counts two until the slot is settled; a replacement received from a helper counts one more -/
def uLP : LP → Nat → Nat
  | .a3 p _ | .a4 p _ | .a4dec p => u p
  | .f5 _ cand | .fokInc cand | .fr1 cand _ => u cand
  | .fokPay cand | .fokDec cand => fun a => 2 * u cand a
  | .fr2 cand _ r | .frPay cand r | .frDec cand r => fun a => u cand a + u r a
  | .done p _ => u p
  | _ => fun _ => 0

def LP.ok (K : Nat) : LP → Prop
  | .pswap _ idx | .a3 _ idx | .a4 _ idx => idx < slotCnt
  | .fr1 _ _ => False        -- receiving end of a hand-over: stated separately
  | .done _ d => ∀ n idx, d = some (n, idx) → n < K ∧ idx < slotCnt
  | _ => True

/-- **Every step of `load` conserves** (both paths, whatever the shared state is): publishing a
    debt, confirming, giving it back on a mismatch or releasing what a writer paid meanwhile,
    counting the fallback candidate in and settling its slot, settling the slot after a hand-over. -/
theorem stepLP_cons (K : Nat) (cfg : Cfg) (c : Nat) (s : Shared) (l : Locals) (b : Bool) (lp : LP)
    (hk : lp.ok K) (hn : l.node.getD 0 < K) (hb : Beyond s) (hf : (stepLP cfg c s l b lp).1.fault = none) :
    Cons K s (stepLP cfg c s l b lp).1 (uLP lp) (uLP (stepLP cfg c s l b lp).2.2.1) := by
  intro a ha
  have u0 := u_zero a ha
  cases lp with
  | start => simp only [stepLP]; split <;> (try split) <;> simp [uLP]
  | get ng =>
    have := stepNG_pot K s b ng a hb
    simp only [stepLP]; split <;> (try split) <;> simp_all [uLP]
  | reget ng =>
    have := stepNG_pot K s b ng a hb
    simp only [stepLP]; split <;> simp_all [uLP]
  | cool cd =>
    have := stepCD_pot K s cd a
    simp only [stepLP]; split <;> simp_all [uLP]
  | a1 => simp only [stepLP]; split <;> simp [uLP, u0]
  | nfDbg p => simp only [stepLP]; split <;> simp [uLP, u0]
  | probe p i => simp only [stepLP]; (repeat' split) <;> simp [uLP]
  | pswap p idx =>
    simp only [stepLP] at hf ⊢
    have h1 := pot_setFast K s (l.node.getD 0) idx (.ptr p) a hn hk
    by_cases ho : (s.nodes (l.node.getD 0)).fast idx = .none
    · simp only [ho, ↓reduceIte, ind_none, ind_ptr] at h1 ⊢
      simp only [uLP]; omega
    · simp only [ho, ↓reduceIte] at hf; exact absurd hf (setFault_ne_none _ _)
  | a3 p idx =>
    simp only [stepLP] at hf ⊢
    split
    · split <;> simp [uLP]
    · rename_i hc; simp only [hc] at hf; exact absurd hf (setFault_ne_none _ _)
  | a4 p idx =>
    simp only [stepLP]
    split
    · rename_i hc
      have := pot_setFast K s (l.node.getD 0) idx .none a hn hk
      rw [hc, ind_ptr, ind_none] at this
      simp only [uLP]; omega
    · split
      · rename_i h0; subst h0; simp [uLP, u0]
      · simp [uLP]
  | a4dec p =>
    simp only [stepLP] at hf ⊢
    have := pot_dec K s p a ha hf
    simp only [uLP]; omega
  | nhDbg => simp only [stepLP]; split <;> (try split) <;> simp [uLP, u0]
  | f1 => simp [stepLP, uLP]
  | f2 g => simp only [stepLP, uLP]; rw [pot_ite_setFault]; simp
  | f3 g => simp only [stepLP]; split <;> simp [uLP, u0]
  | chDbg g cand => simp only [stepLP]; split <;> simp [uLP, u0]
  | f4 g cand =>
    simp only [stepLP] at hf ⊢
    have h1 := pot_setHslot K s (l.node.getD 0) (.ptr cand) a hn
    by_cases ho : (s.nodes (l.node.getD 0)).hslot = .none
    · simp only [ho, ↓reduceIte, ind_none, ind_ptr] at h1 ⊢
      simp only [uLP]; omega
    · simp only [ho, ↓reduceIte] at hf; exact absurd hf (setFault_ne_none _ _)
  | f5 g cand =>
    simp only [stepLP] at hf ⊢
    split
    · split
      · rename_i h0; subst h0; simp [uLP, u0]
      · simp [uLP]
    · rename_i hx
      simp only [hx, ↓reduceIte] at hf
      split
      · simp [uLP]
      · rename_i hne
        split at hf
        · rename_i j hj; exact absurd hj (hne j)
        · exact absurd hf (setFault_ne_none _ _)
  | fokInc cand =>
    simp only [stepLP] at hf ⊢
    have := pot_inc K s cand a ha hf
    simp only [uLP]; omega
  | fokPay cand =>
    simp only [stepLP]
    split
    · rename_i hc
      have := pot_setHslot K s (l.node.getD 0) .none a hn
      rw [hc, ind_ptr, ind_none] at this
      simp only [uLP]; omega
    · split
      · rename_i h0; subst h0; simp [uLP, u0]
      · simp [uLP]
  | fokDec cand =>
    simp only [stepLP] at hf ⊢
    have := pot_dec K s cand a ha hf
    simp only [uLP]; omega
  | fr1 cand j => exact absurd hk id
  | fr2 cand j r => simp [stepLP, uLP]
  | frPay cand r =>
    simp only [stepLP]
    split
    · rename_i hc
      have := pot_setHslot K s (l.node.getD 0) .none a hn
      rw [hc, ind_ptr, ind_none] at this
      simp only [uLP]; omega
    · split
      · rename_i h0; subst h0; simp [uLP, u0]
      · simp [uLP]
  | frDec cand r =>
    simp only [stepLP] at hf ⊢
    have := pot_dec K s cand a ha hf
    simp only [uLP]; omega
  | done p d => simp [stepLP, uLP]

/-- the receiving end of a hand-over: reading the envelope named by the control word brings the
    reference the helper left there into the reader's hands -/
theorem stepLP_handover_receives (K : Nat) (cfg : Cfg) (c : Nat) (s : Shared) (l : Locals) (b : Bool)
    (cand j r : Nat) (he : (s.nodes j).envelope = .ptr r) (a : Nat) :
    pot K (stepLP cfg c s l b (.fr1 cand j)).1 a + uLP (.fr1 cand j) a + u r a
      = pot K s a + uLP (stepLP cfg c s l b (.fr1 cand j)).2.2.1 a := by
  simp only [stepLP, he, uLP]; omega

theorem LP.ok_step (K : Nat) (cfg : Cfg) (c : Nat) (s : Shared) (l : Locals) (b : Bool) (lp : LP) (hk : lp.ok K)
    (hn : l.node.getD 0 < K)
    (hnh : ∀ j, (s.nodes (l.node.getD 0)).control ≠ .env j) : (stepLP cfg c s l b lp).2.2.1.ok K := by
  have hpos := Consts.slotCnt_pos
  have dn : (LP.done 0 none).ok K := fun n idx h => by cases h
  cases lp with
  | probe p i =>
    simp only [stepLP]
    split
    · exact Nat.mod_lt _ hpos
    · split <;> trivial
  | f5 g cand =>
    simp only [stepLP]; (repeat' split) <;>
      first | trivial | (intro n idx h; cases h) | (rename_i j hj; exact absurd hj (hnh j))
  | fr1 cand j => exact absurd hk id
  | pswap p idx => exact hk
  | a3 p idx =>
    simp only [stepLP]; split
    · split
      · intro n idx' h; simp only [Option.some.injEq, Prod.mk.injEq] at h
        obtain ⟨rfl, rfl⟩ := h; exact ⟨hn, hk⟩
      · exact hk
    · exact dn
  | done p d => exact hk
  | fokPay cand => simp only [stepLP]; (repeat' split) <;> first | trivial | (intro n idx h; cases h)
  | fokDec cand => simp only [stepLP]; intro n idx h; cases h
  | frPay cand r => simp only [stepLP]; (repeat' split) <;> first | trivial | (intro n idx h; cases h)
  | frDec cand r => simp only [stepLP]; intro n idx h; cases h
  | _ => simp only [stepLP] <;> (repeat' split) <;> first | trivial | exact dn

/-! ## The writer's walk (`Debt::pay_all`, helping included) -/

/-- units of a walk for the value `p`: the spare reference taken before the walk (consumed by each
    slot paid and taken again), what a nested load holds while helping, the replacement while it is
    being offered -/
def uPP (p : Nat) : PP → Nat → Nat
  | .start | .get _ | .inc | .slotInc _ _ | .done => fun _ => 0
  | .hload _ ld => fun a => u p a + uLP ld a
  | .hinto _ r gi => fun a => u p a + uGI r gi a
  | .h4 _ r | .h5 _ r _ | .h6 _ r _ _ | .h7 _ r _ _ | .hdrop _ r => fun a => u p a + u r a
  | _ => u p

def PP.ok (K : Nat) : PP → Prop
  | .hload _ ld => ld.ok K
  | .hinto _ r gi => gi.ok K r
  | _ => True

theorem uPP_dispatch (p : Nat) (h : HL) : uPP p (PP.dispatch h) = u p := by
  unfold PP.dispatch; split <;> rfl

theorem uPP_nextSlot (p n j : Nat) : uPP p (PP.nextSlot n j) = u p := by
  unfold PP.nextSlot; split <;> rfl

/-- **Every step of the writer's walk conserves**, for any shared state: the spare reference is
    spent on exactly the slots whose compare-exchange succeeds and re-taken each time, the nested
    load and its promotion while helping conserve, a replacement that could not be handed over is
    released, and the spare is released at the end.  (The successful hand-over itself gives the
    replacement away: `stepPP_handover_gives`.) -/
theorem stepPP_cons (K : Nat) (cfg : Cfg) (p c : Nat) (s : Shared) (l : Locals) (b : Bool) (pp : PP)
    (hk : pp.ok K) (hn : l.node.getD 0 < K) (hb : Beyond s) (hK : s.nNodes ≤ K)
    (hnh : ∀ h r t m, pp = .h7 h r t m → (s.nodes h.who).control ≠ h.ctl)
    (hf : (stepPP cfg p c s l b pp).1.fault = none) :
    Cons K s (stepPP cfg p c s l b pp).1 (uPP p pp) (uPP p (stepPP cfg p c s l b pp).2.2.1) := by
  intro a ha
  have u0 := u_zero a ha
  cases pp with
  | start =>
    simp only [stepPP]; split
    · simp [uPP]
    · split
      · rename_i h0; subst h0; simp [uPP, u0]
      · simp [uPP]
  | get ng =>
    have := stepNG_pot K s b ng a hb
    simp only [stepPP]; split
    · split
      · rename_i h0; subst h0; simp_all [uPP]
      · simp_all [uPP]
    · simp_all [uPP]
  | inc =>
    simp only [stepPP] at hf ⊢
    have := pot_inc K s p a ha hf
    simp only [uPP]; omega
  | trav => simp only [stepPP]; split <;> simp [uPP]
  | res n =>
    simp only [stepPP] at hf ⊢
    split
    · rename_i hl; simp only [hl] at hf; exact absurd hf (setFault_ne_none _ _)
    · simp [uPP]
  | hDbg0 h => simp [stepPP, uPP]
  | hDbg1 h => simp only [stepPP, uPP]; rw [pot_ite_setFault]
  | h1 h => simp only [stepPP]; rw [uPP_dispatch]; simp [uPP]
  | h2 h =>
    simp only [stepPP]
    (repeat' split) <;> simp [uPP, uLP, pot_ite_setFault]
  | h3 h =>
    simp only [stepPP]; split
    · simp [uPP]
    · rw [uPP_dispatch]; simp [uPP]
  | hres h => simp [stepPP, uPP, uLP]
  | hload h ld =>
    have hc := stepLP_cons K cfg c s l b ld hk hn hb
    simp only [stepPP] at hf ⊢
    split
    · rename_i s' l' r d evs heq
      simp only [heq] at hc hf
      have hc' := hc hf a ha
      have e : uLP (LP.done r d) a = u r a := rfl
      rw [e] at hc'
      split
      · simp only [uPP]; omega
      · rename_i hgi
        simp only [uPP]
        have : uGI r (GI.ofGuard { ptr := r, debt := d }) a = u r a := by
          unfold GI.ofGuard at hgi ⊢
          cases d with
          | none => simp at hgi
          | some nd =>
            dsimp only
            split
            · rename_i h0; subst h0; simp [uGI, u0]
            · simp [uGI]
        omega
    · rename_i s' l' ld' evs hne heq
      simp only [heq] at hc hf
      have hc' := hc hf a ha
      simp only [uPP]; omega
  | hinto h r gi =>
    have hc := stepGI_cons K r s gi hk
    simp only [stepPP] at hf ⊢
    split
    · rename_i s' evs heq
      simp only [heq] at hc hf
      have hc' := hc hf a ha
      have e : uGI r GI.done a = u r a := rfl
      rw [e] at hc'
      simp only [uPP]; omega
    · rename_i s' gi' evs hne heq
      simp only [heq] at hc hf
      have hc' := hc hf a ha
      simp only [uPP]; omega
  | h4 h r => simp [stepPP, uPP]
  | h5 h r t => simp [stepPP, uPP]
  | h6 h r t m => simp [stepPP, uPP]
  | h7 h r t m =>
    simp only [stepPP]
    split
    · rename_i hx; exact absurd hx (hnh h r t m rfl)
    · split
      · rename_i h0; subst h0; rw [uPP_dispatch]; simp [uPP, u0]
      · simp [uPP]
  | h8 h t => simp [stepPP, uPP]
  | hdrop h r =>
    simp only [stepPP] at hf ⊢
    have := pot_dec K s r a ha hf
    rw [uPP_dispatch]; simp only [uPP]; omega
  | hend h => simp only [stepPP]; split <;> simp [uPP]
  | hrel h => simp [stepPP, uPP]
  | slot n j =>
    simp only [stepPP]
    split
    · rename_i hj
      split
      · rename_i hc
        have hnK : n < K := by
          apply Classical.byContradiction; intro hge
          have := (hb n (by omega)).1 j
          rw [this] at hc; cases hc
        have := pot_setFast K s n j .none a hnK hj
        rw [hc, ind_ptr, ind_none] at this
        split
        · rename_i h0; subst h0; rw [uPP_nextSlot]; simp only [uPP]; omega
        · simp only [uPP]; omega
      · rw [uPP_nextSlot]; simp [uPP]
    · split
      · rename_i hc
        have hnK : n < K := by
          apply Classical.byContradiction; intro hge
          have := (hb n (by omega)).2
          rw [this] at hc; cases hc
        have := pot_setHslot K s n .none a hnK
        rw [hc, ind_ptr, ind_none] at this
        split
        · rename_i h0; subst h0; rw [uPP_nextSlot]; simp only [uPP]; omega
        · simp only [uPP]; omega
      · rw [uPP_nextSlot]; simp [uPP]
  | slotInc n j =>
    simp only [stepPP] at hf ⊢
    have := pot_inc K s p a ha hf
    rw [uPP_nextSlot]; simp only [uPP]; omega
  | rel n => simp only [stepPP]; split <;> simp [uPP]
  | fin =>
    simp only [stepPP]; split
    · rename_i h0; subst h0; simp [uPP, u0]
    · simp [uPP]
  | dec =>
    simp only [stepPP] at hf ⊢
    have := pot_dec K s p a ha hf
    simp only [uPP]; omega
  | done => simp [stepPP, uPP]

/-- the giving end of a hand-over: the helper's successful compare-exchange on the reader's control
    word moves the replacement `r` out of the helper's hands (into the envelope it names) -/
theorem stepPP_handover_gives (K : Nat) (cfg : Cfg) (p c : Nat) (s : Shared) (l : Locals) (b : Bool)
    (h : HL) (r t m : Nat) (hx : (s.nodes h.who).control = h.ctl) (a : Nat) :
    pot K (stepPP cfg p c s l b (.h7 h r t m)).1 a + uPP p (.h7 h r t m) a
      = pot K s a + uPP p (stepPP cfg p c s l b (.h7 h r t m)).2.2.1 a + u r a := by
  simp only [stepPP, hx, ↓reduceIte, uPP, pot_set_control]; omega

/-! ## `compare_and_swap` and `rcu`: the containers enter the ledger -/

/-- references held by the containers below `N` -/
def cellsU (N : Nat) (s : Shared) (a : Nat) : Nat := sumN (fun c => ind (s.cells c = some a)) N

/-- conservation with the containers on the owners' side -/
def ConsC (K N : Nat) (s s' : Shared) (U U' : Nat → Nat) : Prop :=
  ∀ a, a ≠ 0 → pot K s' a + cellsU N s a + U a = pot K s a + cellsU N s' a + U' a

theorem ConsC.of_cons {K N : Nat} {s s' : Shared} {U U' : Nat → Nat} (h : Cons K s s' U U')
    (hc : s'.cells = s.cells) : ConsC K N s s' U U' := by
  intro a ha
  have := h a ha
  simp only [cellsU, hc]; omega

theorem ind_some (p a : Nat) : ind (some p = some a) = u p a := by
  simp only [ind, u, Option.some.injEq]

theorem cellsU_write (N : Nat) (s : Shared) (c p a : Nat) (hc : c < N) :
    cellsU N (s.writeCell c p) a + ind (s.cells c = some a) = cellsU N s a + u p a := by
  have := @sumN_upd (fun k => ind (s.cells k = some a)) (fun k => ind ((s.writeCell c p).cells k = some a)) N c hc
    (fun m hm => by simp [Shared.writeCell, upd, hm])
  simp only [cellsU]
  have e : ind ((s.writeCell c p).cells c = some a) = u p a := by
    simp [Shared.writeCell, ind, u]
  omega

theorem pot_writeCell (K : Nat) (s : Shared) (c p a : Nat) : pot K (s.writeCell c p) a = pot K s a :=
  pot_frame rfl (fun _ => ⟨rfl, rfl⟩)

def uG (g : Guard) : Nat → Nat := u g.ptr

theorem uGD_ofGuard (g : Guard) (a : Nat) (ha : a ≠ 0) : uGD (GD.ofGuard g) a = uG g a := by
  unfold GD.ofGuard uG
  cases hd : g.debt with
  | some nd => simp [uGD]
  | none =>
    dsimp only
    split
    · rename_i h0; rw [h0]; simp [uGD, u_zero a ha]
    · simp [uGD]

theorem uGI_ofGuard (g : Guard) (a : Nat) (ha : a ≠ 0) (hne : GI.ofGuard g ≠ .done) :
    uGI g.ptr (GI.ofGuard g) a = uG g a := by
  unfold GI.ofGuard uG at *
  cases hd : g.debt with
  | none => simp [hd] at hne
  | some nd =>
    dsimp only
    split
    · rename_i h0; rw [h0]; simp [uGI, u_zero a ha]
    · simp [uGI]

theorem GD.ofGuard_ok (K : Nat) (g : Guard) (h : ∀ n idx, g.debt = some (n, idx) → n < K ∧ idx < slotCnt) :
    (GD.ofGuard g).ok K := by
  unfold GD.ofGuard
  cases hd : g.debt with
  | some nd => exact h nd.1 nd.2 (by rw [hd])
  | none => dsimp only; split <;> trivial

/-- units of a `compare_and_swap` (strategy level) in progress, for the new value `new` -/
def uCP (new : Nat) : CP → Nat → Nat
  | .load ld => fun a => uLP ld a + u new a
  | .dropNew old => fun a => uG old a + u new a
  | .cx old => fun a => uG old a + u new a
  | .pay old pp => fun a => 2 * uG old a + uPP old.ptr pp a
  | .decOld old => fun a => 2 * uG old a
  | .dropOld gd => fun a => uGD gd a + u new a
  | .done old => uG old

def Guard.ok (K : Nat) (g : Guard) : Prop := ∀ n idx, g.debt = some (n, idx) → n < K ∧ idx < slotCnt

def CP.ok (K cur : Nat) : CP → Prop
  | .load ld => ld.ok K
  | .dropNew old => old.ok K
  | .cx old => old.ptr = cur ∧ old.ok K
  | .pay old pp => pp.ok K ∧ old.ok K
  | .decOld old => old.ok K
  | .dropOld gd => gd.ok K
  | .done old => old.ok K

/-- **Every step of `compare_and_swap` conserves**: the exchange moves `new` into the container and
    the container's reference to `current` to the caller, who releases it after the walk; a failed
    exchange gives the guard back and tries again; a rejected `new` is released. -/
theorem stepCP_cons (K N : Nat) (cfg : Cfg) (c cur new : Nat) (s : Shared) (l : Locals) (b : Bool) (cp : CP)
    (hk : cp.ok K cur) (hn : l.node.getD 0 < K) (hc : c < N) (hb : Beyond s) (hK : s.nNodes ≤ K)
    (hnh : ∀ old h r t m, cp = .pay old (.h7 h r t m) → (s.nodes h.who).control ≠ h.ctl)
    (hf : (stepCP cfg c cur new s l b cp).1.fault = none) :
    ConsC K N s (stepCP cfg c cur new s l b cp).1 (uCP new cp) (uCP new (stepCP cfg c cur new s l b cp).2.2.1) := by
  cases cp with
  | load ld =>
    have hcons := stepLP_cons K cfg c s l b ld hk hn hb
    have hfr := (stepLP_frame cfg c s l b ld).1
    simp only [stepCP] at hf ⊢
    split
    · rename_i s' l' p d evs heq
      simp only [heq] at hcons hfr hf
      have hf' : s'.fault = none := by (repeat' split at hf) <;> exact hf
      intro a ha
      have h1 := (ConsC.of_cons (N := N) (hcons hf') hfr) a ha
      have e : uLP (LP.done p d) a = u p a := rfl
      rw [e] at h1
      (repeat' split) <;> simp only [uCP, uG] <;> try omega
      · rename_i h0; subst h0; have := u_zero a ha; omega
    · rename_i s' l' ld' evs hne heq
      simp only [heq] at hcons hfr hf
      intro a ha
      have h1 := (ConsC.of_cons (N := N) (hcons hf) hfr) a ha
      simp only [uCP]; omega
  | dropNew old =>
    simp only [stepCP] at hf ⊢
    intro a ha
    have := pot_dec K s new a ha hf
    simp only [uCP, cellsU, decObj_cells]; omega
  | cx old =>
    obtain ⟨hptr, hok⟩ := hk
    simp only [stepCP] at hf ⊢
    intro a ha
    split
    · rename_i q hq
      split
      · rename_i hcond
        have hqc : q = cur := by simp at hcond; exact hcond.2
        have h1 := cellsU_write N s c new a hc
        rw [hq, ind_some] at h1
        simp only [uCP, uG, uPP, pot_writeCell]
        rw [hptr, ← hqc]; omega
      · by_cases hgd : GD.ofGuard old = .done
        · have := uGD_ofGuard old a ha
          rw [hgd] at this
          simp only [hgd, ↓reduceIte, uCP, uLP, uGD] at this ⊢
          omega
        · have := uGD_ofGuard old a ha
          simp only [hgd, ↓reduceIte, uCP]; omega
    · rename_i hq; simp only [hq] at hf; exact absurd hf (setFault_ne_none _ _)
  | pay old pp =>
    have hcons := stepPP_cons K cfg old.ptr c s l b pp hk.1 hn hb hK (fun h r t m e => hnh old h r t m (by rw [e]))
    have hfr := (stepPP_frame cfg old.ptr c s l b pp).1
    simp only [stepCP] at hf ⊢
    split
    · rename_i s' l' evs heq
      simp only [heq] at hcons hfr hf
      have hf' : s'.fault = none := by (repeat' split at hf) <;> exact hf
      intro a ha
      have h1 := (ConsC.of_cons (N := N) (hcons hf') hfr) a ha
      have e : uPP old.ptr PP.done a = 0 := rfl
      rw [e] at h1
      split
      · rename_i h0; simp only [uCP, uG, h0, u_zero a ha] at h1 ⊢; omega
      · simp only [uCP]; omega
    · rename_i s' l' pp' evs hne heq
      simp only [heq] at hcons hfr hf
      intro a ha
      have h1 := (ConsC.of_cons (N := N) (hcons hf) hfr) a ha
      simp only [uCP]; omega
  | decOld old =>
    simp only [stepCP] at hf ⊢
    intro a ha
    have := pot_dec K s old.ptr a ha hf
    simp only [uCP, uG, cellsU, decObj_cells]; omega
  | dropOld gd =>
    have hcons := stepGD_cons K s gd hk
    have hfr := (stepGD_frame s gd).1
    simp only [stepCP] at hf ⊢
    split
    · rename_i s' evs heq
      simp only [heq] at hcons hfr hf
      intro a ha
      have h1 := (ConsC.of_cons (N := N) (hcons hf) hfr) a ha
      have e : uGD GD.done a = 0 := rfl
      rw [e] at h1
      simp only [uCP, uLP]; omega
    · rename_i s' gd' evs hne heq
      simp only [heq] at hcons hfr hf
      intro a ha
      have h1 := (ConsC.of_cons (N := N) (hcons hf) hfr) a ha
      simp only [uCP]; omega
  | done old => intro a _; simp [stepCP, uCP]

/-- units of an `rcu` in progress -/
def uRP : RP → Nat → Nat
  | .load ld => uLP ld
  | .attempt cur => uG cur
  | .cas cur a cp => fun x => uG cur x + uCP a cp x
  | .intoPrev cur prev gi => fun x => uG cur x + uGI prev.ptr gi x
  | .dropCur res gd => fun x => u res x + uGD gd x
  | .dropCurLoop prev gd => fun x => uG prev x + uGD gd x
  | .done r => u r

def RP.ok (K : Nat) : RP → Prop
  | .load ld => ld.ok K
  | .attempt cur => cur.ok K
  | .cas cur _ cp => cur.ok K ∧ cp.ok K cur.ptr
  | .intoPrev cur prev gi => cur.ok K ∧ gi.ok K prev.ptr
  | .dropCur _ gd => gd.ok K
  | .dropCurLoop prev gd => prev.ok K ∧ gd.ok K
  | .done _ => True

/-- a fresh value starts with exactly one reference (its address was not in use) -/
theorem pot_alloc (K : Nat) (s : Shared) (val a : Nat) (hdead : (s.heap (alloc s val).2.1).cnt = 0) :
    pot K (alloc s val).1 a = pot K s a + u (alloc s val).2.1 a := by
  simp only [alloc] at hdead ⊢
  simp only [pot, u]
  by_cases hp : lowestFree s.heap 4096 = a
  · subst hp; simp [upd, hdead]; omega
  · have : a ≠ lowestFree s.heap 4096 := fun h => hp h.symm
    simp [upd, this, hp]

theorem alloc_cells (s : Shared) (val : Nat) : (alloc s val).1.cells = s.cells := rfl
theorem alloc_fault (s : Shared) (val : Nat) : (alloc s val).1.fault = s.fault := rfl

/-- **Every step of `rcu` conserves**: each attempt's fresh result is either installed by the
    exchange or released by the failed `compare_and_swap`; the guards of the previous attempt and
    of the value replaced are given back or promoted. -/
theorem stepRP_cons (K N : Nat) (cfg : Cfg) (c : Nat) (s : Shared) (l : Locals) (b : Bool) (tries : Nat) (rp : RP)
    (hk : rp.ok K) (hn : l.node.getD 0 < K) (hc : c < N) (hb : Beyond s) (hK : s.nNodes ≤ K)
    (hnh : ∀ cur a old h r t m, rp = .cas cur a (.pay old (.h7 h r t m)) → (s.nodes h.who).control ≠ h.ctl)
    (hroom : ∀ cur, rp = .attempt cur → ∀ v, (s.heap (alloc s v).2.1).cnt = 0)
    (hf : (stepRP cfg c s l b tries rp).1.fault = none) :
    ConsC K N s (stepRP cfg c s l b tries rp).1 (uRP rp) (uRP (stepRP cfg c s l b tries rp).2.2.1) := by
  cases rp with
  | load ld =>
    have hcons := stepLP_cons K cfg c s l b ld hk hn hb
    have hfr := (stepLP_frame cfg c s l b ld).1
    simp only [stepRP] at hf ⊢
    split
    · rename_i s' l' p d evs heq
      simp only [heq] at hcons hfr hf
      intro a ha
      have h1 := (ConsC.of_cons (N := N) (hcons hf) hfr) a ha
      have e : uLP (LP.done p d) a = u p a := rfl
      rw [e] at h1
      simp only [uRP, uG]; omega
    · rename_i s' l' ld' evs hne heq
      simp only [heq] at hcons hfr hf
      intro a ha
      have h1 := (ConsC.of_cons (N := N) (hcons hf) hfr) a ha
      simp only [uRP]; omega
  | attempt cur =>
    intro a ha
    by_cases hd : cur.ptr ≠ 0 ∧ (!(s.heap cur.ptr).live) = true
    · simp only [stepRP, hd, ↓reduceIte] at hf
      have : ((s.setFault (Fault.uaf "deref" cur.ptr)).fault = none) := by
        simpa [alloc, hd.1] using hf
      exact absurd this (setFault_ne_none _ _)
    · have h1 := pot_alloc K s ((if cur.ptr = 0 then 0 else (s.heap cur.ptr).val) + 1) a (hroom cur rfl _)
      have h2 := alloc_cells s ((if cur.ptr = 0 then 0 else (s.heap cur.ptr).val) + 1)
      simp only [stepRP, hd, ↓reduceIte]
      generalize alloc s ((if cur.ptr = 0 then 0 else (s.heap cur.ptr).val) + 1) = r at h1 h2 ⊢
      obtain ⟨s', a', evs⟩ := r
      simp only [uRP, uCP, uLP, cellsU] at h1 h2 ⊢
      rw [h2]; omega
  | cas cur x cp =>
    obtain ⟨hcur, hcp⟩ := hk
    have hcons := stepCP_cons K N cfg c cur.ptr x s l b cp hcp hn hc hb hK
      (fun old h r t m e => hnh cur x old h r t m (by rw [e]))
    simp only [stepRP] at hf ⊢
    split
    · rename_i s' l' prev evs heq
      simp only [heq] at hcons hf
      have hf' : s'.fault = none := by (repeat' split at hf) <;> exact hf
      intro a ha
      have h1 := hcons hf' a ha
      have e : uCP x (CP.done prev) a = uG prev a := rfl
      rw [e] at h1
      have hgd := uGD_ofGuard cur a ha
      split
      · split
        · rename_i hgi
          split
          · rename_i hg; rw [hg] at hgd; simp only [uGD] at hgd; simp only [uRP, uG] at h1 hgd ⊢; omega
          · simp only [uRP, uG] at h1 hgd ⊢; omega
        · rename_i hgi
          have := uGI_ofGuard prev a ha hgi
          simp only [uRP, uG] at h1 this ⊢; omega
      · split
        · rename_i hg; rw [hg] at hgd; simp only [uGD] at hgd; simp only [uRP, uG] at h1 hgd ⊢; omega
        · simp only [uRP, uG] at h1 hgd ⊢; omega
    · rename_i s' l' cp' evs hne heq
      simp only [heq] at hcons hf
      intro a ha
      have h1 := hcons hf a ha
      simp only [uRP]; omega
  | intoPrev cur prev gi =>
    obtain ⟨hcur, hgi⟩ := hk
    have hcons := stepGI_cons K prev.ptr s gi hgi
    have hfr := (stepGI_frame s gi).1
    simp only [stepRP] at hf ⊢
    split
    · rename_i s' evs heq
      simp only [heq] at hcons hfr hf
      have hf' : s'.fault = none := by (repeat' split at hf) <;> exact hf
      intro a ha
      have h1 := (ConsC.of_cons (N := N) (hcons hf') hfr) a ha
      have e : uGI prev.ptr GI.done a = u prev.ptr a := rfl
      rw [e] at h1
      have hgd := uGD_ofGuard cur a ha
      split
      · rename_i hg; rw [hg] at hgd; simp only [uGD] at hgd; simp only [uRP, uG] at h1 hgd ⊢; omega
      · simp only [uRP, uG] at h1 hgd ⊢; omega
    · rename_i s' gi' evs hne heq
      simp only [heq] at hcons hfr hf
      intro a ha
      have h1 := (ConsC.of_cons (N := N) (hcons hf) hfr) a ha
      simp only [uRP]; omega
  | dropCur res gd =>
    have hcons := stepGD_cons K s gd hk
    have hfr := (stepGD_frame s gd).1
    simp only [stepRP] at hf ⊢
    split
    · rename_i s' evs heq
      simp only [heq] at hcons hfr hf
      intro a ha
      have h1 := (ConsC.of_cons (N := N) (hcons hf) hfr) a ha
      have e : uGD GD.done a = 0 := rfl
      rw [e] at h1
      simp only [uRP]; omega
    · rename_i s' gd' evs hne heq
      simp only [heq] at hcons hfr hf
      intro a ha
      have h1 := (ConsC.of_cons (N := N) (hcons hf) hfr) a ha
      simp only [uRP]; omega
  | dropCurLoop prev gd =>
    have hcons := stepGD_cons K s gd hk.2
    have hfr := (stepGD_frame s gd).1
    simp only [stepRP] at hf ⊢
    split
    · rename_i s' evs heq
      simp only [heq] at hcons hfr hf
      intro a ha
      have h1 := (ConsC.of_cons (N := N) (hcons hf) hfr) a ha
      have e : uGD GD.done a = 0 := rfl
      rw [e] at h1
      simp only [uRP]; omega
    · rename_i s' gd' evs hne heq
      simp only [heq] at hcons hfr hf
      intro a ha
      have h1 := (ConsC.of_cons (N := N) (hcons hf) hfr) a ha
      simp only [uRP]; omega
  | done r => intro a _; simp [stepRP, uRP]

end M
