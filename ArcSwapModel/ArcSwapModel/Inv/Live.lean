import ArcSwapModel.Inv.Alive

/-!
# A counted object is alive

The machine keeps a `live` flag beside the count: allocation sets it, the decrement that takes the
count to zero clears it (that step *is* the destruction), and every count operation on an object
whose flag is clear is a use-after-free fault.  `HeapOk`: in every reachable state an object with a
positive count is alive.  With `Inv/Alive.lean`: what a container or a handle denotes has not been
destroyed.
-/

namespace M
open Consts

def HeapOk (h : Nat → Obj) : Prop := ∀ a, 1 ≤ (h a).cnt → (h a).live = true

theorem HeapOk.incObj {s : Shared} (h : HeapOk s.heap) (a : Nat) : HeapOk (incObj s a).1.heap := by
  simp only [M.incObj]
  split
  · rename_i hl
    intro x hx
    by_cases e : x = a
    · subst e; simpa using hl
    · simp only [upd, e, ↓reduceIte] at hx ⊢; exact h x hx
  · simpa using h

theorem HeapOk.decObj {s : Shared} (h : HeapOk s.heap) (a : Nat) : HeapOk (decObj s a).1.heap := by
  simp only [M.decObj]
  split
  · rename_i hl
    split
    · simpa using h
    · split
      · intro x hx
        by_cases e : x = a
        · subst e; simp at hx
        · simp only [upd, e, ↓reduceIte] at hx ⊢; exact h x hx
      · intro x hx
        by_cases e : x = a
        · subst e; simpa using hl
        · simp only [upd, e, ↓reduceIte] at hx ⊢; exact h x hx
  · simpa using h

theorem HeapOk.alloc {s : Shared} (h : HeapOk s.heap) (v : Nat) : HeapOk (alloc s v).1.heap := by
  simp only [M.alloc]
  intro x hx
  by_cases e : x = lowestFree s.heap 4096
  · subst e; simp
  · simp only [upd, e, ↓reduceIte] at hx ⊢; exact h x hx

/-- close a goal `HeapOk (…).heap` from `h : HeapOk s.heap` when the step is one primitive -/
macro "heap_ok" h:ident : tactic =>
  `(tactic| (first
      | exact $h
      | exact HeapOk.incObj $h _
      | exact HeapOk.decObj $h _
      | exact HeapOk.alloc $h _
      | (simp only [setFault_heap, setNode_heap, Shared.writeCell, dbgInUse]; exact $h)
      | (unfold dbgInUse; split <;> ((try simp only [setFault_heap, setNode_heap]); exact $h))
      | (split <;> ((try simp only [setFault_heap, setNode_heap]); exact $h))))

theorem stepGD_heapOk (s : Shared) (gd : GD) (h : HeapOk s.heap) : HeapOk (stepGD s gd).1.heap := by
  cases gd <;> simp only [stepGD] <;> (repeat' split) <;> heap_ok h

theorem stepGI_heapOk (s : Shared) (gi : GI) (h : HeapOk s.heap) : HeapOk (stepGI s gi).1.heap := by
  cases gi <;> simp only [stepGI] <;> (repeat' split) <;> heap_ok h

theorem stepLP_heapOk (cfg : Cfg) (c : Nat) (s : Shared) (l : Locals) (b : Bool) (lp : LP) (h : HeapOk s.heap) :
    HeapOk (stepLP cfg c s l b lp).1.heap := by
  cases lp with
  | get ng =>
    have h1 := (stepNG_frame s b ng).2.2
    simp only [stepLP]; split
    · rename_i s' n evs heq; simp only [heq] at h1; (dsimp only; rw [h1]; exact h)
    · rename_i s' ng' evs hne heq; simp only [heq] at h1; (dsimp only; rw [h1]; exact h)
  | reget ng =>
    have h1 := (stepNG_frame s b ng).2.2
    simp only [stepLP]; split
    · rename_i s' n evs heq; simp only [heq] at h1; (dsimp only; rw [h1]; exact h)
    · rename_i s' ng' evs hne heq; simp only [heq] at h1; (dsimp only; rw [h1]; exact h)
  | cool cd =>
    have h1 := (stepCD_frame s cd).2.2
    simp only [stepLP]; split
    · rename_i s' evs heq; simp only [heq] at h1; (dsimp only; rw [h1]; exact h)
    · rename_i s' cd' evs hne heq; simp only [heq] at h1; (dsimp only; rw [h1]; exact h)
  | _ => simp only [stepLP] <;> (repeat' split) <;> heap_ok h

theorem stepPP_heapOk (cfg : Cfg) (p c : Nat) (s : Shared) (l : Locals) (b : Bool) (pp : PP) (h : HeapOk s.heap) :
    HeapOk (stepPP cfg p c s l b pp).1.heap := by
  cases pp with
  | get ng =>
    have h1 := (stepNG_frame s b ng).2.2
    simp only [stepPP]; split
    · rename_i s' n evs heq; simp only [heq] at h1; (dsimp only; rw [h1]; exact h)
    · rename_i s' ng' evs hne heq; simp only [heq] at h1; (dsimp only; rw [h1]; exact h)
  | hload x ld =>
    have h1 := stepLP_heapOk cfg c s l b ld h
    simp only [stepPP]; split
    · rename_i s' l' r d evs heq; simp only [heq] at h1; exact h1
    · rename_i s' l' ld' evs hne heq; simp only [heq] at h1; exact h1
  | hinto x r gi =>
    have h1 := stepGI_heapOk s gi h
    simp only [stepPP]; split
    · rename_i s' evs heq; simp only [heq] at h1; exact h1
    · rename_i s' gi' evs hne heq; simp only [heq] at h1; exact h1
  | h2 x =>
    simp only [stepPP]
    by_cases ho : x.own = x.who
    · simp only [ho, ↓reduceIte]; (repeat' split) <;> heap_ok h
    · simp only [ho, ↓reduceIte]; (repeat' split) <;> heap_ok h
  | _ => simp only [stepPP] <;> (repeat' split) <;> heap_ok h

theorem stepCP_heapOk (cfg : Cfg) (c cur new : Nat) (s : Shared) (l : Locals) (b : Bool) (cp : CP) (h : HeapOk s.heap) :
    HeapOk (stepCP cfg c cur new s l b cp).1.heap := by
  cases cp with
  | load ld =>
    have h1 := stepLP_heapOk cfg c s l b ld h
    simp only [stepCP]; split
    · rename_i s' l' r d evs heq; simp only [heq] at h1; exact h1
    · rename_i s' l' ld' evs hne heq; simp only [heq] at h1; exact h1
  | pay old pp =>
    have h1 := stepPP_heapOk cfg old.ptr c s l b pp h
    simp only [stepCP]; split
    · rename_i s' l' evs heq; simp only [heq] at h1; exact h1
    · rename_i s' l' pp' evs hne heq; simp only [heq] at h1; exact h1
  | dropOld gd =>
    have h1 := stepGD_heapOk s gd h
    simp only [stepCP]; split
    · rename_i s' evs heq; simp only [heq] at h1; exact h1
    · rename_i s' gd' evs hne heq; simp only [heq] at h1; exact h1
  | _ => simp only [stepCP] <;> (repeat' split) <;> heap_ok h

theorem stepRP_heapOk (cfg : Cfg) (c : Nat) (s : Shared) (l : Locals) (b : Bool) (tries : Nat) (rp : RP) (h : HeapOk s.heap) :
    HeapOk (stepRP cfg c s l b tries rp).1.heap := by
  cases rp with
  | load ld =>
    have h1 := stepLP_heapOk cfg c s l b ld h
    simp only [stepRP]; split
    · rename_i s' l' r d evs heq; simp only [heq] at h1; exact h1
    · rename_i s' l' ld' evs hne heq; simp only [heq] at h1; exact h1
  | attempt cur =>
    simp only [stepRP]
    split
    · exact HeapOk.alloc (s := s.setFault _) (by simpa using h) _
    · exact HeapOk.alloc h _
  | cas cur x cp =>
    have h1 := stepCP_heapOk cfg c cur.ptr x s l b cp h
    simp only [stepRP]; split
    · rename_i s' l' prev evs heq; simp only [heq] at h1
      (repeat' split) <;> exact h1
    · rename_i s' l' cp' evs hne heq; simp only [heq] at h1; exact h1
  | intoPrev cur prev gi =>
    have h1 := stepGI_heapOk s gi h
    simp only [stepRP]; split
    · rename_i s' evs heq; simp only [heq] at h1; (repeat' split) <;> exact h1
    · rename_i s' gi' evs hne heq; simp only [heq] at h1; exact h1
  | dropCur res gd =>
    have h1 := stepGD_heapOk s gd h
    simp only [stepRP]; split
    · rename_i s' evs heq; simp only [heq] at h1; exact h1
    · rename_i s' gd' evs hne heq; simp only [heq] at h1; exact h1
  | dropCurLoop prev gd =>
    have h1 := stepGD_heapOk s gd h
    simp only [stepRP]; split
    · rename_i s' evs heq; simp only [heq] at h1; exact h1
    · rename_i s' gd' evs hne heq; simp only [heq] at h1; exact h1
  | done r => simp only [stepRP]; exact h

theorem beginOp_heapOk (st : State) (t : Nat) (o : Op) (h : HeapOk st.sh.heap) : HeapOk (beginOp st t o).1.sh.heap := by
  cases o <;> simp only [beginOp] <;> (repeat' split) <;>
    first
      | exact h
      | exact HeapOk.alloc h _
      | (dsimp only; (try split) <;> first | exact h | (simp only [setFault_heap]; exact h))

theorem microStep_heapOk (st : State) (t : Nat) (b : Bool) (h : HeapOk st.sh.heap) :
    HeapOk (microStep st t b).1.sh.heap := by
  cases hop : (st.th t).op with
  | finished => simp only [microStep, hop]; exact h
  | idle =>
    simp only [microStep, hop]
    split
    · exact h
    · exact beginOp_heapOk _ t _ h
  | exitCool cd =>
    have h1 := (stepCD_frame st.sh cd).2.2
    simp only [microStep, hop]; split
    · rename_i s' evs heq; simp only [heq] at h1; (dsimp only; rw [h1]; exact h)
    · rename_i s' cd' evs hne heq; simp only [heq] at h1; (dsimp only; rw [h1]; exact h)
  | load c g ld =>
    have h1 := stepLP_heapOk st.cfg c st.sh (st.th t).loc b ld h
    simp only [microStep, hop]; split
    · rename_i s' l' p d evs heq; simp only [heq] at h1; exact h1
    · rename_i s' l' ld' evs hne heq; simp only [heq] at h1; exact h1
  | loadFull c x ld =>
    have h1 := stepLP_heapOk st.cfg c st.sh (st.th t).loc b ld h
    simp only [microStep, hop]; split
    · rename_i s' l' p d evs heq; simp only [heq] at h1; split <;> exact h1
    · rename_i s' l' ld' evs hne heq; simp only [heq] at h1; exact h1
  | loadFullInto c x r gi =>
    have h1 := stepGI_heapOk st.sh gi h
    simp only [microStep, hop]; split
    · rename_i s' evs heq; simp only [heq] at h1; exact h1
    · rename_i s' gi' evs hne heq; simp only [heq] at h1; exact h1
  | cloneh x y a0 => simp only [microStep, hop]; exact HeapOk.incObj h _
  | droph a0 => simp only [microStep, hop]; exact HeapOk.decObj h _
  | dropg gd =>
    have h1 := stepGD_heapOk st.sh gd h
    simp only [microStep, hop]; split
    · rename_i s' evs heq; simp only [heq] at h1; exact h1
    · rename_i s' gd' evs hne heq; simp only [heq] at h1; exact h1
  | ginto x p gi =>
    have h1 := stepGI_heapOk st.sh gi h
    simp only [microStep, hop]; split
    · rename_i s' evs heq; simp only [heq] at h1; exact h1
    · rename_i s' gi' evs hne heq; simp only [heq] at h1; exact h1
  | swapSw c a0 out isStore =>
    simp only [microStep, hop]; split
    · exact h
    · exact h
  | swapPay c out old isStore pp =>
    have h1 := stepPP_heapOk st.cfg old c st.sh (st.th t).loc b pp h
    simp only [microStep, hop]; split
    · rename_i s' l' evs heq; simp only [heq] at h1; (repeat' split) <;> exact h1
    · rename_i s' l' pp' evs hne heq; simp only [heq] at h1; exact h1
  | swapDrop c old => simp only [microStep, hop]; exact HeapOk.decObj h _
  | cas c cur keep curPtr new g cp =>
    have h1 := stepCP_heapOk st.cfg c curPtr new st.sh (st.th t).loc b cp h
    simp only [microStep, hop]; split
    · rename_i s' l' old evs heq; simp only [heq] at h1
      cases cur <;> cases keep <;> exact h1
    · rename_i s' l' cp' evs hne heq; simp only [heq] at h1; exact h1
  | rcu c out tries rp =>
    have h1 := stepRP_heapOk st.cfg c st.sh (st.th t).loc b tries rp h
    simp only [microStep, hop]; split
    · rename_i s' l' r tries' evs heq; simp only [heq] at h1; exact h1
    · rename_i s' l' rp' tries' evs hne heq; simp only [heq] at h1; exact h1
  | cinto c x p pp =>
    have h1 := stepPP_heapOk st.cfg p c st.sh (st.th t).loc b pp h
    simp only [microStep, hop]; split
    · rename_i s' l' evs heq; simp only [heq] at h1; exact h1
    · rename_i s' l' pp' evs hne heq; simp only [heq] at h1; exact h1
  | dropc c p pp =>
    have h1 := stepPP_heapOk st.cfg p c st.sh (st.th t).loc b pp h
    simp only [microStep, hop]; split
    · rename_i s' l' evs heq; simp only [heq] at h1; (repeat' split) <;> exact h1
    · rename_i s' l' pp' evs hne heq; simp only [heq] at h1; exact h1
  | dropcDec c p => simp only [microStep, hop]; exact HeapOk.decObj h _

/-- **in every reachable state an object with a positive count is alive** -/
theorem HeapOk.reachable {st : State} (h : Reachable st) : HeapOk st.sh.heap := by
  obtain ⟨cfg, progs, sched, rfl⟩ := h
  have h0 : HeapOk (State.initial cfg progs).sh.heap := by intro a ha; simp [State.initial] at ha
  generalize State.initial cfg progs = st at h0
  induction sched generalizing st with
  | nil => exact h0
  | cons x rest ih => obtain ⟨t, b⟩ := x; exact ih _ (microStep_heapOk st t b h0)

/-- what a container holds has not been destroyed -/
theorem stored_value_live (K N T : Nat) (hK : 0 < K) (cfg : Cfg) (progs : Nat → List (String × Op))
    (sched : List (Nat × Bool)) (he : EnvRun0 K N T (State.initial cfg progs) sched)
    (hf : (run (State.initial cfg progs) sched).sh.fault = none) (a : Nat) (ha : a ≠ 0)
    (c : Nat) (hc : c < N) (hcell : (run (State.initial cfg progs) sched).sh.cells c = some a) :
    ((run (State.initial cfg progs) sched).sh.heap a).live = true :=
  HeapOk.reachable ⟨cfg, progs, sched, rfl⟩ a (stored_value_counted K N T hK cfg progs sched he hf a ha c hc hcell)

/-- what a handle denotes has not been destroyed -/
theorem handle_value_live (K N T : Nat) (hK : 0 < K) (cfg : Cfg) (progs : Nat → List (String × Op))
    (sched : List (Nat × Bool)) (he : EnvRun0 K N T (State.initial cfg progs) sched)
    (hf : (run (State.initial cfg progs) sched).sh.fault = none) (a : Nat) (ha : a ≠ 0)
    (h : Nat) (hh : h < N) (hreg : (run (State.initial cfg progs) sched).sh.hreg h = some a) :
    ((run (State.initial cfg progs) sched).sh.heap a).live = true :=
  HeapOk.reachable ⟨cfg, progs, sched, rfl⟩ a (handle_value_counted K N T hK cfg progs sched he hf a ha h hh hreg)

end M
