import ArcSwapModel.Inv.Touch4

/-!
# The object at an address keeps its identity and content until the address is allocated again

Count operations change `cnt` and `live` only; nothing but the allocator writes `id` and `val`.
-/

namespace M
open Consts

/-- same identity and content -/
def SameObj (o o' : Obj) : Prop := o'.id = o.id ∧ o'.val = o.val

theorem SameObj.refl (o : Obj) : SameObj o o := ⟨rfl, rfl⟩

theorem incObj_same (s : Shared) (x a : Nat) : SameObj (s.heap a) ((incObj s x).1.heap a) := by
  simp only [incObj]; split
  · by_cases e : a = x
    · subst e; simp [SameObj, upd]
    · simp [SameObj, upd, e]
  · simp [SameObj]

theorem decObj_same (s : Shared) (x a : Nat) : SameObj (s.heap a) ((decObj s x).1.heap a) := by
  simp only [decObj]; (repeat' split) <;>
    first
      | (simp [SameObj]; done)
      | (by_cases e : a = x
         · subst e; simp [SameObj, upd]
         · simp [SameObj, upd, e])

theorem SameObj.of_eq {h h' : Nat → Obj} (e : h' = h) (a : Nat) : SameObj (h a) (h' a) := by rw [e]; exact ⟨rfl, rfl⟩

theorem stepLP_same (cfg : Cfg) (c : Nat) (s : Shared) (l : Locals) (b : Bool) (lp : LP) (a : Nat) :
    SameObj (s.heap a) ((stepLP cfg c s l b lp).1.heap a) := by
  cases ht : lp.touch with
  | none => exact SameObj.of_eq (stepLP_heap cfg c s l b lp ht) a
  | some x =>
    cases lp <;> first
      | (cases ht; done)
      | (simp only [stepLP]; first | exact decObj_same s _ a | exact incObj_same s _ a)

theorem stepGD_same (s : Shared) (gd : GD) (a : Nat) : SameObj (s.heap a) ((stepGD s gd).1.heap a) := by
  cases ht : gd.touch with
  | none => exact SameObj.of_eq (stepGD_heap s gd ht) a
  | some x => cases gd <;> first | (cases ht; done) | (simp only [stepGD]; exact decObj_same s _ a)

theorem stepGI_same (s : Shared) (gi : GI) (a : Nat) : SameObj (s.heap a) ((stepGI s gi).1.heap a) := by
  cases ht : gi.touch with
  | none => exact SameObj.of_eq (stepGI_heap s gi ht) a
  | some x =>
    cases gi <;> first
      | (cases ht; done)
      | (simp only [stepGI]; first | exact decObj_same s _ a | exact incObj_same s _ a)

theorem stepPP_same (cfg : Cfg) (p c : Nat) (s : Shared) (l : Locals) (b : Bool) (pp : PP) (a : Nat) :
    SameObj (s.heap a) ((stepPP cfg p c s l b pp).1.heap a) := by
  cases pp with
  | hload x ld =>
    have h1 := stepLP_same cfg c s l b ld a
    simp only [stepPP]; split
    · rename_i s' l' r d evs heq; rw [heq] at h1; exact h1
    · rename_i s' l' ld' evs hne heq; rw [heq] at h1; exact h1
  | hinto x r gi =>
    have h1 := stepGI_same s gi a
    simp only [stepPP]; split
    · rename_i s' evs heq; rw [heq] at h1; exact h1
    · rename_i s' gi' evs hne heq; rw [heq] at h1; exact h1
  | inc => simp only [stepPP]; exact incObj_same s _ a
  | slotInc n j => simp only [stepPP]; exact incObj_same s _ a
  | dec => simp only [stepPP]; exact decObj_same s _ a
  | hdrop x r => simp only [stepPP]; exact decObj_same s _ a
  | get ng => exact SameObj.of_eq (stepPP_heap cfg p c s l b _ rfl) a
  | start => exact SameObj.of_eq (stepPP_heap cfg p c s l b _ rfl) a
  | trav => exact SameObj.of_eq (stepPP_heap cfg p c s l b _ rfl) a
  | res n => exact SameObj.of_eq (stepPP_heap cfg p c s l b _ rfl) a
  | hDbg0 x => exact SameObj.of_eq (stepPP_heap cfg p c s l b _ rfl) a
  | hDbg1 x => exact SameObj.of_eq (stepPP_heap cfg p c s l b _ rfl) a
  | h1 x => exact SameObj.of_eq (stepPP_heap cfg p c s l b _ rfl) a
  | h2 x => exact SameObj.of_eq (stepPP_heap cfg p c s l b _ rfl) a
  | h3 x => exact SameObj.of_eq (stepPP_heap cfg p c s l b _ rfl) a
  | hres x => exact SameObj.of_eq (stepPP_heap cfg p c s l b _ rfl) a
  | h4 x r => exact SameObj.of_eq (stepPP_heap cfg p c s l b _ rfl) a
  | h5 x r y => exact SameObj.of_eq (stepPP_heap cfg p c s l b _ rfl) a
  | h6 x r y z => exact SameObj.of_eq (stepPP_heap cfg p c s l b _ rfl) a
  | h7 x r y z => exact SameObj.of_eq (stepPP_heap cfg p c s l b _ rfl) a
  | h8 x y => exact SameObj.of_eq (stepPP_heap cfg p c s l b _ rfl) a
  | hend x => exact SameObj.of_eq (stepPP_heap cfg p c s l b _ rfl) a
  | hrel x => exact SameObj.of_eq (stepPP_heap cfg p c s l b _ rfl) a
  | slot n j => exact SameObj.of_eq (stepPP_heap cfg p c s l b _ rfl) a
  | rel n => exact SameObj.of_eq (stepPP_heap cfg p c s l b _ rfl) a
  | fin => exact SameObj.of_eq (stepPP_heap cfg p c s l b _ rfl) a
  | done => exact SameObj.of_eq (stepPP_heap cfg p c s l b _ rfl) a

theorem stepCP_same (cfg : Cfg) (c cur new : Nat) (s : Shared) (l : Locals) (b : Bool) (cp : CP) (a : Nat) :
    SameObj (s.heap a) ((stepCP cfg c cur new s l b cp).1.heap a) := by
  cases cp with
  | load ld =>
    have h1 := stepLP_same cfg c s l b ld a
    simp only [stepCP]; split
    · rename_i s' l' r d evs heq; rw [heq] at h1; exact h1
    · rename_i s' l' ld' evs hne heq; rw [heq] at h1; exact h1
  | pay old pp =>
    have h1 := stepPP_same cfg old.ptr c s l b pp a
    simp only [stepCP]; split
    · rename_i s' l' evs heq; rw [heq] at h1; exact h1
    · rename_i s' l' pp' evs hne heq; rw [heq] at h1; exact h1
  | dropOld gd =>
    have h1 := stepGD_same s gd a
    simp only [stepCP]; split
    · rename_i s' evs heq; rw [heq] at h1; exact h1
    · rename_i s' gd' evs hne heq; rw [heq] at h1; exact h1
  | dropNew old => simp only [stepCP]; exact decObj_same s _ a
  | decOld old => simp only [stepCP]; exact decObj_same s _ a
  | cx old => exact SameObj.of_eq (stepCP_heap cfg c cur new s l b _ rfl) a
  | done old => exact SameObj.of_eq (stepCP_heap cfg c cur new s l b _ rfl) a


theorem stepRP_same (cfg : Cfg) (c : Nat) (s : Shared) (l : Locals) (b : Bool) (tries : Nat) (rp : RP) (a : Nat) :
    SameObj (s.heap a) ((stepRP cfg c s l b tries rp).1.heap a) ∨ ∃ v, a = (alloc s v).2.1 := by
  cases rp with
  | load ld =>
    left
    have h1 := stepLP_same cfg c s l b ld a
    simp only [stepRP]; split
    · rename_i s' l' r d evs heq; rw [heq] at h1; exact h1
    · rename_i s' l' ld' evs hne heq; rw [heq] at h1; exact h1
  | cas cur x cp =>
    left
    have h1 := stepCP_same cfg c cur.ptr x s l b cp a
    simp only [stepRP]; split
    · rename_i s' l' prev evs heq; rw [heq] at h1; (repeat' split) <;> exact h1
    · rename_i s' l' cp' evs hne heq; rw [heq] at h1; exact h1
  | intoPrev cur prev gi =>
    left
    have h1 := stepGI_same s gi a
    simp only [stepRP]; split
    · rename_i s' evs heq; rw [heq] at h1; (repeat' split) <;> exact h1
    · rename_i s' gi' evs hne heq; rw [heq] at h1; exact h1
  | dropCur res gd =>
    left
    have h1 := stepGD_same s gd a
    simp only [stepRP]; split
    · rename_i s' evs heq; rw [heq] at h1; exact h1
    · rename_i s' gd' evs hne heq; rw [heq] at h1; exact h1
  | dropCurLoop prev gd =>
    left
    have h1 := stepGD_same s gd a
    simp only [stepRP]; split
    · rename_i s' evs heq; rw [heq] at h1; exact h1
    · rename_i s' gd' evs hne heq; rw [heq] at h1; exact h1
  | attempt cur =>
    rcases stepRP_heap cfg c s l b tries (.attempt cur) rfl a with h1 | h1
    · left; rw [h1]; exact ⟨rfl, rfl⟩
    · exact Or.inr h1
  | done r => left; simp only [stepRP]; exact ⟨rfl, rfl⟩

/-- **an object keeps its identity and content** through every step of every thread, unless its
    address is the one the allocator hands out in that step -/
theorem microStep_same (st : State) (t : Nat) (b : Bool) (a : Nat) :
    SameObj (st.sh.heap a) ((microStep st t b).1.sh.heap a) ∨ ∃ v, a = (alloc st.sh v).2.1 := by
  cases ht : (st.th t).op.touch with
  | none =>
    rcases microStep_heap_of_no_touch st t b ht a with h1 | h1
    · left; rw [h1]; exact ⟨rfl, rfl⟩
    · exact Or.inr h1
  | some x =>
    left
    cases hop : (st.th t).op with
    | load c g ld =>
      have h1 := stepLP_same st.cfg c st.sh (st.th t).loc b ld a
      simp only [microStep, hop]; split
      · rename_i s' l' p d evs heq; rw [heq] at h1; exact h1
      · rename_i s' l' ld' evs hne heq; rw [heq] at h1; exact h1
    | loadFull c y ld =>
      have h1 := stepLP_same st.cfg c st.sh (st.th t).loc b ld a
      simp only [microStep, hop]; split
      · rename_i s' l' p d evs heq; rw [heq] at h1; split <;> exact h1
      · rename_i s' l' ld' evs hne heq; rw [heq] at h1; exact h1
    | loadFullInto c y r gi =>
      have h1 := stepGI_same st.sh gi a
      simp only [microStep, hop]; split
      · rename_i s' evs heq; rw [heq] at h1; exact h1
      · rename_i s' gi' evs hne heq; rw [heq] at h1; exact h1
    | ginto y p gi =>
      have h1 := stepGI_same st.sh gi a
      simp only [microStep, hop]; split
      · rename_i s' evs heq; rw [heq] at h1; exact h1
      · rename_i s' gi' evs hne heq; rw [heq] at h1; exact h1
    | dropg gd =>
      have h1 := stepGD_same st.sh gd a
      simp only [microStep, hop]; split
      · rename_i s' evs heq; rw [heq] at h1; exact h1
      · rename_i s' gd' evs hne heq; rw [heq] at h1; exact h1
    | cloneh y z a0 => simp only [microStep, hop]; exact incObj_same st.sh _ a
    | droph a0 => simp only [microStep, hop]; exact decObj_same st.sh _ a
    | swapDrop c a0 => simp only [microStep, hop]; exact decObj_same st.sh _ a
    | dropcDec c a0 => simp only [microStep, hop]; exact decObj_same st.sh _ a
    | swapPay c out old isStore pp =>
      have h1 := stepPP_same st.cfg old c st.sh (st.th t).loc b pp a
      simp only [microStep, hop]; split
      · rename_i s' l' evs heq; rw [heq] at h1; (repeat' split) <;> exact h1
      · rename_i s' l' pp' evs hne heq; rw [heq] at h1; exact h1
    | cinto c y p pp =>
      have h1 := stepPP_same st.cfg p c st.sh (st.th t).loc b pp a
      simp only [microStep, hop]; split
      · rename_i s' l' evs heq; rw [heq] at h1; exact h1
      · rename_i s' l' pp' evs hne heq; rw [heq] at h1; exact h1
    | dropc c p pp =>
      have h1 := stepPP_same st.cfg p c st.sh (st.th t).loc b pp a
      simp only [microStep, hop]; split
      · rename_i s' l' evs heq; rw [heq] at h1; split <;> exact h1
      · rename_i s' l' pp' evs hne heq; rw [heq] at h1; exact h1
    | cas c cur keep curPtr new g cp =>
      have h1 := stepCP_same st.cfg c curPtr new st.sh (st.th t).loc b cp a
      simp only [microStep, hop]; split
      · rename_i s' l' old evs heq; rw [heq] at h1; cases cur <;> cases keep <;> exact h1
      · rename_i s' l' cp' evs hne heq; rw [heq] at h1; exact h1
    | rcu c out tries rp =>
      rw [hop] at ht
      -- a touching step of `rcu` is not the allocation
      have hne : ∀ cur, rp ≠ .attempt cur := fun cur e => by subst e; cases ht
      have h1 := stepRP_same st.cfg c st.sh (st.th t).loc b tries rp a
      have h2 : SameObj (st.sh.heap a) ((stepRP st.cfg c st.sh (st.th t).loc b tries rp).1.heap a) := by
        cases rp with
        | attempt cur => exact absurd rfl (hne cur)
        | load ld =>
          have h1 := stepLP_same st.cfg c st.sh (st.th t).loc b ld a
          simp only [stepRP]; split
          · rename_i s' l' r d evs heq; rw [heq] at h1; exact h1
          · rename_i s' l' ld' evs hne heq; rw [heq] at h1; exact h1
        | cas cur y cp =>
          have h1 := stepCP_same st.cfg c cur.ptr y st.sh (st.th t).loc b cp a
          simp only [stepRP]; split
          · rename_i s' l' prev evs heq; rw [heq] at h1; (repeat' split) <;> exact h1
          · rename_i s' l' cp' evs hne heq; rw [heq] at h1; exact h1
        | intoPrev cur prev gi =>
          have h1 := stepGI_same st.sh gi a
          simp only [stepRP]; split
          · rename_i s' evs heq; rw [heq] at h1; (repeat' split) <;> exact h1
          · rename_i s' gi' evs hne heq; rw [heq] at h1; exact h1
        | dropCur res gd =>
          have h1 := stepGD_same st.sh gd a
          simp only [stepRP]; split
          · rename_i s' evs heq; rw [heq] at h1; exact h1
          · rename_i s' gd' evs hne heq; rw [heq] at h1; exact h1
        | dropCurLoop prev gd =>
          have h1 := stepGD_same st.sh gd a
          simp only [stepRP]; split
          · rename_i s' evs heq; rw [heq] at h1; exact h1
          · rename_i s' gd' evs hne heq; rw [heq] at h1; exact h1
        | done r => simp only [stepRP]; exact ⟨rfl, rfl⟩
      simp only [microStep, hop]; split
      · rename_i s' l' r tries' evs heq; rw [heq] at h2; exact h2
      · rename_i s' l' rp' tries' evs hne heq; rw [heq] at h2; exact h2
    | _ => rw [hop] at ht; cases ht

/-- **a counted object keeps its identity and content**: the allocator hands out only addresses
    whose count is zero (the pool is not exhausted), so a step leaves the `id` and the content of
    every object with a positive count as they were -/
theorem counted_keeps_identity (st : State) (t : Nat) (b : Bool) (a : Nat)
    (hroom : ∀ v, (st.sh.heap (alloc st.sh v).2.1).cnt = 0) (hc : 1 ≤ (st.sh.heap a).cnt) :
    SameObj (st.sh.heap a) ((microStep st t b).1.sh.heap a) := by
  rcases microStep_same st t b a with h | ⟨v, h⟩
  · exact h
  · have := hroom v; rw [← h] at this; omega

end M
