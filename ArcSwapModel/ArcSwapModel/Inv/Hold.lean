import ArcSwapModel.Inv.Ctl

/-!
# Every occupied debt slot has a holder

A fast slot that names a value is occupied on behalf of somebody: a guard (in a register or inside
an operation in flight) whose debt is that very slot, or a load that has published its debt there
and is about to confirm it.  `HoldInv`, for every reachable state.  Consequences: when no guard
with a debt exists and no operation is in flight, every fast slot is empty ("no borrow slot stays
occupied after its guard is gone", C02); with the ledger, the strong counts are then exactly the
number of owners.
-/

namespace M
open Consts

def Guard.holds (n i a : Nat) (g : Guard) : Prop := g.ptr = a ∧ g.debt = some (n, i)

def LP.holds (n i a : Nat) (l : Locals) : LP → Prop
  | .a3 p idx | .a4 p idx => l.node = some n ∧ idx = i ∧ p = a
  | .done p d => p = a ∧ d = some (n, i)
  | _ => False

def GD.holds (n i a : Nat) : GD → Prop
  | .pay p n' i' => p = a ∧ n' = n ∧ i' = i
  | _ => False

def GI.holds (n i a : Nat) : GI → Prop
  | .inc p n' i' | .pay p n' i' => p = a ∧ n' = n ∧ i' = i
  | _ => False

def PP.holds (n i a : Nat) (l : Locals) : PP → Prop
  | .hload _ ld => ld.holds n i a l
  | .hinto _ _ gi => gi.holds n i a
  | _ => False

def CP.holds (n i a : Nat) (l : Locals) : CP → Prop
  | .load ld => ld.holds n i a l
  | .dropNew old | .cx old | .decOld old | .done old => old.holds n i a
  | .pay old pp => old.holds n i a ∨ pp.holds n i a l
  | .dropOld gd => gd.holds n i a

def RP.holds (n i a : Nat) (l : Locals) : RP → Prop
  | .load ld => ld.holds n i a l
  | .attempt cur => cur.holds n i a
  | .cas cur _ cp => cur.holds n i a ∨ cp.holds n i a l
  | .intoPrev cur _ gi => cur.holds n i a ∨ gi.holds n i a
  | .dropCur _ gd => gd.holds n i a
  | .dropCurLoop prev gd => prev.holds n i a ∨ gd.holds n i a
  | .done _ => False

def OpSt.holds (n i a : Nat) (l : Locals) : OpSt → Prop
  | .load _ _ ld | .loadFull _ _ ld => ld.holds n i a l
  | .loadFullInto _ _ _ gi | .ginto _ _ gi => gi.holds n i a
  | .dropg gd => gd.holds n i a
  | .swapPay _ _ _ _ pp | .cinto _ _ _ pp | .dropc _ _ pp => pp.holds n i a l
  | .cas _ _ keep _ _ _ cp => cp.holds n i a l ∨ (∃ cg, keep = some cg ∧ cg.holds n i a)
  | .rcu _ _ _ rp => rp.holds n i a l
  | _ => False

/-- how a step treats the fast slots, seen from the stepping thread: a slot that names `a`
    afterwards either did so before, and then a holding by this thread is kept — or is now held
    by this thread -/
def SlotKeep (s s' : Shared) (before after : Nat → Nat → Nat → Prop) : Prop :=
  ∀ n i a, (s'.nodes n).fast i = .ptr a →
    ((s.nodes n).fast i = .ptr a ∧ (before n i a → after n i a)) ∨ after n i a

theorem SlotKeep.same {s s' : Shared} {P Q : Nat → Nat → Nat → Prop}
    (hs : ∀ n, (s'.nodes n).fast = (s.nodes n).fast) (hpq : ∀ n i a, P n i a → Q n i a) : SlotKeep s s' P Q := by
  intro n i a h; rw [hs n] at h; exact Or.inl ⟨h, hpq n i a⟩

theorem fast_setNode_frame (s : Shared) (n : Nat) (f : Node → Node) (hf : ∀ nd, (f nd).fast = nd.fast) (m : Nat) :
    ((s.setNode n f).nodes m).fast = (s.nodes m).fast := setNode_fast s n m f hf

/-- `fast` of every node is what it was -/
macro "fast_frame" : tactic =>
  `(tactic| (first
      | rfl
      | (simp only [Shared.setNode, upd, setFault_nodes]; split <;> simp_all)
      | simp))

theorem stepGD_keep_slots (s : Shared) (gd : GD) :
    SlotKeep s (stepGD s gd).1 (fun n i a => gd.holds n i a) (fun n i a => (stepGD s gd).2.1.holds n i a) := by
  cases gd with
  | pay p n0 i0 =>
    intro n i a h
    simp only [stepGD] at h ⊢
    split at h
    · -- success: the slot was cleared
      by_cases hn : n = n0
      · subst hn
        by_cases hi : i = i0
        · subst hi; simp [upd] at h
        · refine Or.inl ⟨by simpa [upd, hi] using h, fun hb => ?_⟩
          simp only [GD.holds] at hb; exact absurd hb.2.2.symm hi
      · refine Or.inl ⟨by simpa [hn] using h, fun hb => ?_⟩
        simp only [GD.holds] at hb; exact absurd hb.2.1.symm hn
    · -- failure: the slot does not name `p`
      rename_i hc
      refine Or.inl ⟨h, fun hb => ?_⟩
      simp only [GD.holds] at hb
      obtain ⟨rfl, rfl, rfl⟩ := hb
      exact absurd h hc
  | dec p =>
    exact SlotKeep.same (fun n => by simp [stepGD]) (fun n i a h => by simp [GD.holds] at h)
  | done =>
    exact SlotKeep.same (fun n => by simp [stepGD]) (fun n i a h => by simp [GD.holds] at h)

theorem stepGI_keep_slots (s : Shared) (gi : GI) :
    SlotKeep s (stepGI s gi).1 (fun n i a => gi.holds n i a) (fun n i a => (stepGI s gi).2.1.holds n i a) := by
  cases gi with
  | inc p n0 i0 =>
    exact SlotKeep.same (fun n => by simp [stepGI]) (fun n i a h => by simpa [stepGI, GI.holds] using h)
  | pay p n0 i0 =>
    intro n i a h
    simp only [stepGI] at h ⊢
    split at h
    · by_cases hn : n = n0
      · subst hn
        by_cases hi : i = i0
        · subst hi; simp [upd] at h
        · refine Or.inl ⟨by simpa [upd, hi] using h, fun hb => ?_⟩
          simp only [GI.holds] at hb; exact absurd hb.2.2.symm hi
      · refine Or.inl ⟨by simpa [hn] using h, fun hb => ?_⟩
        simp only [GI.holds] at hb; exact absurd hb.2.1.symm hn
    · rename_i hc
      refine Or.inl ⟨h, fun hb => ?_⟩
      simp only [GI.holds] at hb
      obtain ⟨rfl, rfl, rfl⟩ := hb
      exact absurd h hc
  | dec p =>
    exact SlotKeep.same (fun n => by simp [stepGI]) (fun n i a h => by simp [GI.holds] at h)
  | done =>
    exact SlotKeep.same (fun n => by simp [stepGI]) (fun n i a h => by simp [GI.holds] at h)

theorem GD.ofGuard_holds (g : Guard) (n i a : Nat) (h : g.holds n i a) : (GD.ofGuard g).holds n i a := by
  obtain ⟨h1, h2⟩ := h
  simp only [GD.ofGuard, h2, GD.holds, h1, and_self]

theorem GI.ofGuard_holds (g : Guard) (n i a : Nat) (h : g.holds n i a) : (GI.ofGuard g).holds n i a := by
  obtain ⟨h1, h2⟩ := h
  simp only [GI.ofGuard, h2]
  split <;> simp [GI.holds, h1]

theorem stepLP_keep_slots (cfg : Cfg) (c : Nat) (s : Shared) (l : Locals) (b : Bool) (lp : LP)
    (hb : Beyond s) (hset : lp.early = false → l.node.isSome = true)
    (hf : (stepLP cfg c s l b lp).1.fault = none) :
    SlotKeep s (stepLP cfg c s l b lp).1 (fun n i a => lp.holds n i a l)
      (fun n i a => (stepLP cfg c s l b lp).2.2.1.holds n i a (stepLP cfg c s l b lp).2.1) := by
  -- slots untouched and nothing held before
  have plain : ∀ (s' : Shared) (l' : Locals) (lp' : LP), (∀ n, (s'.nodes n).fast = (s.nodes n).fast) →
      (∀ n i a, ¬ lp.holds n i a l) → SlotKeep s s' (fun n i a => lp.holds n i a l) (fun n i a => lp'.holds n i a l') :=
    fun s' l' lp' h1 h2 => SlotKeep.same h1 (fun n i a h => absurd h (h2 n i a))
  cases lp with
  | start =>
    simp only [stepLP]; split
    · exact plain _ _ _ (fun _ => rfl) (fun _ _ _ h => h)
    · split <;> exact plain _ _ _ (fun _ => rfl) (fun _ _ _ h => h)
  | get ng =>
    have h1 := fun n => (stepNG_slots s b ng hb n).1
    simp only [stepLP]; split
    · rename_i s' n evs heq; simp only [heq] at h1; exact plain _ _ _ h1 (fun _ _ _ h => h)
    · rename_i s' ng' evs hne heq; simp only [heq] at h1; exact plain _ _ _ h1 (fun _ _ _ h => h)
  | reget ng =>
    have h1 := fun n => (stepNG_slots s b ng hb n).1
    simp only [stepLP]; split
    · rename_i s' n evs heq; simp only [heq] at h1; exact plain _ _ _ h1 (fun _ _ _ h => h)
    · rename_i s' ng' evs hne heq; simp only [heq] at h1; exact plain _ _ _ h1 (fun _ _ _ h => h)
  | cool cd =>
    have h1 : ∀ n, ((stepCD s cd).1.nodes n).fast = (s.nodes n).fast := by
      intro n; cases cd <;> simp only [stepCD] <;> (try split) <;> fast_frame
    simp only [stepLP]; split
    · rename_i s' evs heq; simp only [heq] at h1; exact plain _ _ _ h1 (fun _ _ _ h => h)
    · rename_i s' cd' evs hne heq; simp only [heq] at h1; exact plain _ _ _ h1 (fun _ _ _ h => h)
  | a1 => simp only [stepLP]; split <;> exact plain _ _ _ (fun _ => by simp) (fun _ _ _ h => h)
  | nfDbg p =>
    simp only [stepLP]; split
    · exact plain _ _ _ (fun _ => by simp) (fun _ _ _ h => h)
    · exact plain _ _ _ (fun _ => by unfold dbgInUse; split <;> simp) (fun _ _ _ h => h)
  | probe p i0 => simp only [stepLP]; (repeat' split) <;> exact plain _ _ _ (fun _ => rfl) (fun _ _ _ h => h)
  | pswap p idx =>
    obtain ⟨n0, hn0⟩ := Option.isSome_iff_exists.mp (hset rfl)
    have e : l.node.getD 0 = n0 := by rw [hn0]; rfl
    intro n i a h
    simp only [stepLP, e] at h ⊢
    have hnodes : ∀ x : Shared, x.nodes = (s.setNode n0 fun nd => { nd with fast := upd nd.fast idx (.ptr p) }).nodes →
        (x.nodes n).fast i = .ptr a → ((s.nodes n).fast i = .ptr a ∧ (False → True)) ∨ (l.node = some n ∧ idx = i ∧ p = a) := by
      intro x hx hh
      rw [hx] at hh
      by_cases hn : n = n0
      · subst hn
        by_cases hi : i = idx
        · subst hi
          simp only [setNode_nodes_same, upd_same, Val.ptr.injEq] at hh
          exact Or.inr ⟨hn0, rfl, hh⟩
        · simp only [setNode_nodes_same, upd, hi, ↓reduceIte] at hh
          exact Or.inl ⟨hh, fun f => f.elim⟩
      · simp only [setNode_nodes_other _ _ _ _ hn] at hh
        exact Or.inl ⟨hh, fun f => f.elim⟩
    have := hnodes _ (by split <;> simp) h
    rcases this with ⟨h1, _⟩ | h2
    · exact Or.inl ⟨h1, fun hb' => by simp [LP.holds] at hb'⟩
    · exact Or.inr (by simpa [LP.holds] using h2)
  | a3 p idx =>
    simp only [stepLP] at hf ⊢; split
    · split
      · refine SlotKeep.same (fun _ => rfl) (fun n i a h => ?_)
        simp only [LP.holds] at h ⊢
        obtain ⟨h1, h2, h3⟩ := h
        refine ⟨h3, ?_⟩
        rw [h1]; simp [h2]
      · exact SlotKeep.same (fun _ => rfl) (fun n i a h => h)
    · rename_i hc; simp only [hc] at hf; exact absurd hf (setFault_ne_none _ _)
  | a4 p idx =>
    obtain ⟨n0, hn0⟩ := Option.isSome_iff_exists.mp (hset rfl)
    have e : l.node.getD 0 = n0 := by rw [hn0]; rfl
    intro n i a h
    simp only [stepLP, e] at h ⊢
    split at h
    · rename_i hc
      simp only [hc, ↓reduceIte]
      by_cases hn : n = n0
      · subst hn
        by_cases hi : i = idx
        · subst hi; simp [upd] at h
        · refine Or.inl ⟨by simpa [upd, hi] using h, fun hb' => ?_⟩
          simp only [LP.holds] at hb'; exact absurd hb'.2.1.symm hi
      · refine Or.inl ⟨by simpa [hn] using h, fun hb' => ?_⟩
        simp only [LP.holds, hn0, Option.some.injEq] at hb'; exact absurd hb'.1.symm hn
    · rename_i hc
      refine Or.inl ⟨h, fun hb' => ?_⟩
      simp only [LP.holds, hn0, Option.some.injEq] at hb'
      obtain ⟨rfl, rfl, rfl⟩ := hb'
      exact absurd h hc
  | a4dec p => simp only [stepLP]; exact plain _ _ _ (fun _ => by simp) (fun _ _ _ h => h)
  | nhDbg =>
    simp only [stepLP]; split
    · exact plain _ _ _ (fun _ => by simp) (fun _ _ _ h => h)
    · split <;> exact plain _ _ _ (fun _ => by unfold dbgInUse; split <;> simp) (fun _ _ _ h => h)
  | f1 => simp only [stepLP]; exact plain _ _ _ (fun _ => by fast_frame) (fun _ _ _ h => h)
  | f2 g => simp only [stepLP]; exact plain _ _ _ (fun _ => by split <;> fast_frame) (fun _ _ _ h => h)
  | f3 g => simp only [stepLP]; split <;> exact plain _ _ _ (fun _ => by simp) (fun _ _ _ h => h)
  | chDbg g cand =>
    simp only [stepLP]; split
    · exact plain _ _ _ (fun _ => by simp) (fun _ _ _ h => h)
    · exact plain _ _ _ (fun _ => by unfold dbgInUse; split <;> simp) (fun _ _ _ h => h)
  | f4 g cand => simp only [stepLP]; exact plain _ _ _ (fun _ => by split <;> fast_frame) (fun _ _ _ h => h)
  | f5 g cand =>
    simp only [stepLP]
    (repeat' split) <;> exact plain _ _ _ (fun _ => by fast_frame) (fun _ _ _ h => h)
  | fokInc cand => simp only [stepLP]; exact plain _ _ _ (fun _ => by simp) (fun _ _ _ h => h)
  | fokPay cand =>
    simp only [stepLP]; split
    · exact plain _ _ _ (fun _ => by fast_frame) (fun _ _ _ h => h)
    · split <;> exact plain _ _ _ (fun _ => rfl) (fun _ _ _ h => h)
  | fokDec cand => simp only [stepLP]; exact plain _ _ _ (fun _ => by simp) (fun _ _ _ h => h)
  | fr1 cand j => simp only [stepLP]; split <;> exact plain _ _ _ (fun _ => by simp) (fun _ _ _ h => h)
  | fr2 cand j r => simp only [stepLP]; exact plain _ _ _ (fun _ => by fast_frame) (fun _ _ _ h => h)
  | frPay cand r =>
    simp only [stepLP]; split
    · exact plain _ _ _ (fun _ => by fast_frame) (fun _ _ _ h => h)
    · split <;> exact plain _ _ _ (fun _ => rfl) (fun _ _ _ h => h)
  | frDec cand r => simp only [stepLP]; exact plain _ _ _ (fun _ => by simp) (fun _ _ _ h => h)
  | done p d => simp only [stepLP]; exact SlotKeep.same (fun _ => rfl) (fun n i a h => h)

theorem LP.done_holds (p : Nat) (d : Option (Nat × Nat)) (l : Locals) (n i a : Nat) :
    (LP.done p d).holds n i a l ↔ ({ ptr := p, debt := d } : Guard).holds n i a := Iff.rfl

theorem SlotKeep.mono {s s' : Shared} {P Q P' Q' : Nat → Nat → Nat → Prop} (h : SlotKeep s s' P Q)
    (hp : ∀ n i a, P' n i a → P n i a) (hq : ∀ n i a, Q n i a → Q' n i a) : SlotKeep s s' P' Q' := by
  intro n i a hh
  rcases h n i a hh with ⟨h1, h2⟩ | h3
  · exact Or.inl ⟨h1, fun x => hq n i a (h2 (hp n i a x))⟩
  · exact Or.inr (hq n i a h3)

/-- slot-preserving steps of a machine that holds nothing in its current state -/
theorem SlotKeep.plain {s s' : Shared} {P Q : Nat → Nat → Nat → Prop}
    (hs : ∀ n, (s'.nodes n).fast = (s.nodes n).fast) (hp : ∀ n i a, ¬ P n i a) : SlotKeep s s' P Q :=
  SlotKeep.same hs (fun n i a h => absurd h (hp n i a))

/-- a writer's pay-off of a slot: the slot is cleared or was not naming `p`; the walker holds nothing -/
theorem SlotKeep.clear {s : Shared} {P Q : Nat → Nat → Nat → Prop} (n0 j : Nat)
    (hp : ∀ n i a, ¬ P n i a) :
    SlotKeep s (s.setNode n0 fun nd => { nd with fast := upd nd.fast j .none }) P Q := by
  intro n i a h
  by_cases hn : n = n0
  · subst hn
    by_cases hi : i = j
    · subst hi; simp [upd] at h
    · exact Or.inl ⟨by simpa [upd, hi] using h, fun x => absurd x (hp _ _ _)⟩
  · exact Or.inl ⟨by simpa [hn] using h, fun x => absurd x (hp _ _ _)⟩

theorem stepPP_keep_slots (cfg : Cfg) (p c : Nat) (s : Shared) (l : Locals) (b : Bool) (pp : PP)
    (hb : Beyond s) (hk : pp.okN s l) (hf : (stepPP cfg p c s l b pp).1.fault = none) :
    SlotKeep s (stepPP cfg p c s l b pp).1 (fun n i a => pp.holds n i a l)
      (fun n i a => (stepPP cfg p c s l b pp).2.2.1.holds n i a (stepPP cfg p c s l b pp).2.1) := by
  have nh : ∀ (pp0 : PP), (∀ x ld, pp0 ≠ .hload x ld) → (∀ x r gi, pp0 ≠ .hinto x r gi) → ∀ n i a, ¬ pp0.holds n i a l := by
    intro pp0 h1 h2 n i a hh
    cases pp0 <;> first | exact hh | exact absurd rfl (h1 _ _) | exact absurd rfl (h2 _ _ _)
  cases pp with
  | hload x ld =>
    have h1 := stepLP_keep_slots cfg c s l b ld hb hk.2.1
    simp only [stepPP] at hf ⊢
    split
    · rename_i s' l' r d evs heq
      simp only [heq] at h1 hf
      refine (h1 hf).mono (fun _ _ _ h => h) (fun n i a h => ?_)
      rw [LP.done_holds] at h
      have hg := GI.ofGuard_holds _ n i a h
      split
      · rename_i hgi
        -- the guard has no debt: it holds nothing
        rw [hgi] at hg; exact hg.elim
      · exact hg
    · rename_i s' l' ld' evs hne heq
      simp only [heq] at h1 hf
      exact (h1 hf).mono (fun _ _ _ h => h) (fun _ _ _ h => h)
  | hinto x r gi =>
    have h1 := stepGI_keep_slots s gi
    simp only [stepPP]
    split
    · rename_i s' evs heq
      simp only [heq] at h1
      exact h1.mono (fun _ _ _ h => h) (fun n i a h => by simp [GI.holds] at h)
    · rename_i s' gi' evs hne heq
      simp only [heq] at h1
      exact h1.mono (fun _ _ _ h => h) (fun _ _ _ h => h)
  | get ng =>
    have h1 := fun n => (stepNG_slots s b ng hb n).1
    simp only [stepPP]; split
    · rename_i s' n evs heq; simp only [heq] at h1; exact SlotKeep.plain h1 (nh _ (by simp) (by simp))
    · rename_i s' ng' evs hne heq; simp only [heq] at h1; exact SlotKeep.plain h1 (nh _ (by simp) (by simp))
  | slot n0 j =>
    simp only [stepPP]
    split
    · split
      · split <;> exact SlotKeep.clear n0 j (nh _ (by simp) (by simp))
      · exact SlotKeep.plain (fun _ => rfl) (nh _ (by simp) (by simp))
    · split
      · split <;> exact SlotKeep.plain (fun _ => by fast_frame) (nh _ (by simp) (by simp))
      · exact SlotKeep.plain (fun _ => rfl) (nh _ (by simp) (by simp))
  | start =>
    simp only [stepPP]; (repeat' split) <;> exact SlotKeep.plain (fun _ => rfl) (nh _ (by simp) (by simp))
  | inc => simp only [stepPP]; exact SlotKeep.plain (fun _ => by simp) (nh _ (by simp) (by simp))
  | trav => simp only [stepPP]; split <;> exact SlotKeep.plain (fun _ => rfl) (nh _ (by simp) (by simp))
  | res n0 =>
    simp only [stepPP]; split <;> exact SlotKeep.plain (fun _ => by fast_frame) (nh _ (by simp) (by simp))
  | hDbg0 x =>
    simp only [stepPP]; exact SlotKeep.plain (fun _ => by unfold dbgInUse; split <;> simp) (nh _ (by simp) (by simp))
  | hDbg1 x => simp only [stepPP]; exact SlotKeep.plain (fun _ => by split <;> simp) (nh _ (by simp) (by simp))
  | h1 x => simp only [stepPP]; exact SlotKeep.plain (fun _ => rfl) (nh _ (by simp) (by simp))
  | h2 x =>
    simp only [stepPP]
    by_cases ho : x.own = x.who
    · simp only [ho, ↓reduceIte]
      (repeat' split) <;> exact SlotKeep.plain (fun _ => by simp) (nh _ (by simp) (by simp))
    · simp only [ho, ↓reduceIte]
      (repeat' split) <;> exact SlotKeep.plain (fun _ => rfl) (nh _ (by simp) (by simp))
  | h3 x => simp only [stepPP]; split <;> exact SlotKeep.plain (fun _ => rfl) (nh _ (by simp) (by simp))
  | hres x => simp only [stepPP]; exact SlotKeep.plain (fun _ => by fast_frame) (nh _ (by simp) (by simp))
  | h4 x r => simp only [stepPP]; exact SlotKeep.plain (fun _ => rfl) (nh _ (by simp) (by simp))
  | h5 x r t' => simp only [stepPP]; exact SlotKeep.plain (fun _ => rfl) (nh _ (by simp) (by simp))
  | h6 x r t' m => simp only [stepPP]; exact SlotKeep.plain (fun _ => by fast_frame) (nh _ (by simp) (by simp))
  | h7 x r t' m =>
    simp only [stepPP]; split
    · exact SlotKeep.plain (fun _ => by fast_frame) (nh _ (by simp) (by simp))
    · split <;> exact SlotKeep.plain (fun _ => rfl) (nh _ (by simp) (by simp))
  | h8 x t' => simp only [stepPP]; exact SlotKeep.plain (fun _ => by fast_frame) (nh _ (by simp) (by simp))
  | hdrop x r => simp only [stepPP]; exact SlotKeep.plain (fun _ => by simp) (nh _ (by simp) (by simp))
  | hend x => simp only [stepPP]; split <;> exact SlotKeep.plain (fun _ => rfl) (nh _ (by simp) (by simp))
  | hrel x => simp only [stepPP]; exact SlotKeep.plain (fun _ => by fast_frame) (nh _ (by simp) (by simp))
  | slotInc n0 j => simp only [stepPP]; exact SlotKeep.plain (fun _ => by simp) (nh _ (by simp) (by simp))
  | rel n0 => simp only [stepPP]; split <;> exact SlotKeep.plain (fun _ => by fast_frame) (nh _ (by simp) (by simp))
  | fin => simp only [stepPP]; split <;> exact SlotKeep.plain (fun _ => rfl) (nh _ (by simp) (by simp))
  | dec => simp only [stepPP]; exact SlotKeep.plain (fun _ => by simp) (nh _ (by simp) (by simp))
  | done => simp only [stepPP]; exact SlotKeep.plain (fun _ => rfl) (nh _ (by simp) (by simp))

theorem stepCP_keep_slots (cfg : Cfg) (c cur new : Nat) (s : Shared) (l : Locals) (b : Bool) (cp : CP)
    (hb : Beyond s) (hk : cp.okN s l) (hf : (stepCP cfg c cur new s l b cp).1.fault = none) :
    SlotKeep s (stepCP cfg c cur new s l b cp).1 (fun n i a => cp.holds n i a l)
      (fun n i a => (stepCP cfg c cur new s l b cp).2.2.1.holds n i a (stepCP cfg c cur new s l b cp).2.1) := by
  cases cp with
  | load ld =>
    have h1 := stepLP_keep_slots cfg c s l b ld hb hk.2.1
    simp only [stepCP] at hf ⊢
    split
    · rename_i s' l' p d evs heq
      simp only [heq] at h1 hf
      have hf' : s'.fault = none := by (repeat' split at hf) <;> exact hf
      refine (h1 hf').mono (fun _ _ _ h => h) (fun n i a h => ?_)
      rw [LP.done_holds] at h
      (repeat' split) <;> exact h
    · rename_i s' l' ld' evs hne heq
      simp only [heq] at h1 hf
      exact (h1 hf).mono (fun _ _ _ h => h) (fun _ _ _ h => h)
  | dropNew old =>
    simp only [stepCP]; exact SlotKeep.same (fun _ => by simp) (fun _ _ _ h => h)
  | cx old =>
    simp only [stepCP] at hf ⊢
    split
    · split
      · exact SlotKeep.same (fun _ => rfl) (fun _ _ _ h => Or.inl h)
      · split
        · rename_i hgd
          refine SlotKeep.same (fun _ => rfl) (fun n i a h => ?_)
          have := GD.ofGuard_holds old n i a h
          rw [hgd] at this; exact this.elim
        · exact SlotKeep.same (fun _ => rfl) (fun n i a h => GD.ofGuard_holds old n i a h)
    · rename_i hc; simp only [hc] at hf; exact absurd hf (setFault_ne_none _ _)
  | pay old pp =>
    have h1 := stepPP_keep_slots cfg old.ptr c s l b pp hb hk
    simp only [stepCP] at hf ⊢
    split
    · rename_i s' l' evs heq
      simp only [heq] at h1 hf
      have hf' : s'.fault = none := by (repeat' split at hf) <;> exact hf
      intro n i a hh
      rcases (h1 hf') n i a hh with ⟨h2, h3⟩ | h4
      · refine Or.inl ⟨h2, fun hb' => ?_⟩
        rcases hb' with ho | hp
        · split <;> exact ho
        · exact (h3 hp).elim
      · exact h4.elim
    · rename_i s' l' pp' evs hne heq
      simp only [heq] at h1 hf
      intro n i a hh
      rcases (h1 hf) n i a hh with ⟨h2, h3⟩ | h4
      · exact Or.inl ⟨h2, fun hb' => hb'.elim Or.inl (fun hp => Or.inr (h3 hp))⟩
      · exact Or.inr (Or.inr h4)
  | decOld old =>
    simp only [stepCP]; exact SlotKeep.same (fun _ => by simp) (fun _ _ _ h => h)
  | dropOld gd =>
    have h1 := stepGD_keep_slots s gd
    simp only [stepCP]
    split
    · rename_i s' evs heq
      simp only [heq] at h1
      exact h1.mono (fun _ _ _ h => h) (fun n i a h => by simp [GD.holds] at h)
    · rename_i s' gd' evs hne heq
      simp only [heq] at h1
      exact h1.mono (fun _ _ _ h => h) (fun _ _ _ h => h)
  | done old => simp only [stepCP]; exact SlotKeep.same (fun _ => rfl) (fun _ _ _ h => h)

theorem stepRP_keep_slots (cfg : Cfg) (c : Nat) (s : Shared) (l : Locals) (b : Bool) (tries : Nat) (rp : RP)
    (hb : Beyond s) (hk : rp.okN s l) (hf : (stepRP cfg c s l b tries rp).1.fault = none) :
    SlotKeep s (stepRP cfg c s l b tries rp).1 (fun n i a => rp.holds n i a l)
      (fun n i a => (stepRP cfg c s l b tries rp).2.2.1.holds n i a (stepRP cfg c s l b tries rp).2.1) := by
  cases rp with
  | load ld =>
    have h1 := stepLP_keep_slots cfg c s l b ld hb hk.2.1
    simp only [stepRP] at hf ⊢
    split
    · rename_i s' l' p d evs heq
      simp only [heq] at h1 hf
      exact (h1 hf).mono (fun _ _ _ h => h) (fun n i a h => by rw [LP.done_holds] at h; exact h)
    · rename_i s' l' ld' evs hne heq
      simp only [heq] at h1 hf
      exact (h1 hf).mono (fun _ _ _ h => h) (fun _ _ _ h => h)
  | attempt cur =>
    simp only [stepRP]
    refine SlotKeep.same (fun n => ?_) (fun _ _ _ h => Or.inl h)
    simp only [alloc]; split <;> simp
  | cas cur x cp =>
    have h1 := stepCP_keep_slots cfg c cur.ptr x s l b cp hb hk
    simp only [stepRP] at hf ⊢
    split
    · rename_i s' l' prev evs heq
      simp only [heq] at h1 hf
      have hf' : s'.fault = none := by (repeat' split at hf) <;> exact hf
      intro n i a hh
      have key : ∀ (Q : Prop), (cur.holds n i a → Q) → (prev.holds n i a → Q) →
          (((s.nodes n).fast i = .ptr a ∧ ((cur.holds n i a ∨ cp.holds n i a l) → Q)) ∨ Q) := by
        intro Q hcur hprev
        have hh' : (s'.nodes n).fast i = .ptr a := by (repeat' split at hh) <;> exact hh
        rcases (h1 hf') n i a hh' with ⟨h2, h3⟩ | h4
        · exact Or.inl ⟨h2, fun hb' => hb'.elim hcur (fun hc => hprev (h3 hc))⟩
        · exact Or.inr (hprev h4)
      split
      · split
        · rename_i hgi
          have np : ¬ prev.holds n i a := fun hp => by
            have := GI.ofGuard_holds prev n i a hp; rw [hgi] at this; exact this
          split
          · rename_i hgd
            have nc : ¬ cur.holds n i a := fun hc => by
              have := GD.ofGuard_holds cur n i a hc; rw [hgd] at this; exact this
            exact key _ (fun hc => absurd hc nc) (fun hp => absurd hp np)
          · exact key _ (fun hc => GD.ofGuard_holds cur n i a hc) (fun hp => absurd hp np)
        · exact key _ (fun hc => Or.inl hc) (fun hp => Or.inr (GI.ofGuard_holds prev n i a hp))
      · split
        · rename_i hgd
          have nc : ¬ cur.holds n i a := fun hc => by
            have := GD.ofGuard_holds cur n i a hc; rw [hgd] at this; exact this
          exact key _ (fun hc => absurd hc nc) (fun hp => hp)
        · exact key _ (fun hc => Or.inr (GD.ofGuard_holds cur n i a hc)) (fun hp => Or.inl hp)
    · rename_i s' l' cp' evs hne heq
      simp only [heq] at h1 hf
      intro n i a hh
      rcases (h1 hf) n i a hh with ⟨h2, h3⟩ | h4
      · exact Or.inl ⟨h2, fun hb' => hb'.elim Or.inl (fun hc => Or.inr (h3 hc))⟩
      · exact Or.inr (Or.inr h4)
  | intoPrev cur prev gi =>
    have h1 := stepGI_keep_slots s gi
    simp only [stepRP]
    split
    · rename_i s' evs heq
      simp only [heq] at h1
      intro n i a hh
      have ng : ¬ GI.done.holds n i a := fun h => h
      rcases h1 n i a hh with ⟨h2, h3⟩ | h4
      · refine Or.inl ⟨h2, fun hb' => ?_⟩
        rcases hb' with hc | hg
        · split
          · rename_i hgd
            have := GD.ofGuard_holds cur n i a hc; rw [hgd] at this; exact this.elim
          · exact GD.ofGuard_holds cur n i a hc
        · exact absurd (h3 hg) ng
      · exact absurd h4 ng
    · rename_i s' gi' evs hne heq
      simp only [heq] at h1
      intro n i a hh
      rcases h1 n i a hh with ⟨h2, h3⟩ | h4
      · exact Or.inl ⟨h2, fun hb' => hb'.elim Or.inl (fun hg => Or.inr (h3 hg))⟩
      · exact Or.inr (Or.inr h4)
  | dropCur res gd =>
    have h1 := stepGD_keep_slots s gd
    simp only [stepRP]
    split
    · rename_i s' evs heq
      simp only [heq] at h1
      exact h1.mono (fun _ _ _ h => h) (fun n i a h => by simp [GD.holds] at h)
    · rename_i s' gd' evs hne heq
      simp only [heq] at h1
      exact h1.mono (fun _ _ _ h => h) (fun _ _ _ h => h)
  | dropCurLoop prev gd =>
    have h1 := stepGD_keep_slots s gd
    simp only [stepRP]
    split
    · rename_i s' evs heq
      simp only [heq] at h1
      intro n i a hh
      rcases h1 n i a hh with ⟨h2, h3⟩ | h4
      · exact Or.inl ⟨h2, fun hb' => hb'.elim (fun hp => hp) (fun hg => (h3 hg).elim)⟩
      · exact h4.elim
    · rename_i s' gd' evs hne heq
      simp only [heq] at h1
      intro n i a hh
      rcases h1 n i a hh with ⟨h2, h3⟩ | h4
      · exact Or.inl ⟨h2, fun hb' => hb'.elim Or.inl (fun hg => Or.inr (h3 hg))⟩
      · exact Or.inr (Or.inr h4)
  | done r => simp only [stepRP]; exact SlotKeep.same (fun _ => rfl) (fun _ _ _ h => h)

/-! ## Whole operations: guards move between registers and operations -/

def RegHolds (greg : Nat → Option Guard) (n i a : Nat) : Prop := ∃ g gd, greg g = some gd ∧ gd.holds n i a

theorem RegHolds.set_free {greg : Nat → Option Guard} {n i a : Nat} (h : RegHolds greg n i a) (g : Nat) (v : Option Guard)
    (hfree : greg g = none) : RegHolds (upd greg g v) n i a := by
  obtain ⟨g', gd, h1, h2⟩ := h
  have : g' ≠ g := fun e => by subst e; rw [hfree] at h1; cases h1
  exact ⟨g', gd, by simp [upd, this, h1], h2⟩

theorem RegHolds.set_new {greg : Nat → Option Guard} {n i a : Nat} (g : Nat) (gd : Guard) (h : gd.holds n i a) :
    RegHolds (upd greg g (some gd)) n i a := ⟨g, gd, by simp, h⟩

/-- taking a guard out of a register: it was the holder, or the holder is still there -/
theorem RegHolds.take {greg : Nat → Option Guard} {n i a : Nat} (h : RegHolds greg n i a) (g : Nat) (x : Guard)
    (hx : greg g = some x) : x.holds n i a ∨ RegHolds (upd greg g none) n i a := by
  obtain ⟨g', gd, h1, h2⟩ := h
  by_cases e : g' = g
  · subst e; rw [hx] at h1; cases h1; exact Or.inl h2
  · exact Or.inr ⟨g', gd, by simp [upd, e, h1], h2⟩

/-- holders of a slot, seen from thread `t`: a register guard or `t`'s own operation -/
def HeldBy (st : State) (t n i a : Nat) : Prop :=
  RegHolds st.sh.greg n i a ∨ (st.th t).op.holds n i a (st.th t).loc

theorem beginOp_hold (st : State) (t : Nat) (o : Op) (hidle : (st.th t).op = .idle) :
    (∀ n, ((beginOp st t o).1.sh.nodes n).fast = (st.sh.nodes n).fast) ∧
      ∀ n i a, HeldBy st t n i a → HeldBy (beginOp st t o).1 t n i a := by
  have noT : ∀ n i a, ¬ (st.th t).op.holds n i a (st.th t).loc := fun n i a h => by rw [hidle] at h; exact h
  have keepR : ∀ (st' : State), st'.sh.greg = st.sh.greg → ∀ n i a, HeldBy st t n i a → HeldBy st' t n i a := by
    intro st' hg n i a h
    rcases h with h | h
    · exact Or.inl (by rw [hg]; exact h)
    · exact absurd h (noT n i a)
  cases o with
  | dropg g =>
    simp only [beginOp]
    split
    · exact ⟨fun _ => rfl, keepR _ rfl⟩
    · rename_i x hx
      split
      · rename_i hd
        refine ⟨fun _ => rfl, fun n i a h => ?_⟩
        rcases h with h | h
        · rcases h.take g x hx with h1 | h1
          · have := GD.ofGuard_holds x n i a h1; rw [hd] at this; exact this.elim
          · exact Or.inl h1
        · exact absurd h (noT n i a)
      · refine ⟨fun _ => rfl, fun n i a h => ?_⟩
        rcases h with h | h
        · rcases h.take g x hx with h1 | h1
          · right; simp only [upd_same]; exact GD.ofGuard_holds x n i a h1
          · exact Or.inl h1
        · exact absurd h (noT n i a)
  | ginto g hh =>
    simp only [beginOp]
    split
    · exact ⟨fun _ => rfl, keepR _ rfl⟩
    · split
      · exact ⟨fun _ => rfl, keepR _ rfl⟩
      · rename_i x hx
        split
        · rename_i hd
          refine ⟨fun _ => rfl, fun n i a h => ?_⟩
          rcases h with h | h
          · rcases h.take g x hx with h1 | h1
            · have := GI.ofGuard_holds x n i a h1; rw [hd] at this; exact this.elim
            · exact Or.inl h1
          · exact absurd h (noT n i a)
        · refine ⟨fun _ => rfl, fun n i a h => ?_⟩
          rcases h with h | h
          · rcases h.take g x hx with h1 | h1
            · right; simp only [upd_same]; exact GI.ofGuard_holds x n i a h1
            · exact Or.inl h1
          · exact absurd h (noT n i a)
  | cas c cur nw g =>
    simp only [beginOp]
    split
    · exact ⟨fun _ => rfl, keepR _ rfl⟩
    · split
      · exact ⟨fun _ => rfl, keepR _ rfl⟩
      · split
        · exact ⟨fun _ => rfl, keepR _ rfl⟩
        · cases cur with
          | null => exact ⟨fun _ => rfl, keepR _ rfl⟩
          | h hc => dsimp only; split <;> exact ⟨fun _ => rfl, keepR _ rfl⟩
          | g gc =>
            dsimp only
            split
            · exact ⟨fun _ => rfl, keepR _ rfl⟩
            · rename_i y hy
              refine ⟨fun _ => rfl, fun n i a h => ?_⟩
              rcases h with h | h
              · rcases h.take gc y hy with h1 | h1
                · right; simp only [upd_same]; exact Or.inr ⟨y, rfl, h1⟩
                · exact Or.inl h1
              · exact absurd h (noT n i a)
  | new h val => simp only [beginOp]; split <;> exact ⟨fun _ => by simp [alloc], keepR _ (by simp [alloc])⟩
  | nullh h => simp only [beginOp]; split <;> exact ⟨fun _ => rfl, keepR _ rfl⟩
  | cloneh h h2 => simp only [beginOp]; (repeat' split) <;> exact ⟨fun _ => rfl, keepR _ rfl⟩
  | droph h => simp only [beginOp]; (repeat' split) <;> exact ⟨fun _ => rfl, keepR _ rfl⟩
  | mk c h => simp only [beginOp]; (repeat' split) <;> exact ⟨fun _ => rfl, keepR _ rfl⟩
  | load c g => simp only [beginOp]; (repeat' split) <;> exact ⟨fun _ => rfl, keepR _ rfl⟩
  | loadfull c h => simp only [beginOp]; (repeat' split) <;> exact ⟨fun _ => rfl, keepR _ rfl⟩
  | gderef g =>
    simp only [beginOp]
    split
    · exact ⟨fun _ => rfl, keepR _ rfl⟩
    · exact ⟨fun _ => by dsimp only; split <;> simp, keepR _ (by dsimp only; split <;> simp)⟩
  | store c h => simp only [beginOp]; (repeat' split) <;> exact ⟨fun _ => rfl, keepR _ rfl⟩
  | swap c h out => simp only [beginOp]; (repeat' split) <;> exact ⟨fun _ => rfl, keepR _ rfl⟩
  | rcu c out => simp only [beginOp]; (repeat' split) <;> exact ⟨fun _ => rfl, keepR _ rfl⟩
  | cinto c h => simp only [beginOp]; (repeat' split) <;> exact ⟨fun _ => rfl, keepR _ rfl⟩
  | dropc c => simp only [beginOp]; (repeat' split) <;> exact ⟨fun _ => rfl, keepR _ rfl⟩
  | setgen v => simp only [beginOp]; exact ⟨fun _ => trivial, keepR _ rfl⟩

/-- a step of thread `t` and the slots, registers included -/
def HoldStep (st st' : State) (t : Nat) : Prop :=
  ∀ n i a, ((st'.sh.nodes n).fast i = .ptr a) →
    (((st.sh.nodes n).fast i = .ptr a) ∧ (HeldBy st t n i a → HeldBy st' t n i a)) ∨ HeldBy st' t n i a

/-- lifting a sub-machine's `SlotKeep` when the registers are untouched -/
theorem HoldStep.of_keep {st st' : State} {t : Nat} {P Q : Nat → Nat → Nat → Prop}
    (h : SlotKeep st.sh st'.sh P Q) (hg : st'.sh.greg = st.sh.greg)
    (hp : ∀ n i a, (st.th t).op.holds n i a (st.th t).loc → P n i a)
    (hq : ∀ n i a, Q n i a → (st'.th t).op.holds n i a (st'.th t).loc) : HoldStep st st' t := by
  intro n i a hs
  rcases h n i a hs with ⟨h1, h2⟩ | h2
  · refine Or.inl ⟨h1, fun hh => ?_⟩
    rcases hh with hh | hh
    · exact Or.inl (by rw [hg]; exact hh)
    · exact Or.inr (hq _ _ _ (h2 (hp _ _ _ hh)))
  · exact Or.inr (Or.inr (hq _ _ _ h2))

/-- the same when the operation ends by parking a guard in a free register -/
theorem HoldStep.of_keep_park {st st' : State} {t : Nat} {P Q : Nat → Nat → Nat → Prop} {s1 : Shared}
    (h : SlotKeep st.sh s1 P Q) (hn : ∀ n, (st'.sh.nodes n).fast = (s1.nodes n).fast)
    (g : Nat) (gd : Guard) (hfree : st.sh.greg g = none) (hg : st'.sh.greg = upd st.sh.greg g (some gd))
    (hp : ∀ n i a, (st.th t).op.holds n i a (st.th t).loc → P n i a)
    (hq : ∀ n i a, Q n i a → gd.holds n i a) : HoldStep st st' t := by
  intro n i a hs
  rw [hn] at hs
  rcases h n i a hs with ⟨h1, h2⟩ | h2
  · refine Or.inl ⟨h1, fun hh => ?_⟩
    rcases hh with hh | hh
    · exact Or.inl (by rw [hg]; exact hh.set_free g _ hfree)
    · exact Or.inl (by rw [hg]; exact RegHolds.set_new g gd (hq _ _ _ (h2 (hp _ _ _ hh))))
  · exact Or.inr (Or.inl (by rw [hg]; exact RegHolds.set_new g gd (hq _ _ _ h2)))

theorem SlotKeep.or_right {s s' : Shared} {P Q : Nat → Nat → Nat → Prop} (h : SlotKeep s s' P Q)
    (R : Nat → Nat → Nat → Prop) : SlotKeep s s' (fun n i a => P n i a ∨ R n i a) (fun n i a => Q n i a ∨ R n i a) := by
  intro n i a hs
  rcases h n i a hs with ⟨h1, h2⟩ | h2
  · exact Or.inl ⟨h1, fun hh => hh.elim (fun x => Or.inl (h2 x)) Or.inr⟩
  · exact Or.inr (Or.inl h2)

theorem stepCD_fast (s : Shared) (cd : CD) (m : Nat) : ((stepCD s cd).1.nodes m).fast = (s.nodes m).fast := by
  cases cd <;> simp only [stepCD] <;> (try split) <;> fast_frame

theorem incObj_fast (s : Shared) (a m : Nat) : ((incObj s a).1.nodes m).fast = (s.nodes m).fast := by
  simp only [incObj]; split <;> simp
theorem decObj_fast (s : Shared) (a m : Nat) : ((decObj s a).1.nodes m).fast = (s.nodes m).fast := by
  simp only [decObj]; (repeat' split) <;> simp

/-- a step that leaves slots and registers alone and after which the thread holds nothing that it
    did not hold: fine when it held nothing -/
theorem HoldStep.idle {st st' : State} {t : Nat} (hn : ∀ n, (st'.sh.nodes n).fast = (st.sh.nodes n).fast)
    (hg : st'.sh.greg = st.sh.greg) (hnone : ∀ n i a, ¬ (st.th t).op.holds n i a (st.th t).loc) : HoldStep st st' t :=
  HoldStep.of_keep (P := fun _ _ _ => False) (Q := fun _ _ _ => False)
    (SlotKeep.same hn (fun _ _ _ h => h)) hg (fun n i a h => hnone n i a h) (fun _ _ _ h => h.elim)

theorem microStep_hold (N : Nat) (st : State) (t : Nat) (b : Bool) (hb : Beyond st.sh)
    (hk : (st.th t).op.okN st.sh (st.th t).loc) (hr : (st.th t).op.okR N st.sh)
    (hf : (microStep st t b).1.sh.fault = none) : HoldStep st (microStep st t b).1 t := by
  cases hop : (st.th t).op with
  | finished =>
    simp only [microStep, hop]
    exact fun n i a hs => Or.inl ⟨hs, fun h => h⟩
  | idle =>
    simp only [microStep, hop]
    split
    · exact HoldStep.idle (fun _ => rfl) rfl (fun n i a h => by rw [hop] at h; exact h)
    · rename_i txt o rest hp
      obtain ⟨h1, h2⟩ := beginOp_hold { st with th := upd st.th t { prog := rest, op := .idle, loc := (st.th t).loc } } t o (by simp)
      dsimp only at h1 h2 ⊢
      intro n i a hs
      rw [h1] at hs
      refine Or.inl ⟨hs, fun hh => h2 n i a ?_⟩
      rcases hh with hh | hh
      · exact Or.inl hh
      · rw [hop] at hh; exact hh.elim
  | exitCool cd =>
    have h1 := stepCD_fast st.sh cd
    have h2 := (stepCD_hg st.sh cd).2
    simp only [microStep, hop]
    split
    · rename_i s' evs heq; simp only [heq] at h1 h2
      exact HoldStep.idle h1 h2 (fun n i a h => by rw [hop] at h; exact h)
    · rename_i s' cd' evs hne heq; simp only [heq] at h1 h2
      exact HoldStep.idle h1 h2 (fun n i a h => by rw [hop] at h; exact h)
  | load c g ld =>
    rw [hop] at hk hr
    have h1 := stepLP_keep_slots st.cfg c st.sh (st.th t).loc b ld hb hk.2.1
    have h2 := (stepLP_hg st.cfg c st.sh (st.th t).loc b ld).2
    simp only [microStep, hop] at hf ⊢
    split
    · rename_i s' l' p d evs heq
      simp only [heq] at h1 h2 hf
      refine HoldStep.of_keep_park (h1 hf) (fun _ => rfl) g { ptr := p, debt := d } hr.2.2 (by simp [h2])
        (fun n i a h => by rw [hop] at h; exact h) (fun n i a h => ?_)
      rw [LP.done_holds] at h; exact h
    · rename_i s' l' ld' evs hne heq
      simp only [heq] at h1 h2 hf
      exact HoldStep.of_keep (h1 hf) h2 (fun n i a h => by rw [hop] at h; exact h) (fun n i a h => by simpa [OpSt.holds] using h)
  | loadFull c x ld =>
    rw [hop] at hk hr
    have h1 := stepLP_keep_slots st.cfg c st.sh (st.th t).loc b ld hb hk.2.1
    have h2 := (stepLP_hg st.cfg c st.sh (st.th t).loc b ld).2
    simp only [microStep, hop] at hf ⊢
    split
    · rename_i s' l' p d evs heq
      simp only [heq] at h1 h2 hf
      have hf' : s'.fault = none := by split at hf <;> exact hf
      split
      · rename_i hd
        refine HoldStep.of_keep (h1 hf') (by simp [h2]) (fun n i a h => by rw [hop] at h; exact h) (fun n i a h => ?_)
        rw [LP.done_holds] at h
        have := GI.ofGuard_holds { ptr := p, debt := d } n i a h
        rw [hd] at this; exact this.elim
      · refine HoldStep.of_keep (h1 hf') h2 (fun n i a h => by rw [hop] at h; exact h) (fun n i a h => ?_)
        rw [LP.done_holds] at h
        simpa [OpSt.holds] using GI.ofGuard_holds { ptr := p, debt := d } n i a h
    · rename_i s' l' ld' evs hne heq
      simp only [heq] at h1 h2 hf
      exact HoldStep.of_keep (h1 hf) h2 (fun n i a h => by rw [hop] at h; exact h) (fun n i a h => by simpa [OpSt.holds] using h)
  | loadFullInto c x r gi =>
    have h1 := stepGI_keep_slots st.sh gi
    have h2 := (stepGI_hg st.sh gi).2
    simp only [microStep, hop]
    split
    · rename_i s' evs heq; simp only [heq] at h1 h2
      exact HoldStep.of_keep h1 (by simp [h2]) (fun n i a h => by rw [hop] at h; exact h) (fun n i a h => h.elim)
    · rename_i s' gi' evs hne heq; simp only [heq] at h1 h2
      exact HoldStep.of_keep h1 h2 (fun n i a h => by rw [hop] at h; exact h) (fun n i a h => by simpa [OpSt.holds] using h)
  | cloneh x y a0 =>
    simp only [microStep, hop]
    exact HoldStep.idle (fun n => by simp [incObj_fast]) (by simp) (fun n i a h => by rw [hop] at h; exact h)
  | droph a0 =>
    simp only [microStep, hop]
    exact HoldStep.idle (fun n => by simp [decObj_fast]) (by simp) (fun n i a h => by rw [hop] at h; exact h)
  | dropg gd =>
    have h1 := stepGD_keep_slots st.sh gd
    have h2 := (stepGD_hg st.sh gd).2
    simp only [microStep, hop]
    split
    · rename_i s' evs heq; simp only [heq] at h1 h2
      exact HoldStep.of_keep h1 h2 (fun n i a h => by rw [hop] at h; exact h) (fun n i a h => h.elim)
    · rename_i s' gd' evs hne heq; simp only [heq] at h1 h2
      exact HoldStep.of_keep h1 h2 (fun n i a h => by rw [hop] at h; exact h) (fun n i a h => by simpa [OpSt.holds] using h)
  | ginto x p gi =>
    have h1 := stepGI_keep_slots st.sh gi
    have h2 := (stepGI_hg st.sh gi).2
    simp only [microStep, hop]
    split
    · rename_i s' evs heq; simp only [heq] at h1 h2
      exact HoldStep.of_keep h1 (by simp [h2]) (fun n i a h => by rw [hop] at h; exact h) (fun n i a h => h.elim)
    · rename_i s' gi' evs hne heq; simp only [heq] at h1 h2
      exact HoldStep.of_keep h1 h2 (fun n i a h => by rw [hop] at h; exact h) (fun n i a h => by simpa [OpSt.holds] using h)
  | swapSw c a0 out isStore =>
    simp only [microStep, hop]
    split
    · exact HoldStep.idle (fun n => by simp [Shared.writeCell]) (by simp [Shared.writeCell]) (fun n i a h => by rw [hop] at h; exact h)
    · exact fun n i a hs => Or.inl ⟨hs, fun h => h⟩
  | swapPay c out old isStore pp =>
    rw [hop] at hk hr
    have h1 := stepPP_keep_slots st.cfg old c st.sh (st.th t).loc b pp hb hk
    have h2 := (stepPP_hg st.cfg old c st.sh (st.th t).loc b pp).2
    simp only [microStep, hop] at hf ⊢
    split
    · rename_i s' l' evs heq
      simp only [heq] at h1 h2 hf
      have hf' : s'.fault = none := by (repeat' split at hf) <;> exact hf
      (repeat' split) <;>
        exact HoldStep.of_keep (h1 hf') (by simp [h2]) (fun n i a h => by rw [hop] at h; exact h) (fun n i a h => h.elim)
    · rename_i s' l' pp' evs hne heq
      simp only [heq] at h1 h2 hf
      exact HoldStep.of_keep (h1 hf) h2 (fun n i a h => by rw [hop] at h; exact h) (fun n i a h => by simpa [OpSt.holds] using h)
  | swapDrop c old =>
    simp only [microStep, hop]
    exact HoldStep.idle (fun n => by simp [decObj_fast]) (by simp) (fun n i a h => by rw [hop] at h; exact h)
  | cas c cur keep curPtr new g cp =>
    rw [hop] at hk hr
    have h1 := stepCP_keep_slots st.cfg c curPtr new st.sh (st.th t).loc b cp hb hk
    have h2 := (stepCP_hg st.cfg c curPtr new st.sh (st.th t).loc b cp).2
    simp only [microStep, hop] at hf ⊢
    split
    · rename_i s' l' old evs heq
      simp only [heq] at h1 h2 hf
      have hf' : s'.fault = none := by cases cur <;> cases keep <;> simpa using hf
      have h3 := h1 hf'
      obtain ⟨hc, hg, hfree, hcur⟩ := hr
      cases cur with
      | null =>
        cases keep with
        | some cg => exact hcur.elim
        | none =>
          refine HoldStep.of_keep_park h3 (fun _ => rfl) g old hfree (by simp [h2]) (fun n i a h => ?_) (fun n i a h => h)
          rw [hop] at h
          rcases h with h | ⟨cg, h, _⟩
          · exact h
          · cases h
      | h hc' =>
        cases keep with
        | some cg => exact hcur.elim
        | none =>
          refine HoldStep.of_keep_park h3 (fun _ => rfl) g old hfree (by simp [h2]) (fun n i a h => ?_) (fun n i a h => h)
          rw [hop] at h
          rcases h with h | ⟨cg, h, _⟩
          · exact h
          · cases h
      | g gc =>
        cases keep with
        | none => exact hcur.elim
        | some cg =>
          obtain ⟨hgc, hne, hfree2⟩ := hcur
          have hfree3 : (upd s'.greg gc (some cg)) g = none := by rw [h2]; simp [upd, Ne.symm hne, hfree]
          intro n i a hs
          dsimp only at hs ⊢
          rcases h3 n i a hs with ⟨k1, k2⟩ | k2
          · refine Or.inl ⟨k1, fun hh => Or.inl ?_⟩
            dsimp only
            rcases hh with hh | hh
            · have := (hh.set_free gc (some cg) hfree2).set_free g (some old) (by rw [← h2]; exact hfree3)
              rw [h2]; exact this
            · rw [hop] at hh
              rcases hh with hh | ⟨cg', h, h'⟩
              · exact RegHolds.set_new g old (k2 hh)
              · cases h
                exact (RegHolds.set_new (greg := s'.greg) gc cg h').set_free g _ hfree3
          · exact Or.inr (Or.inl (RegHolds.set_new g old k2))
    · rename_i s' l' cp' evs hne heq
      simp only [heq] at h1 h2 hf
      exact HoldStep.of_keep ((h1 hf).or_right (fun n i a => ∃ cg, keep = some cg ∧ cg.holds n i a)) h2
        (fun n i a h => by rw [hop] at h; exact h) (fun n i a h => by simpa [OpSt.holds] using h)
  | rcu c out tries rp =>
    rw [hop] at hk hr
    have h1 := stepRP_keep_slots st.cfg c st.sh (st.th t).loc b tries rp hb hk
    have h2 := (stepRP_hg st.cfg c st.sh (st.th t).loc b tries rp).2
    simp only [microStep, hop] at hf ⊢
    split
    · rename_i s' l' r tries' evs heq
      simp only [heq] at h1 h2 hf
      exact HoldStep.of_keep (h1 hf) (by simp [h2]) (fun n i a h => by rw [hop] at h; exact h) (fun n i a h => h.elim)
    · rename_i s' l' rp' tries' evs hne heq
      simp only [heq] at h1 h2 hf
      exact HoldStep.of_keep (h1 hf) h2 (fun n i a h => by rw [hop] at h; exact h) (fun n i a h => by simpa [OpSt.holds] using h)
  | cinto c x p pp =>
    rw [hop] at hk hr
    have h1 := stepPP_keep_slots st.cfg p c st.sh (st.th t).loc b pp hb hk
    have h2 := (stepPP_hg st.cfg p c st.sh (st.th t).loc b pp).2
    simp only [microStep, hop] at hf ⊢
    split
    · rename_i s' l' evs heq
      simp only [heq] at h1 h2 hf
      exact HoldStep.of_keep (h1 hf) (by simp [h2]) (fun n i a h => by rw [hop] at h; exact h) (fun n i a h => h.elim)
    · rename_i s' l' pp' evs hne heq
      simp only [heq] at h1 h2 hf
      exact HoldStep.of_keep (h1 hf) h2 (fun n i a h => by rw [hop] at h; exact h) (fun n i a h => by simpa [OpSt.holds] using h)
  | dropc c p pp =>
    rw [hop] at hk hr
    have h1 := stepPP_keep_slots st.cfg p c st.sh (st.th t).loc b pp hb hk
    have h2 := (stepPP_hg st.cfg p c st.sh (st.th t).loc b pp).2
    simp only [microStep, hop] at hf ⊢
    split
    · rename_i s' l' evs heq
      simp only [heq] at h1 h2 hf
      have hf' : s'.fault = none := by (repeat' split at hf) <;> exact hf
      (repeat' split) <;>
        exact HoldStep.of_keep (h1 hf') (by simp [h2]) (fun n i a h => by rw [hop] at h; exact h) (fun n i a h => h.elim)
    · rename_i s' l' pp' evs hne heq
      simp only [heq] at h1 h2 hf
      exact HoldStep.of_keep (h1 hf) h2 (fun n i a h => by rw [hop] at h; exact h) (fun n i a h => by simpa [OpSt.holds] using h)
  | dropcDec c p =>
    simp only [microStep, hop]
    exact HoldStep.idle (fun n => by simp [decObj_fast]) (by simp) (fun n i a h => by rw [hop] at h; exact h)

/-! ## The invariant -/

/-- **every occupied fast slot has a holder**: a guard in a register, or an operation in flight
    (which carries the guard, or has published the debt and not yet confirmed it) -/
def HoldInv (st : State) : Prop :=
  ∀ n i a, (st.sh.nodes n).fast i = .ptr a →
    RegHolds st.sh.greg n i a ∨ ∃ t, (st.th t).op.holds n i a (st.th t).loc

theorem HoldInv.initial (cfg : Cfg) (progs : Nat → List (String × Op)) : HoldInv (State.initial cfg progs) := by
  intro n i a h; cases h

theorem HoldInv.step {N : Nat} {st : State} (h : HoldInv st) (hn : NodeInv st) (t : Nat) (b : Bool)
    (hr : (st.th t).op.okR N st.sh) (hf : (microStep st t b).1.sh.fault = none) : HoldInv (microStep st t b).1 := by
  have hs := microStep_hold N st t b hn.nodes.slots (hn.th t) hr hf
  have hoth := (microStep_own st t b).2
  intro n i a hslot
  have conv : HeldBy (microStep st t b).1 t n i a →
      RegHolds (microStep st t b).1.sh.greg n i a ∨
        ∃ t', ((microStep st t b).1.th t').op.holds n i a ((microStep st t b).1.th t').loc :=
    fun hh => hh.elim Or.inl (fun x => Or.inr ⟨t, x⟩)
  rcases hs n i a hslot with ⟨h1, h2⟩ | h2
  · rcases h n i a h1 with hh | ⟨u, hu⟩
    · exact conv (h2 (Or.inl hh))
    · by_cases hut : u = t
      · subst hut; exact conv (h2 (Or.inr hu))
      · exact Or.inr ⟨u, by rw [hoth u hut]; exact hu⟩
  · exact conv h2

/-- the register discipline of the program, along a schedule -/
def RegRun (N : Nat) : State → List (Nat × Bool) → Prop
  | _, [] => True
  | st, (t, b) :: rest => (st.th t).op.okR N st.sh ∧ RegRun N (microStep st t b).1 rest

theorem HoldInv.run {N : Nat} {st : State} (h : HoldInv st) (hn : NodeInv st) (sched : List (Nat × Bool))
    (hr : RegRun N st sched) (hf : (run st sched).sh.fault = none) : HoldInv (run st sched) := by
  induction sched generalizing st with
  | nil => exact h
  | cons x rest ih =>
    obtain ⟨t, b⟩ := x
    have hf1 : (microStep st t b).1.sh.fault = none := run_fault_mono _ rest hf
    exact ih (h.step hn t b hr.1 hf1) (hn.step t b) hr.2 hf

theorem RegRun.of_env {K N T : Nat} {st : State} {sched : List (Nat × Bool)} (h : EnvRun0 K N T st sched) :
    RegRun N st sched := by
  induction sched generalizing st with
  | nil => trivial
  | cons x rest ih => obtain ⟨t, b⟩ := x; exact ⟨h.2.1.regs, ih h.2.2⟩

/-- **at rest no fast slot names a value**: with no guard that carries a debt in any register and
    no operation in flight, every fast slot is empty or (never, but not needed here) not a value -/
theorem HoldInv.rest {st : State} (h : HoldInv st)
    (hg : ∀ g gd, st.sh.greg g = some gd → gd.debt = none)
    (hidle : ∀ t, (st.th t).op = .idle ∨ (st.th t).op = .finished) (n i a : Nat) :
    (st.sh.nodes n).fast i ≠ .ptr a := by
  intro hs
  rcases h n i a hs with ⟨g, gd, h1, h2⟩ | ⟨t, ht⟩
  · have := hg g gd h1; rw [h2.2] at this; cases this
  · rcases hidle t with e | e <;> (rw [e] at ht; exact ht)

end M
