import ArcSwapModel.Inv.Hold

/-!
# Every occupied helping slot has a holder

The helping slot of a node is written by its owner alone (`confirm`, `LP.f4`) and cleared by the
owner's `pay` or by a writer that pays it off.  While it names a value, the owner's load is between
`confirm` and its own `pay`.  `HHoldInv`, for every reachable fault-free state; with `HoldInv` it
gives the slots part of quiescence (`C02`: no borrow slot stays occupied).
-/

namespace M
open Consts

def LP.hholds (n a : Nat) (l : Locals) : LP → Prop
  | .f5 _ cand | .fokInc cand | .fokPay cand | .fr1 cand _ | .fr2 cand _ _ | .frPay cand _ => l.node = some n ∧ cand = a
  | _ => False

def PP.hholds (n a : Nat) (l : Locals) : PP → Prop
  | .hload _ ld => ld.hholds n a l
  | _ => False

def CP.hholds (n a : Nat) (l : Locals) : CP → Prop
  | .load ld => ld.hholds n a l
  | .pay _ pp => pp.hholds n a l
  | _ => False

def RP.hholds (n a : Nat) (l : Locals) : RP → Prop
  | .load ld => ld.hholds n a l
  | .cas _ _ cp => cp.hholds n a l
  | _ => False

def OpSt.hholds (n a : Nat) (l : Locals) : OpSt → Prop
  | .load _ _ ld | .loadFull _ _ ld => ld.hholds n a l
  | .swapPay _ _ _ _ pp | .cinto _ _ _ pp | .dropc _ _ pp => pp.hholds n a l
  | .cas _ _ _ _ _ _ cp => cp.hholds n a l
  | .rcu _ _ _ rp => rp.hholds n a l
  | _ => False

/-- how a step treats the helping slots, seen from the stepping thread -/
def HKeep (s s' : Shared) (before after : Nat → Nat → Prop) : Prop :=
  ∀ n a, (s'.nodes n).hslot = .ptr a →
    ((s.nodes n).hslot = .ptr a ∧ (before n a → after n a)) ∨ after n a

theorem HKeep.same {s s' : Shared} {P Q : Nat → Nat → Prop}
    (hs : ∀ n, (s'.nodes n).hslot = (s.nodes n).hslot) (hpq : ∀ n a, P n a → Q n a) : HKeep s s' P Q := by
  intro n a h; rw [hs n] at h; exact Or.inl ⟨h, hpq n a⟩

theorem HKeep.plain {s s' : Shared} {P Q : Nat → Nat → Prop}
    (hs : ∀ n, (s'.nodes n).hslot = (s.nodes n).hslot) (hp : ∀ n a, ¬ P n a) : HKeep s s' P Q :=
  HKeep.same hs (fun n a h => absurd h (hp n a))

theorem HKeep.mono {s s' : Shared} {P Q P' Q' : Nat → Nat → Prop} (h : HKeep s s' P Q)
    (hp : ∀ n a, P' n a → P n a) (hq : ∀ n a, Q n a → Q' n a) : HKeep s s' P' Q' := by
  intro n a hh
  rcases h n a hh with ⟨h1, h2⟩ | h3
  · exact Or.inl ⟨h1, fun x => hq n a (h2 (hp n a x))⟩
  · exact Or.inr (hq n a h3)

/-- clearing one helping slot, by somebody who holds nothing -/
theorem HKeep.clear {s : Shared} {P Q : Nat → Nat → Prop} (n0 : Nat) (hp : ∀ n a, ¬ P n a) :
    HKeep s (s.setNode n0 fun nd => { nd with hslot := .none }) P Q := by
  intro n a h
  by_cases hn : n = n0
  · subst hn; simp at h
  · exact Or.inl ⟨by simpa [hn] using h, fun x => absurd x (hp _ _)⟩

/-- `hslot` of every node is what it was -/
macro "hslot_frame" : tactic =>
  `(tactic| (first
      | rfl
      | (simp only [Shared.setNode, upd, setFault_nodes]; split <;> simp_all)
      | simp))

theorem stepCD_hslot (s : Shared) (cd : CD) (m : Nat) : ((stepCD s cd).1.nodes m).hslot = (s.nodes m).hslot := by
  cases cd <;> simp only [stepCD] <;> (try split) <;> hslot_frame
theorem incObj_hslot (s : Shared) (a m : Nat) : ((incObj s a).1.nodes m).hslot = (s.nodes m).hslot := by
  simp only [incObj]; split <;> simp
theorem decObj_hslot (s : Shared) (a m : Nat) : ((decObj s a).1.nodes m).hslot = (s.nodes m).hslot := by
  simp only [decObj]; (repeat' split) <;> simp
theorem stepGD_hslot (s : Shared) (gd : GD) (m : Nat) : ((stepGD s gd).1.nodes m).hslot = (s.nodes m).hslot := by
  cases gd <;> simp only [stepGD] <;> (repeat' split) <;> hslot_frame
theorem stepGI_hslot (s : Shared) (gi : GI) (m : Nat) : ((stepGI s gi).1.nodes m).hslot = (s.nodes m).hslot := by
  cases gi <;> simp only [stepGI] <;> (repeat' split) <;> hslot_frame

theorem stepLP_hkeep (cfg : Cfg) (c : Nat) (s : Shared) (l : Locals) (b : Bool) (lp : LP)
    (hb : Beyond s) (hset : lp.early = false → l.node.isSome = true)
    (hf : (stepLP cfg c s l b lp).1.fault = none) :
    HKeep s (stepLP cfg c s l b lp).1 (fun n a => lp.hholds n a l)
      (fun n a => (stepLP cfg c s l b lp).2.2.1.hholds n a (stepLP cfg c s l b lp).2.1) := by
  have plain : ∀ (s' : Shared) (l' : Locals) (lp' : LP), (∀ n, (s'.nodes n).hslot = (s.nodes n).hslot) →
      (∀ n a, ¬ lp.hholds n a l) → HKeep s s' (fun n a => lp.hholds n a l) (fun n a => lp'.hholds n a l') :=
    fun s' l' lp' h1 h2 => HKeep.plain h1 h2
  cases lp with
  | start =>
    simp only [stepLP]; split
    · exact plain _ _ _ (fun _ => rfl) (fun _ _ h => h)
    · split <;> exact plain _ _ _ (fun _ => rfl) (fun _ _ h => h)
  | get ng =>
    have h1 := fun n => (stepNG_slots s b ng hb n).2
    simp only [stepLP]; split
    · rename_i s' n evs heq; simp only [heq] at h1; exact plain _ _ _ h1 (fun _ _ h => h)
    · rename_i s' ng' evs hne heq; simp only [heq] at h1; exact plain _ _ _ h1 (fun _ _ h => h)
  | reget ng =>
    have h1 := fun n => (stepNG_slots s b ng hb n).2
    simp only [stepLP]; split
    · rename_i s' n evs heq; simp only [heq] at h1; exact plain _ _ _ h1 (fun _ _ h => h)
    · rename_i s' ng' evs hne heq; simp only [heq] at h1; exact plain _ _ _ h1 (fun _ _ h => h)
  | cool cd =>
    have h1 := stepCD_hslot s cd
    simp only [stepLP]; split
    · rename_i s' evs heq; simp only [heq] at h1; exact plain _ _ _ h1 (fun _ _ h => h)
    · rename_i s' cd' evs hne heq; simp only [heq] at h1; exact plain _ _ _ h1 (fun _ _ h => h)
  | a1 => simp only [stepLP]; split <;> exact plain _ _ _ (fun _ => by simp) (fun _ _ h => h)
  | nfDbg p =>
    simp only [stepLP]; split
    · exact plain _ _ _ (fun _ => by simp) (fun _ _ h => h)
    · exact plain _ _ _ (fun _ => by unfold dbgInUse; split <;> simp) (fun _ _ h => h)
  | probe p i0 => simp only [stepLP]; (repeat' split) <;> exact plain _ _ _ (fun _ => rfl) (fun _ _ h => h)
  | pswap p idx => simp only [stepLP]; exact plain _ _ _ (fun _ => by split <;> hslot_frame) (fun _ _ h => h)
  | a3 p idx => simp only [stepLP]; (repeat' split) <;> exact plain _ _ _ (fun _ => by simp) (fun _ _ h => h)
  | a4 p idx =>
    simp only [stepLP]; split
    · exact plain _ _ _ (fun _ => by hslot_frame) (fun _ _ h => h)
    · split <;> exact plain _ _ _ (fun _ => rfl) (fun _ _ h => h)
  | a4dec p => simp only [stepLP]; exact plain _ _ _ (fun _ => by simp) (fun _ _ h => h)
  | nhDbg =>
    simp only [stepLP]; split
    · exact plain _ _ _ (fun _ => by simp) (fun _ _ h => h)
    · split <;> exact plain _ _ _ (fun _ => by unfold dbgInUse; split <;> simp) (fun _ _ h => h)
  | f1 => simp only [stepLP]; exact plain _ _ _ (fun _ => by hslot_frame) (fun _ _ h => h)
  | f2 g => simp only [stepLP]; exact plain _ _ _ (fun _ => by split <;> hslot_frame) (fun _ _ h => h)
  | f3 g => simp only [stepLP]; split <;> exact plain _ _ _ (fun _ => by simp) (fun _ _ h => h)
  | chDbg g cand =>
    simp only [stepLP]; split
    · exact plain _ _ _ (fun _ => by simp) (fun _ _ h => h)
    · exact plain _ _ _ (fun _ => by unfold dbgInUse; split <;> simp) (fun _ _ h => h)
  | f4 g cand =>
    obtain ⟨n0, hn0⟩ := Option.isSome_iff_exists.mp (hset rfl)
    have e : l.node.getD 0 = n0 := by rw [hn0]; rfl
    intro n a h
    simp only [stepLP, e] at h ⊢
    have hnodes : ∀ x : Shared, x.nodes = (s.setNode n0 fun nd => { nd with hslot := .ptr cand }).nodes →
        (x.nodes n).hslot = .ptr a → ((s.nodes n).hslot = .ptr a ∧ (False → True)) ∨ (l.node = some n ∧ cand = a) := by
      intro x hx hh
      rw [hx] at hh
      by_cases hn : n = n0
      · subst hn
        simp only [setNode_nodes_same, Val.ptr.injEq] at hh
        exact Or.inr ⟨hn0, hh⟩
      · simp only [setNode_nodes_other _ _ _ _ hn] at hh
        exact Or.inl ⟨hh, fun f => f.elim⟩
    have := hnodes _ (by split <;> simp) h
    rcases this with ⟨h1, _⟩ | h2
    · exact Or.inl ⟨h1, fun hb' => by simp [LP.hholds] at hb'⟩
    · exact Or.inr (by simpa [LP.hholds] using h2)
  | f5 g cand =>
    simp only [stepLP] at hf ⊢
    split
    · split <;> exact HKeep.same (fun _ => by hslot_frame) (fun n a h => h)
    · rename_i hx
      simp only [hx, ↓reduceIte] at hf
      split
      · exact HKeep.same (fun _ => by hslot_frame) (fun n a h => h)
      · rename_i hy
        split at hf
        · rename_i j heq; exact absurd heq (hy j)
        · exact absurd hf (setFault_ne_none _ _)
  | fokInc cand => simp only [stepLP]; exact HKeep.same (fun _ => by simp) (fun n a h => h)
  | fokPay cand =>
    obtain ⟨n0, hn0⟩ := Option.isSome_iff_exists.mp (hset rfl)
    have e : l.node.getD 0 = n0 := by rw [hn0]; rfl
    intro n a h
    simp only [stepLP, e] at h ⊢
    split at h
    · rename_i hc
      simp only [hc, ↓reduceIte]
      by_cases hn : n = n0
      · subst hn; simp at h
      · refine Or.inl ⟨by simpa [hn] using h, fun hb' => ?_⟩
        simp only [LP.hholds, hn0, Option.some.injEq] at hb'; exact absurd hb'.1.symm hn
    · rename_i hc
      refine Or.inl ⟨h, fun hb' => ?_⟩
      simp only [LP.hholds, hn0, Option.some.injEq] at hb'
      obtain ⟨rfl, rfl⟩ := hb'
      exact absurd h hc
  | fokDec cand => simp only [stepLP]; exact plain _ _ _ (fun _ => by simp) (fun _ _ h => h)
  | fr1 cand j =>
    simp only [stepLP] at hf ⊢; split
    · exact HKeep.same (fun _ => rfl) (fun n a h => h)
    · rename_i hr; simp only [hr] at hf; exact absurd hf (setFault_ne_none _ _)
  | fr2 cand j r => simp only [stepLP]; exact HKeep.same (fun _ => by hslot_frame) (fun n a h => h)
  | frPay cand r =>
    obtain ⟨n0, hn0⟩ := Option.isSome_iff_exists.mp (hset rfl)
    have e : l.node.getD 0 = n0 := by rw [hn0]; rfl
    intro n a h
    simp only [stepLP, e] at h ⊢
    split at h
    · rename_i hc
      simp only [hc, ↓reduceIte]
      by_cases hn : n = n0
      · subst hn; simp at h
      · refine Or.inl ⟨by simpa [hn] using h, fun hb' => ?_⟩
        simp only [LP.hholds, hn0, Option.some.injEq] at hb'; exact absurd hb'.1.symm hn
    · rename_i hc
      refine Or.inl ⟨h, fun hb' => ?_⟩
      simp only [LP.hholds, hn0, Option.some.injEq] at hb'
      obtain ⟨rfl, rfl⟩ := hb'
      exact absurd h hc
  | frDec cand r => simp only [stepLP]; exact plain _ _ _ (fun _ => by simp) (fun _ _ h => h)
  | done p d => simp only [stepLP]; exact HKeep.same (fun _ => rfl) (fun n a h => h)

theorem LP.done_hholds (p : Nat) (d : Option (Nat × Nat)) (l : Locals) (n a : Nat) : ¬ (LP.done p d).hholds n a l := fun h => h

theorem stepPP_hkeep (cfg : Cfg) (p c : Nat) (s : Shared) (l : Locals) (b : Bool) (pp : PP)
    (hb : Beyond s) (hk : pp.okN s l) (hf : (stepPP cfg p c s l b pp).1.fault = none) :
    HKeep s (stepPP cfg p c s l b pp).1 (fun n a => pp.hholds n a l)
      (fun n a => (stepPP cfg p c s l b pp).2.2.1.hholds n a (stepPP cfg p c s l b pp).2.1) := by
  have nh : ∀ (pp0 : PP), (∀ x ld, pp0 ≠ .hload x ld) → ∀ n a, ¬ pp0.hholds n a l := by
    intro pp0 h1 n a hh
    cases pp0 <;> first | exact hh | exact absurd rfl (h1 _ _)
  cases pp with
  | hload x ld =>
    have h1 := stepLP_hkeep cfg c s l b ld hb hk.2.1
    simp only [stepPP] at hf ⊢
    split
    · rename_i s' l' r d evs heq
      simp only [heq] at h1 hf
      exact (h1 hf).mono (fun _ _ h => h) (fun n a h => h.elim)
    · rename_i s' l' ld' evs hne heq
      simp only [heq] at h1 hf
      exact (h1 hf).mono (fun _ _ h => h) (fun _ _ h => h)
  | hinto x r gi =>
    have h1 := stepGI_hslot s gi
    simp only [stepPP]
    split
    · rename_i s' evs heq; simp only [heq] at h1; exact HKeep.plain h1 (nh _ (by simp))
    · rename_i s' gi' evs hne heq; simp only [heq] at h1; exact HKeep.plain h1 (nh _ (by simp))
  | get ng =>
    have h1 := fun n => (stepNG_slots s b ng hb n).2
    simp only [stepPP]; split
    · rename_i s' n evs heq; simp only [heq] at h1; exact HKeep.plain h1 (nh _ (by simp))
    · rename_i s' ng' evs hne heq; simp only [heq] at h1; exact HKeep.plain h1 (nh _ (by simp))
  | slot n0 j =>
    simp only [stepPP]
    split
    · split
      · split <;> exact HKeep.plain (fun _ => by hslot_frame) (nh _ (by simp))
      · exact HKeep.plain (fun _ => rfl) (nh _ (by simp))
    · split
      · split <;> exact HKeep.clear n0 (nh _ (by simp))
      · exact HKeep.plain (fun _ => rfl) (nh _ (by simp))
  | start =>
    simp only [stepPP]; (repeat' split) <;> exact HKeep.plain (fun _ => rfl) (nh _ (by simp))
  | inc => simp only [stepPP]; exact HKeep.plain (fun _ => by simp) (nh _ (by simp))
  | trav => simp only [stepPP]; split <;> exact HKeep.plain (fun _ => rfl) (nh _ (by simp))
  | res n0 =>
    simp only [stepPP]; split <;> exact HKeep.plain (fun _ => by hslot_frame) (nh _ (by simp))
  | hDbg0 x =>
    simp only [stepPP]; exact HKeep.plain (fun _ => by unfold dbgInUse; split <;> simp) (nh _ (by simp))
  | hDbg1 x => simp only [stepPP]; exact HKeep.plain (fun _ => by split <;> simp) (nh _ (by simp))
  | h1 x => simp only [stepPP]; exact HKeep.plain (fun _ => rfl) (nh _ (by simp))
  | h2 x =>
    simp only [stepPP]
    by_cases ho : x.own = x.who
    · simp only [ho, ↓reduceIte]
      (repeat' split) <;> exact HKeep.plain (fun _ => by simp) (nh _ (by simp))
    · simp only [ho, ↓reduceIte]
      (repeat' split) <;> exact HKeep.plain (fun _ => rfl) (nh _ (by simp))
  | h3 x => simp only [stepPP]; split <;> exact HKeep.plain (fun _ => rfl) (nh _ (by simp))
  | hres x => simp only [stepPP]; exact HKeep.plain (fun _ => by hslot_frame) (nh _ (by simp))
  | h4 x r => simp only [stepPP]; exact HKeep.plain (fun _ => rfl) (nh _ (by simp))
  | h5 x r t' => simp only [stepPP]; exact HKeep.plain (fun _ => rfl) (nh _ (by simp))
  | h6 x r t' m => simp only [stepPP]; exact HKeep.plain (fun _ => by hslot_frame) (nh _ (by simp))
  | h7 x r t' m =>
    simp only [stepPP]; split
    · exact HKeep.plain (fun _ => by hslot_frame) (nh _ (by simp))
    · split <;> exact HKeep.plain (fun _ => rfl) (nh _ (by simp))
  | h8 x t' => simp only [stepPP]; exact HKeep.plain (fun _ => by hslot_frame) (nh _ (by simp))
  | hdrop x r => simp only [stepPP]; exact HKeep.plain (fun _ => by simp) (nh _ (by simp))
  | hend x => simp only [stepPP]; split <;> exact HKeep.plain (fun _ => rfl) (nh _ (by simp))
  | hrel x => simp only [stepPP]; exact HKeep.plain (fun _ => by hslot_frame) (nh _ (by simp))
  | slotInc n0 j => simp only [stepPP]; exact HKeep.plain (fun _ => by simp) (nh _ (by simp))
  | rel n0 => simp only [stepPP]; split <;> exact HKeep.plain (fun _ => by hslot_frame) (nh _ (by simp))
  | fin => simp only [stepPP]; split <;> exact HKeep.plain (fun _ => rfl) (nh _ (by simp))
  | dec => simp only [stepPP]; exact HKeep.plain (fun _ => by simp) (nh _ (by simp))
  | done => simp only [stepPP]; exact HKeep.plain (fun _ => rfl) (nh _ (by simp))

theorem stepCP_hkeep (cfg : Cfg) (c cur new : Nat) (s : Shared) (l : Locals) (b : Bool) (cp : CP)
    (hb : Beyond s) (hk : cp.okN s l) (hf : (stepCP cfg c cur new s l b cp).1.fault = none) :
    HKeep s (stepCP cfg c cur new s l b cp).1 (fun n a => cp.hholds n a l)
      (fun n a => (stepCP cfg c cur new s l b cp).2.2.1.hholds n a (stepCP cfg c cur new s l b cp).2.1) := by
  cases cp with
  | load ld =>
    have h1 := stepLP_hkeep cfg c s l b ld hb hk.2.1
    simp only [stepCP] at hf ⊢
    split
    · rename_i s' l' p d evs heq
      simp only [heq] at h1 hf
      have hf' : s'.fault = none := by (repeat' split at hf) <;> exact hf
      exact (h1 hf').mono (fun _ _ h => h) (fun n a h => h.elim)
    · rename_i s' l' ld' evs hne heq
      simp only [heq] at h1 hf
      exact (h1 hf).mono (fun _ _ h => h) (fun _ _ h => h)
  | dropNew old =>
    simp only [stepCP]; exact HKeep.plain (fun _ => by simp) (fun _ _ h => h)
  | cx old =>
    simp only [stepCP]
    (repeat' split) <;> exact HKeep.plain (fun _ => by simp) (fun _ _ h => h)
  | pay old pp =>
    have h1 := stepPP_hkeep cfg old.ptr c s l b pp hb hk
    simp only [stepCP] at hf ⊢
    split
    · rename_i s' l' evs heq
      simp only [heq] at h1 hf
      have hf' : s'.fault = none := by (repeat' split at hf) <;> exact hf
      exact (h1 hf').mono (fun _ _ h => h) (fun n a h => h.elim)
    · rename_i s' l' pp' evs hne heq
      simp only [heq] at h1 hf
      exact (h1 hf).mono (fun _ _ h => h) (fun _ _ h => h)
  | decOld old =>
    simp only [stepCP]; exact HKeep.plain (fun _ => by simp) (fun _ _ h => h)
  | dropOld gd =>
    have h1 := stepGD_hslot s gd
    simp only [stepCP]
    split
    · rename_i s' evs heq; simp only [heq] at h1; exact HKeep.plain h1 (fun _ _ h => h)
    · rename_i s' gd' evs hne heq; simp only [heq] at h1; exact HKeep.plain h1 (fun _ _ h => h)
  | done old => simp only [stepCP]; exact HKeep.plain (fun _ => rfl) (fun _ _ h => h)

theorem stepRP_hkeep (cfg : Cfg) (c : Nat) (s : Shared) (l : Locals) (b : Bool) (tries : Nat) (rp : RP)
    (hb : Beyond s) (hk : rp.okN s l) (hf : (stepRP cfg c s l b tries rp).1.fault = none) :
    HKeep s (stepRP cfg c s l b tries rp).1 (fun n a => rp.hholds n a l)
      (fun n a => (stepRP cfg c s l b tries rp).2.2.1.hholds n a (stepRP cfg c s l b tries rp).2.1) := by
  cases rp with
  | load ld =>
    have h1 := stepLP_hkeep cfg c s l b ld hb hk.2.1
    simp only [stepRP] at hf ⊢
    split
    · rename_i s' l' p d evs heq
      simp only [heq] at h1 hf
      exact (h1 hf).mono (fun _ _ h => h) (fun n a h => h.elim)
    · rename_i s' l' ld' evs hne heq
      simp only [heq] at h1 hf
      exact (h1 hf).mono (fun _ _ h => h) (fun _ _ h => h)
  | attempt cur =>
    simp only [stepRP]
    refine HKeep.plain (fun n => ?_) (fun _ _ h => h)
    simp only [alloc]; split <;> simp
  | cas cur x cp =>
    have h1 := stepCP_hkeep cfg c cur.ptr x s l b cp hb hk
    simp only [stepRP] at hf ⊢
    split
    · rename_i s' l' prev evs heq
      simp only [heq] at h1 hf
      have hf' : s'.fault = none := by (repeat' split at hf) <;> exact hf
      have h2 := h1 hf'
      intro n a hh
      have hh' : (s'.nodes n).hslot = .ptr a := by (repeat' split at hh) <;> exact hh
      rcases h2 n a hh' with ⟨k1, k2⟩ | k2
      · exact Or.inl ⟨k1, fun hb' => (k2 hb').elim⟩
      · exact k2.elim
    · rename_i s' l' cp' evs hne heq
      simp only [heq] at h1 hf
      exact (h1 hf).mono (fun _ _ h => h) (fun _ _ h => h)
  | intoPrev cur prev gi =>
    have h1 := stepGI_hslot s gi
    simp only [stepRP]
    split
    · rename_i s' evs heq; simp only [heq] at h1
      refine HKeep.plain (fun n => ?_) (fun _ _ h => h)
      (repeat' split) <;> exact h1 n
    · rename_i s' gi' evs hne heq; simp only [heq] at h1; exact HKeep.plain h1 (fun _ _ h => h)
  | dropCur res gd =>
    have h1 := stepGD_hslot s gd
    simp only [stepRP]
    split
    · rename_i s' evs heq; simp only [heq] at h1; exact HKeep.plain h1 (fun _ _ h => h)
    · rename_i s' gd' evs hne heq; simp only [heq] at h1; exact HKeep.plain h1 (fun _ _ h => h)
  | dropCurLoop prev gd =>
    have h1 := stepGD_hslot s gd
    simp only [stepRP]
    split
    · rename_i s' evs heq; simp only [heq] at h1; exact HKeep.plain h1 (fun _ _ h => h)
    · rename_i s' gd' evs hne heq; simp only [heq] at h1; exact HKeep.plain h1 (fun _ _ h => h)
  | done r => simp only [stepRP]; exact HKeep.plain (fun _ => rfl) (fun _ _ h => h)

/-! ## Whole operations -/

theorem beginOp_hhold (st : State) (t : Nat) (o : Op) :
    (∀ n, ((beginOp st t o).1.sh.nodes n).hslot = (st.sh.nodes n).hslot) ∧
      ∀ n a, ¬ ((beginOp st t o).1.th t).op.hholds n a ((beginOp st t o).1.th t).loc := by
  cases o <;> simp only [beginOp] <;> (repeat' split) <;>
    first
      | exact ⟨fun _ => rfl, fun n a h => by simpa [OpSt.hholds, PP.hholds, CP.hholds, RP.hholds, LP.hholds] using h⟩
      | exact ⟨fun _ => by simp [alloc], fun n a h => by simpa [OpSt.hholds, PP.hholds, CP.hholds, RP.hholds, LP.hholds] using h⟩
      | (refine ⟨fun _ => ?_, fun n a h => ?_⟩
         · dsimp only; (try split) <;> simp
         · revert h; dsimp only; (try split) <;> simp [OpSt.hholds, PP.hholds, CP.hholds, RP.hholds, LP.hholds])

/-- a step of thread `t` and the helping slots -/
def HHStep (st st' : State) (t : Nat) : Prop :=
  ∀ n a, ((st'.sh.nodes n).hslot = .ptr a) →
    (((st.sh.nodes n).hslot = .ptr a) ∧
      ((st.th t).op.hholds n a (st.th t).loc → (st'.th t).op.hholds n a (st'.th t).loc)) ∨
    (st'.th t).op.hholds n a (st'.th t).loc

theorem HHStep.of_keep {st st' : State} {t : Nat} {P Q : Nat → Nat → Prop}
    (h : HKeep st.sh st'.sh P Q)
    (hp : ∀ n a, (st.th t).op.hholds n a (st.th t).loc → P n a)
    (hq : ∀ n a, Q n a → (st'.th t).op.hholds n a (st'.th t).loc) : HHStep st st' t := by
  intro n a hs
  rcases h n a hs with ⟨h1, h2⟩ | h2
  · exact Or.inl ⟨h1, fun hh => hq _ _ (h2 (hp _ _ hh))⟩
  · exact Or.inr (hq _ _ h2)

theorem HHStep.idle {st st' : State} {t : Nat} (hn : ∀ n, (st'.sh.nodes n).hslot = (st.sh.nodes n).hslot)
    (hnone : ∀ n a, ¬ (st.th t).op.hholds n a (st.th t).loc) : HHStep st st' t :=
  HHStep.of_keep (P := fun _ _ => False) (Q := fun _ _ => False)
    (HKeep.same hn (fun _ _ h => h)) (fun n a h => hnone n a h) (fun _ _ h => h.elim)

theorem microStep_hhold (st : State) (t : Nat) (b : Bool) (hb : Beyond st.sh)
    (hk : (st.th t).op.okN st.sh (st.th t).loc)
    (hf : (microStep st t b).1.sh.fault = none) : HHStep st (microStep st t b).1 t := by
  cases hop : (st.th t).op with
  | finished =>
    simp only [microStep, hop]
    exact fun n a hs => Or.inl ⟨hs, fun h => h⟩
  | idle =>
    simp only [microStep, hop]
    split
    · exact HHStep.idle (fun _ => rfl) (fun n a h => by rw [hop] at h; exact h)
    · rename_i txt o rest hp
      obtain ⟨h1, h2⟩ := beginOp_hhold { st with th := upd st.th t { prog := rest, op := .idle, loc := (st.th t).loc } } t o
      dsimp only at h1 h2 ⊢
      exact HHStep.idle h1 (fun n a h => by rw [hop] at h; exact h)
  | exitCool cd =>
    have h1 := stepCD_hslot st.sh cd
    simp only [microStep, hop]
    split
    · rename_i s' evs heq; simp only [heq] at h1
      exact HHStep.idle h1 (fun n a h => by rw [hop] at h; exact h)
    · rename_i s' cd' evs hne heq; simp only [heq] at h1
      exact HHStep.idle h1 (fun n a h => by rw [hop] at h; exact h)
  | load c g ld =>
    rw [hop] at hk
    have h1 := stepLP_hkeep st.cfg c st.sh (st.th t).loc b ld hb hk.2.1
    simp only [microStep, hop] at hf ⊢
    split
    · rename_i s' l' p d evs heq
      simp only [heq] at h1 hf
      exact HHStep.of_keep (st' := ⟨_, _, _, _⟩) ((h1 hf).mono (fun _ _ h => h) (fun _ _ h => h)) (fun n a h => by rw [hop] at h; exact h) (fun n a h => h.elim)
    · rename_i s' l' ld' evs hne heq
      simp only [heq] at h1 hf
      exact HHStep.of_keep (h1 hf) (fun n a h => by rw [hop] at h; exact h) (fun n a h => by simpa [OpSt.hholds] using h)
  | loadFull c x ld =>
    rw [hop] at hk
    have h1 := stepLP_hkeep st.cfg c st.sh (st.th t).loc b ld hb hk.2.1
    simp only [microStep, hop] at hf ⊢
    split
    · rename_i s' l' p d evs heq
      simp only [heq] at h1 hf
      have hf' : s'.fault = none := by split at hf <;> exact hf
      split
      · exact HHStep.of_keep (st' := ⟨_, _, _, _⟩) ((h1 hf').mono (fun _ _ h => h) (fun _ _ h => h)) (fun n a h => by rw [hop] at h; exact h) (fun n a h => h.elim)
      · exact HHStep.of_keep (h1 hf') (fun n a h => by rw [hop] at h; exact h) (fun n a h => h.elim)
    · rename_i s' l' ld' evs hne heq
      simp only [heq] at h1 hf
      exact HHStep.of_keep (h1 hf) (fun n a h => by rw [hop] at h; exact h) (fun n a h => by simpa [OpSt.hholds] using h)
  | loadFullInto c x r gi =>
    have h1 := stepGI_hslot st.sh gi
    simp only [microStep, hop]
    split
    · rename_i s' evs heq; simp only [heq] at h1
      exact HHStep.idle (fun n => by simp [h1]) (fun n a h => by rw [hop] at h; exact h)
    · rename_i s' gi' evs hne heq; simp only [heq] at h1
      exact HHStep.idle h1 (fun n a h => by rw [hop] at h; exact h)
  | cloneh x y a0 =>
    simp only [microStep, hop]
    exact HHStep.idle (fun n => by simp) (fun n a h => by rw [hop] at h; exact h)
  | droph a0 =>
    simp only [microStep, hop]
    exact HHStep.idle (fun n => by simp) (fun n a h => by rw [hop] at h; exact h)
  | dropg gd =>
    have h1 := stepGD_hslot st.sh gd
    simp only [microStep, hop]
    split
    · rename_i s' evs heq; simp only [heq] at h1
      exact HHStep.idle h1 (fun n a h => by rw [hop] at h; exact h)
    · rename_i s' gd' evs hne heq; simp only [heq] at h1
      exact HHStep.idle h1 (fun n a h => by rw [hop] at h; exact h)
  | ginto x p gi =>
    have h1 := stepGI_hslot st.sh gi
    simp only [microStep, hop]
    split
    · rename_i s' evs heq; simp only [heq] at h1
      exact HHStep.idle (fun n => by simp [h1]) (fun n a h => by rw [hop] at h; exact h)
    · rename_i s' gi' evs hne heq; simp only [heq] at h1
      exact HHStep.idle h1 (fun n a h => by rw [hop] at h; exact h)
  | swapSw c a0 out isStore =>
    simp only [microStep, hop]
    split
    · exact HHStep.idle (fun n => by simp [Shared.writeCell]) (fun n a h => by rw [hop] at h; exact h)
    · exact fun n a hs => Or.inl ⟨hs, fun h => h⟩
  | swapPay c out old isStore pp =>
    rw [hop] at hk
    have h1 := stepPP_hkeep st.cfg old c st.sh (st.th t).loc b pp hb hk
    simp only [microStep, hop] at hf ⊢
    split
    · rename_i s' l' evs heq
      simp only [heq] at h1 hf
      have hf' : s'.fault = none := by (repeat' split at hf) <;> exact hf
      (repeat' split) <;>
        exact HHStep.of_keep (st' := ⟨_, _, _, _⟩) ((h1 hf').mono (fun _ _ h => h) (fun _ _ h => h)) (fun n a h => by rw [hop] at h; exact h) (fun n a h => h.elim)
    · rename_i s' l' pp' evs hne heq
      simp only [heq] at h1 hf
      exact HHStep.of_keep (h1 hf) (fun n a h => by rw [hop] at h; exact h) (fun n a h => by simpa [OpSt.hholds] using h)
  | swapDrop c old =>
    simp only [microStep, hop]
    exact HHStep.idle (fun n => by simp) (fun n a h => by rw [hop] at h; exact h)
  | cas c cur keep curPtr new g cp =>
    rw [hop] at hk
    have h1 := stepCP_hkeep st.cfg c curPtr new st.sh (st.th t).loc b cp hb hk
    simp only [microStep, hop] at hf ⊢
    split
    · rename_i s' l' old evs heq
      simp only [heq] at h1 hf
      have hf' : s'.fault = none := by cases cur <;> cases keep <;> simpa using hf
      have h3 := h1 hf'
      intro n a hs
      have hs' : (s'.nodes n).hslot = .ptr a := by cases cur <;> cases keep <;> simpa using hs
      rcases h3 n a hs' with ⟨k1, k2⟩ | k2
      · refine Or.inl ⟨k1, fun hh => ?_⟩
        rw [hop] at hh; exact (k2 hh).elim
      · exact k2.elim
    · rename_i s' l' cp' evs hne heq
      simp only [heq] at h1 hf
      exact HHStep.of_keep (h1 hf) (fun n a h => by rw [hop] at h; exact h) (fun n a h => by simpa [OpSt.hholds] using h)
  | rcu c out tries rp =>
    rw [hop] at hk
    have h1 := stepRP_hkeep st.cfg c st.sh (st.th t).loc b tries rp hb hk
    simp only [microStep, hop] at hf ⊢
    split
    · rename_i s' l' r tries' evs heq
      simp only [heq] at h1 hf
      exact HHStep.of_keep (st' := ⟨_, _, _, _⟩) ((h1 hf).mono (fun _ _ h => h) (fun _ _ h => h)) (fun n a h => by rw [hop] at h; exact h) (fun n a h => h.elim)
    · rename_i s' l' rp' tries' evs hne heq
      simp only [heq] at h1 hf
      exact HHStep.of_keep (h1 hf) (fun n a h => by rw [hop] at h; exact h) (fun n a h => by simpa [OpSt.hholds] using h)
  | cinto c x p pp =>
    rw [hop] at hk
    have h1 := stepPP_hkeep st.cfg p c st.sh (st.th t).loc b pp hb hk
    simp only [microStep, hop] at hf ⊢
    split
    · rename_i s' l' evs heq
      simp only [heq] at h1 hf
      exact HHStep.of_keep (st' := ⟨_, _, _, _⟩) ((h1 hf).mono (fun _ _ h => h) (fun _ _ h => h)) (fun n a h => by rw [hop] at h; exact h) (fun n a h => h.elim)
    · rename_i s' l' pp' evs hne heq
      simp only [heq] at h1 hf
      exact HHStep.of_keep (h1 hf) (fun n a h => by rw [hop] at h; exact h) (fun n a h => by simpa [OpSt.hholds] using h)
  | dropc c p pp =>
    rw [hop] at hk
    have h1 := stepPP_hkeep st.cfg p c st.sh (st.th t).loc b pp hb hk
    simp only [microStep, hop] at hf ⊢
    split
    · rename_i s' l' evs heq
      simp only [heq] at h1 hf
      have hf' : s'.fault = none := by (repeat' split at hf) <;> exact hf
      (repeat' split) <;>
        exact HHStep.of_keep (st' := ⟨_, _, _, _⟩) ((h1 hf').mono (fun _ _ h => h) (fun _ _ h => h)) (fun n a h => by rw [hop] at h; exact h) (fun n a h => h.elim)
    · rename_i s' l' pp' evs hne heq
      simp only [heq] at h1 hf
      exact HHStep.of_keep (h1 hf) (fun n a h => by rw [hop] at h; exact h) (fun n a h => by simpa [OpSt.hholds] using h)
  | dropcDec c p =>
    simp only [microStep, hop]
    exact HHStep.idle (fun n => by simp) (fun n a h => by rw [hop] at h; exact h)

/-! ## The invariant -/

/-- **every occupied helping slot has a holder**: the owner's load, between `confirm` and `pay` -/
def HHoldInv (st : State) : Prop :=
  ∀ n a, (st.sh.nodes n).hslot = .ptr a → ∃ t, (st.th t).op.hholds n a (st.th t).loc

theorem HHoldInv.initial (cfg : Cfg) (progs : Nat → List (String × Op)) : HHoldInv (State.initial cfg progs) := by
  intro n a h; cases h

theorem HHoldInv.step {st : State} (h : HHoldInv st) (hn : NodeInv st) (t : Nat) (b : Bool)
    (hf : (microStep st t b).1.sh.fault = none) : HHoldInv (microStep st t b).1 := by
  have hs := microStep_hhold st t b hn.nodes.slots (hn.th t) hf
  have hoth := (microStep_own st t b).2
  intro n a hslot
  rcases hs n a hslot with ⟨h1, h2⟩ | h2
  · obtain ⟨u, hu⟩ := h n a h1
    by_cases hut : u = t
    · subst hut; exact ⟨u, h2 hu⟩
    · exact ⟨u, by rw [hoth u hut]; exact hu⟩
  · exact ⟨t, h2⟩

theorem HHoldInv.run {st : State} (h : HHoldInv st) (hn : NodeInv st) (sched : List (Nat × Bool))
    (hf : (run st sched).sh.fault = none) : HHoldInv (run st sched) := by
  induction sched generalizing st with
  | nil => exact h
  | cons x rest ih =>
    obtain ⟨t, b⟩ := x
    have hf1 : (microStep st t b).1.sh.fault = none := run_fault_mono _ rest hf
    exact ih (h.step hn t b hf1) (hn.step t b) hf

/-- **the helping-slot invariant holds in every reachable state without a fault** -/
theorem HHoldInv.reachable {st : State} (h : Reachable st) (hf : st.sh.fault = none) : HHoldInv st := by
  obtain ⟨cfg, progs, sched, rfl⟩ := h
  exact (HHoldInv.initial cfg progs).run (NodeInv.initial cfg progs) sched hf

theorem HHoldInv.rest {st : State} (h : HHoldInv st)
    (hidle : ∀ t, (st.th t).op = .idle ∨ (st.th t).op = .finished) (n a : Nat) :
    (st.sh.nodes n).hslot ≠ .ptr a := by
  intro hs
  obtain ⟨t, ht⟩ := h n a hs
  rcases hidle t with e | e <;> (rw [e] at ht; exact ht)

theorem PP.hholds_lp {pp : PP} {n a : Nat} {l : Locals} (h : pp.hholds n a l) : ∃ ld, pp.lp? = some ld ∧ ld.hholds n a l := by
  cases pp <;> first | exact h.elim | exact ⟨_, rfl, h⟩
theorem CP.hholds_lp {cp : CP} {n a : Nat} {l : Locals} (h : cp.hholds n a l) : ∃ ld, cp.lp? = some ld ∧ ld.hholds n a l := by
  cases cp <;> first | exact h.elim | exact ⟨_, rfl, h⟩ | exact PP.hholds_lp h
theorem RP.hholds_lp {rp : RP} {n a : Nat} {l : Locals} (h : rp.hholds n a l) : ∃ ld, rp.lp? = some ld ∧ ld.hholds n a l := by
  cases rp <;> first | exact h.elim | exact ⟨_, rfl, h⟩ | exact CP.hholds_lp h
theorem OpSt.hholds_lp {op : OpSt} {n a : Nat} {l : Locals} (h : op.hholds n a l) : ∃ ld, op.lp? = some ld ∧ ld.hholds n a l := by
  cases op <;> first | exact h.elim | exact ⟨_, rfl, h⟩ | exact PP.hholds_lp h | exact CP.hholds_lp h | exact RP.hholds_lp h

/-- the holder of a helping slot owns the node -/
theorem owns_of_hholds (th : Thread) (n a : Nat) (h : th.op.hholds n a th.loc) : ownsT th = some n := by
  obtain ⟨ld, h1, h2⟩ := OpSt.hholds_lp h
  rw [ownsT_of_lp th ld h1]
  cases ld <;> first | exact h2.elim | exact h2.1

/-- **C13 `confirm: slot not NONE`, the value part**: when a thread that owns node `n` is not the
    holder of its helping slot (in particular at `LP.f4`, about to publish into it), the slot names
    no value — the holder would be another thread owning the same node. -/
theorem hslot_free_unless_held {st : State} (h : HHoldInv st) (ho : OwnInv st) (t n : Nat)
    (hown : ownsT (st.th t) = some n) (a : Nat) (hnot : ¬ (st.th t).op.hholds n a (st.th t).loc) :
    (st.sh.nodes n).hslot ≠ .ptr a := by
  intro hs
  obtain ⟨u, hu⟩ := h n a hs
  by_cases hut : u = t
  · subst hut; exact hnot hu
  · exact ho.excl u t n hut (owns_of_hholds _ n a hu) hown

end M
