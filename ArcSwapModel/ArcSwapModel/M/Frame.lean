import ArcSwapModel.M.Ops

/-!
# Frame lemmas: which fields of the shared state the primitive updates leave alone
-/

namespace M

@[simp] theorem setFault_heap (s : Shared) (f : Fault) : (s.setFault f).heap = s.heap := by
  unfold Shared.setFault; split <;> rfl
@[simp] theorem setFault_cells (s : Shared) (f : Fault) : (s.setFault f).cells = s.cells := by
  unfold Shared.setFault; split <;> rfl
@[simp] theorem setFault_nodes (s : Shared) (f : Fault) : (s.setFault f).nodes = s.nodes := by
  unfold Shared.setFault; split <;> rfl
@[simp] theorem setFault_nNodes (s : Shared) (f : Fault) : (s.setFault f).nNodes = s.nNodes := by
  unfold Shared.setFault; split <;> rfl
@[simp] theorem setFault_head (s : Shared) (f : Fault) : (s.setFault f).head = s.head := by
  unfold Shared.setFault; split <;> rfl
@[simp] theorem setFault_hreg (s : Shared) (f : Fault) : (s.setFault f).hreg = s.hreg := by
  unfold Shared.setFault; split <;> rfl
@[simp] theorem setFault_greg (s : Shared) (f : Fault) : (s.setFault f).greg = s.greg := by
  unfold Shared.setFault; split <;> rfl
@[simp] theorem setFault_busy (s : Shared) (f : Fault) : (s.setFault f).busy = s.busy := by
  unfold Shared.setFault; split <;> rfl
@[simp] theorem setFault_hist (s : Shared) (f : Fault) : (s.setFault f).hist = s.hist := by
  unfold Shared.setFault; split <;> rfl
@[simp] theorem setFault_nextId (s : Shared) (f : Fault) : (s.setFault f).nextId = s.nextId := by
  unfold Shared.setFault; split <;> rfl
theorem setFault_fault_of_none (s : Shared) (f : Fault) (h : s.fault = none) : (s.setFault f).fault = some f := by
  unfold Shared.setFault; simp [h]
theorem setFault_fault_of_some (s : Shared) (f g : Fault) (h : s.fault = some g) : (s.setFault f).fault = some g := by
  unfold Shared.setFault; simp [h]

@[simp] theorem setNode_heap (s : Shared) (n : Nat) (f : Node → Node) : (s.setNode n f).heap = s.heap := rfl
@[simp] theorem setNode_cells (s : Shared) (n : Nat) (f : Node → Node) : (s.setNode n f).cells = s.cells := rfl
@[simp] theorem setNode_nNodes (s : Shared) (n : Nat) (f : Node → Node) : (s.setNode n f).nNodes = s.nNodes := rfl
@[simp] theorem setNode_head (s : Shared) (n : Nat) (f : Node → Node) : (s.setNode n f).head = s.head := rfl
@[simp] theorem setNode_hreg (s : Shared) (n : Nat) (f : Node → Node) : (s.setNode n f).hreg = s.hreg := rfl
@[simp] theorem setNode_greg (s : Shared) (n : Nat) (f : Node → Node) : (s.setNode n f).greg = s.greg := rfl
@[simp] theorem setNode_busy (s : Shared) (n : Nat) (f : Node → Node) : (s.setNode n f).busy = s.busy := rfl
@[simp] theorem setNode_hist (s : Shared) (n : Nat) (f : Node → Node) : (s.setNode n f).hist = s.hist := rfl
@[simp] theorem setNode_fault (s : Shared) (n : Nat) (f : Node → Node) : (s.setNode n f).fault = s.fault := rfl
@[simp] theorem setNode_nextId (s : Shared) (n : Nat) (f : Node → Node) : (s.setNode n f).nextId = s.nextId := rfl
@[simp] theorem setNode_nodes_same (s : Shared) (n : Nat) (f : Node → Node) :
    (s.setNode n f).nodes n = f (s.nodes n) := by simp [Shared.setNode]
@[simp] theorem setNode_nodes_other (s : Shared) (n m : Nat) (f : Node → Node) (h : m ≠ n) :
    (s.setNode n f).nodes m = s.nodes m := by simp [Shared.setNode, h]

/-! `incObj` / `decObj` touch only the heap (and the fault flag) -/

@[simp] theorem incObj_cells (s : Shared) (a : Nat) : (incObj s a).1.cells = s.cells := by
  simp only [incObj]; split <;> simp
@[simp] theorem incObj_nodes (s : Shared) (a : Nat) : (incObj s a).1.nodes = s.nodes := by
  simp only [incObj]; split <;> simp
@[simp] theorem incObj_nNodes (s : Shared) (a : Nat) : (incObj s a).1.nNodes = s.nNodes := by
  simp only [incObj]; split <;> simp
@[simp] theorem incObj_head (s : Shared) (a : Nat) : (incObj s a).1.head = s.head := by
  simp only [incObj]; split <;> simp
@[simp] theorem incObj_hreg (s : Shared) (a : Nat) : (incObj s a).1.hreg = s.hreg := by
  simp only [incObj]; split <;> simp
@[simp] theorem incObj_greg (s : Shared) (a : Nat) : (incObj s a).1.greg = s.greg := by
  simp only [incObj]; split <;> simp
@[simp] theorem incObj_busy (s : Shared) (a : Nat) : (incObj s a).1.busy = s.busy := by
  simp only [incObj]; split <;> simp
@[simp] theorem incObj_hist (s : Shared) (a : Nat) : (incObj s a).1.hist = s.hist := by
  simp only [incObj]; split <;> simp
@[simp] theorem incObj_nextId (s : Shared) (a : Nat) : (incObj s a).1.nextId = s.nextId := by
  simp only [incObj]; split <;> simp

@[simp] theorem decObj_cells (s : Shared) (a : Nat) : (decObj s a).1.cells = s.cells := by
  simp only [decObj]; (repeat' split) <;> simp
@[simp] theorem decObj_nodes (s : Shared) (a : Nat) : (decObj s a).1.nodes = s.nodes := by
  simp only [decObj]; (repeat' split) <;> simp
@[simp] theorem decObj_nNodes (s : Shared) (a : Nat) : (decObj s a).1.nNodes = s.nNodes := by
  simp only [decObj]; (repeat' split) <;> simp
@[simp] theorem decObj_head (s : Shared) (a : Nat) : (decObj s a).1.head = s.head := by
  simp only [decObj]; (repeat' split) <;> simp
@[simp] theorem decObj_hreg (s : Shared) (a : Nat) : (decObj s a).1.hreg = s.hreg := by
  simp only [decObj]; (repeat' split) <;> simp
@[simp] theorem decObj_greg (s : Shared) (a : Nat) : (decObj s a).1.greg = s.greg := by
  simp only [decObj]; (repeat' split) <;> simp
@[simp] theorem decObj_busy (s : Shared) (a : Nat) : (decObj s a).1.busy = s.busy := by
  simp only [decObj]; (repeat' split) <;> simp
@[simp] theorem decObj_hist (s : Shared) (a : Nat) : (decObj s a).1.hist = s.hist := by
  simp only [decObj]; (repeat' split) <;> simp
@[simp] theorem decObj_nextId (s : Shared) (a : Nat) : (decObj s a).1.nextId = s.nextId := by
  simp only [decObj]; (repeat' split) <;> simp

/-- `stepGD` and `stepGI` (guard drop / promotion) never touch a cell -/
@[simp] theorem stepGD_cells (s : Shared) (gd : GD) : (stepGD s gd).1.cells = s.cells := by
  cases gd <;> simp only [stepGD] <;> (try split) <;> simp
@[simp] theorem stepGI_cells (s : Shared) (gi : GI) : (stepGI s gi).1.cells = s.cells := by
  cases gi <;> simp only [stepGI] <;> (try split) <;> simp

end M

namespace M

/-! ## The sub-machines never write a storage cell or the write history (only `swap`'s exchange,
`compare_and_swap`'s successful exchange and container creation/consumption do) -/

theorem stepNG_frame (s : Shared) (b : Bool) (ng : NG) :
    (stepNG s b ng).1.cells = s.cells ∧ (stepNG s b ng).1.hist = s.hist ∧ (stepNG s b ng).1.heap = s.heap := by
  cases ng <;> simp only [stepNG] <;> (repeat' split) <;> simp [Shared.setNode]

theorem stepCD_frame (s : Shared) (cd : CD) :
    (stepCD s cd).1.cells = s.cells ∧ (stepCD s cd).1.hist = s.hist ∧ (stepCD s cd).1.heap = s.heap := by
  cases cd <;> simp only [stepCD] <;> (repeat' split) <;> simp

theorem stepGD_frame (s : Shared) (gd : GD) :
    (stepGD s gd).1.cells = s.cells ∧ (stepGD s gd).1.hist = s.hist := by
  cases gd <;> simp only [stepGD] <;> (repeat' split) <;> simp

theorem stepGI_frame (s : Shared) (gi : GI) :
    (stepGI s gi).1.cells = s.cells ∧ (stepGI s gi).1.hist = s.hist := by
  cases gi <;> simp only [stepGI] <;> (repeat' split) <;> simp

theorem stepLP_frame (cfg : Cfg) (c : Nat) (s : Shared) (l : Locals) (b : Bool) (lp : LP) :
    (stepLP cfg c s l b lp).1.cells = s.cells ∧ (stepLP cfg c s l b lp).1.hist = s.hist := by
  cases lp with
  | get ng =>
    have := stepNG_frame s b ng
    simp only [stepLP]; split <;> simp_all
  | reget ng =>
    have := stepNG_frame s b ng
    simp only [stepLP]; split <;> simp_all
  | cool cd =>
    have := stepCD_frame s cd
    simp only [stepLP]; split <;> simp_all
  | _ => simp only [stepLP] <;> (repeat' split) <;> simp [dbgInUse] <;> (repeat' split) <;> simp

theorem stepPP_frame (cfg : Cfg) (p c : Nat) (s : Shared) (l : Locals) (b : Bool) (pp : PP) :
    (stepPP cfg p c s l b pp).1.cells = s.cells ∧ (stepPP cfg p c s l b pp).1.hist = s.hist := by
  cases pp with
  | get ng =>
    have := stepNG_frame s b ng
    simp only [stepPP]; split <;> simp_all
  | hload h ld =>
    have := stepLP_frame cfg c s l b ld
    simp only [stepPP]; split <;> simp_all
  | hinto h r gi =>
    have := stepGI_frame s gi
    simp only [stepPP]; split <;> simp_all
  | _ => simp only [stepPP] <;> (repeat' split) <;> simp [dbgInUse] <;> (repeat' split) <;> simp

end M

namespace M

/-- `Node::get` raises no fault — except the assertion at the end of `check_cooldown`, when the
    node it held for the check is not in the checking state any more (never, in a reachable state:
    `CheckInv`) -/
theorem stepNG_fault (s : Shared) (b : Bool) (ng : NG) :
    (stepNG s b ng).1.fault = s.fault ∨
      ((stepNG s b ng).1.fault = (s.setFault chkAssert).fault ∧
        ∃ n idle, ng = .cc2 n idle ∧ (s.nodes n).inUse ≠ Consts.nodeChecking) := by
  cases ng with
  | cc2 n idle =>
    simp only [stepNG]; split
    · left; simp [Shared.setNode]
    · rename_i h; right; exact ⟨rfl, n, idle, rfl, h⟩
  | _ => left; simp only [stepNG] <;> (repeat' split) <;> simp [Shared.setNode]

theorem stepCD_fault (s : Shared) (cd : CD) (hf : s.fault = none) :
    (stepCD s cd).1.fault = none ∨
    (stepCD s cd).1.fault = some (.panic "start_cooldown: assert_eq!(NODE_USED, in_use.swap(..))") := by
  cases cd <;> simp only [stepCD] <;> (try (left; simpa using hf))
  split
  · left; simpa using hf
  · right; rw [setFault_fault_of_none _ _ (by simpa using hf)]

end M

namespace M

theorem setNode_fast (s : Shared) (n m : Nat) (f : Node → Node) (hf : ∀ nd, (f nd).fast = nd.fast) :
    ((s.setNode n f).nodes m).fast = (s.nodes m).fast := by
  by_cases hm : m = n
  · subst hm; simp [hf]
  · simp [hm]
theorem setNode_hslot (s : Shared) (n m : Nat) (f : Node → Node) (hf : ∀ nd, (f nd).hslot = nd.hslot) :
    ((s.setNode n f).nodes m).hslot = (s.nodes m).hslot := by
  by_cases hm : m = n
  · subst hm; simp [hf]
  · simp [hm]
theorem setNode_control (s : Shared) (n m : Nat) (f : Node → Node) (hf : ∀ nd, (f nd).control = nd.control) :
    ((s.setNode n f).nodes m).control = (s.nodes m).control := by
  by_cases hm : m = n
  · subst hm; simp [hf]
  · simp [hm]
theorem setNode_envelope (s : Shared) (n m : Nat) (f : Node → Node) (hf : ∀ nd, (f nd).envelope = nd.envelope) :
    ((s.setNode n f).nodes m).envelope = (s.nodes m).envelope := by
  by_cases hm : m = n
  · subst hm; simp [hf]
  · simp [hm]

theorem ite_setFault_nodes2 (x : Shared) (c : Prop) [Decidable c] (f : Fault) :
    (if c then x else x.setFault f).nodes = x.nodes := by split <;> simp

end M
