import ArcSwapModel.M.Ops

/-!
# Line-protocol driver for `M`

Reads the execution file written by the harness (programs + the schedule actually taken on the
real crate), runs `M` on the same programs and schedule, and prints its trace in the same
canonical format, so the two streams can be diffed.
-/

namespace M

def Val.render : Val → String
  | .none => "NONE"
  | .ptr 0 => "null"
  | .ptr a => s!"p{a}"

def Ctl.render : Ctl → String
  | .idle => "idle"
  | .gen g => s!"gen{g}"
  | .env j => s!"env{j}"

def TV.render : TV → String
  | .v x => x.render
  | .c x => x.render
  | .cellRef (some k) => s!"c{k}"
  | .cellRef none => "0"
  | .envRef j => s!"e{j}"
  | .nat n => toString n
  | .node (some n) => s!"n{n}"
  | .node none => "null"

def Loc.render : Loc → String
  | .cell c => s!"c{c}"
  | .head => "head"
  | .fast n i => s!"n{n}.fast{i}"
  | .control n => s!"n{n}.control"
  | .hslot n => s!"n{n}.hslot"
  | .activeAddr n => s!"n{n}.active_addr"
  | .envelope j => s!"e{j}"
  | .spaceOffer n => s!"n{n}.space_offer"
  | .inUse n => s!"n{n}.in_use"
  | .writers n => s!"n{n}.writers"

def Ev.render : Ev → String
  | .load s l x => s!"{s.label} load {l.render} -> {x.render}"
  | .store s l x => s!"{s.label} store {l.render} {x.render}"
  | .swap s l n o => s!"{s.label} swap {l.render} new={n.render} -> {o.render}"
  | .cas s l e n r ok => s!"{s.label} cas {l.render} exp={e.render} new={n.render} -> {r.render} {if ok then "ok" else "fail"}"
  | .fadd s l o => s!"{s.label} fadd {l.render} -> {o}"
  | .fsub s l o => s!"{s.label} fsub {l.render} -> {o}"
  | .inc a o => s!"varc inc p{a} -> {o}"
  | .dec a o f => s!"varc dec p{a} -> {o}{if f then " free" else ""}"
  | .decDead a => s!"varc dec p{a} -> dead"
  | .alloc a id v => s!"varc alloc p{a}#{id} val={v}"
  | .begin_ op => s!"begin {op}"
  | .end_ r => s!"end {r}"
  | .exit => "exit"

/-- a scheduling point of the harness: an atomic access, a count operation, the start of an API
    call, thread exit -/
def Ev.isPoint : Ev → Bool
  | .alloc .. => false
  | .end_ _ => false
  | _ => true

/-- Grant thread `t` one step: its pending point, then its thread-local code up to (not
    including) its next point. -/
def grant (st : State) (t : Nat) (spur : Bool) : State × List Ev :=
  let rec go (fuel : Nat) (st : State) (first : Bool) (acc : List Ev) : State × List Ev :=
    match fuel with
    | 0 => (st, acc)
    | fuel + 1 =>
      let (st', evs) := microStep st t spur
      if evs.any Ev.isPoint then
        if first then go fuel st' false (acc ++ evs) else (st, acc)
      else
        match (st.th t).op, evs with
        | .finished, _ => (st, acc)
        | _, _ => go fuel st' first (acc ++ evs)
  go 64 st true []

/-! ## Parsing -/

def regIdx (s : String) : Option Nat := (s.drop 1).toNat?

def parseOp (s : String) : Option Op :=
  match (s.trimAscii.toString.splitOn " ").filter (· ≠ "") with
  | ["new", h, v] => do pure (.new (← regIdx h) (← v.toNat?))
  | ["nullh", h] => do pure (.nullh (← regIdx h))
  | ["cloneh", h, h2] => do pure (.cloneh (← regIdx h) (← regIdx h2))
  | ["droph", h] => do pure (.droph (← regIdx h))
  | ["mk", c, h] => do pure (.mk (← regIdx c) (← regIdx h))
  | ["load", c, g] => do pure (.load (← regIdx c) (← regIdx g))
  | ["loadfull", c, h] => do pure (.loadfull (← regIdx c) (← regIdx h))
  | ["dropg", g] => do pure (.dropg (← regIdx g))
  | ["ginto", g, h] => do pure (.ginto (← regIdx g) (← regIdx h))
  | ["gderef", g] => do pure (.gderef (← regIdx g))
  | ["store", c, h] => do pure (.store (← regIdx c) (← regIdx h))
  | ["swap", c, h, o] => do pure (.swap (← regIdx c) (← regIdx h) (← regIdx o))
  | ["cas", c, cur, n, g] => do
    let cr ← if cur = "null" then some CurRef.null
             else if cur.startsWith "h" then (regIdx cur).map CurRef.h
             else (regIdx cur).map CurRef.g
    pure (.cas (← regIdx c) cr (← regIdx n) (← regIdx g))
  | ["rcu", c, o] => do pure (.rcu (← regIdx c) (← regIdx o))
  | ["cinto", c, h] => do pure (.cinto (← regIdx c) (← regIdx h))
  | ["dropc", c] => do pure (.dropc (← regIdx c))
  | ["setgen", v] => do pure (.setgen (← v.toNat?))
  | _ => none

def parseOps (s : String) : List (String × Op) :=
  (s.splitOn ";").filterMap fun x =>
    let x := x.trimAscii.toString
    if x = "" then none else (parseOp x).map fun o => (x, o)

structure Exec where
  idx : Nat := 0
  strategy : Nat := 0
  setup : List (String × Op) := []
  threads : List (List (String × Op)) := []
  sched : List (Nat × Bool) := []
  deriving Inhabited

def parseSched (s : String) : List (Nat × Bool) :=
  ((s.splitOn " ").filter (· ≠ "")).filterMap fun x =>
    if x.endsWith "!" then (x.dropEnd 1).toNat?.map (·, true) else x.toNat?.map (·, false)

/-- run the setup (outside the scheduler, no trace) and build the initial state -/
def initState (e : Exec) (W : Nat) : State :=
  let st0 : State := { cfg := { useFast := e.strategy = 0, W := W } }
  let st1 := e.setup.foldl (fun st (p : String × Op) => (beginOp st 1000000 p.2).1) st0
  let rec put (k : Nat) (ts : List (List (String × Op))) (th : Nat → Thread) : Nat → Thread :=
    match ts with
    | [] => th
    | p :: rest => put (k + 1) rest (upd th k { prog := p })
  { st1 with th := put 0 e.threads (fun _ => { op := .finished }) }

def Fault.render : Fault → String
  | .uaf w a => s!"uaf {w} p{a}"
  | .panic s => s!"panic {s}"
  | .debugAssert s => s!"debug-assert {s}"
  | .doubleFree a => s!"double-free p{a}"
  | .stuck w => s!"stuck {w}"

def runExec (e : Exec) (W : Nat) : List String :=
  let st := initState e W
  let (st, lines) := e.sched.foldl (fun (acc : State × List String) (p : Nat × Bool) =>
      let (st, evs) := grant acc.1 p.1 p.2
      (st, acc.2 ++ evs.map (fun ev => s!"{p.1} {ev.render}"))) (st, [])
  match st.sh.fault with
  | some f => lines ++ [s!"fault {f.render}"]
  | none => lines

end M
