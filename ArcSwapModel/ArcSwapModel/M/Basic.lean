import ArcSwapModel.Consts

/-!
# `M`: the concurrent machine — state

One step of `M` is one atomic access of the crate (or one reference-count operation of the
pointee, or the thread-local code between two of them).  Every atomic access of
`src/strategy/hybrid.rs`, `src/debt/{mod,fast,helping,list}.rs` and of `ArcSwapAny`'s write
operations is a program counter here.  Unbounded: threads, nodes, containers, values; freed
addresses are reused.

All maps are total functions with a home-made `upd`; no `Std.HashMap`, so that everything
reduces in the kernel and `simp` can see through updates.
-/

namespace M

/-- Point-wise update of a total function. -/
def upd {α : Type} (f : Nat → α) (i : Nat) (v : α) : Nat → α :=
  fun j => if j = i then v else f j

@[simp] theorem upd_same {α} (f : Nat → α) (i : Nat) (v : α) : upd f i v i = v := by simp [upd]
@[simp] theorem upd_other {α} (f : Nat → α) (i j : Nat) (v : α) (h : j ≠ i) : upd f i v j = f j := by
  simp [upd, h]

/-- Content of a debt slot, of a storage cell or of a hand-over envelope: `none` is `Debt::NONE`,
    `ptr 0` the null pointer, `ptr a` (a ≥ 1) an address of the pointee pool. -/
inductive Val where
  | none
  | ptr (a : Nat)
  deriving DecidableEq, Repr, Inhabited

/-- Content of `control`. -/
inductive Ctl where
  | idle
  | gen (g : Nat)          -- generation `g` (a multiple of 4, below the modulus) tagged GEN_TAG
  | env (j : Nat)          -- pointer to envelope `j` tagged REPLACEMENT_TAG
  deriving DecidableEq, Repr, Inhabited

/-- A pointee: `cnt` is its strong count, `id` the identity (allocation number) of the value
    living at this address now. A dead entry's address may be handed out again. -/
structure Obj where
  live : Bool := false
  id : Nat := 0
  cnt : Nat := 0
  val : Nat := 0
  /-- the pointee's destructor panics (requested by the program) -/
  dropPanics : Bool := false
  deriving DecidableEq, Repr, Inhabited

structure Node where
  fast : Nat → Val := fun _ => .none
  control : Ctl := .idle
  hslot : Val := .none
  /-- cell whose address the reader published (`none`: still the initial 0) -/
  activeAddr : Option Nat := none
  /-- content of the `Handover` cell that physically lives in this node (envelope `j` for node `j`) -/
  envelope : Val := .ptr 0
  /-- which envelope this node currently offers (`none`: the null pointer before `init`) -/
  spaceOffer : Nat := 0
  inUse : Nat := Consts.nodeUsed
  next : Option Nat := none
  writers : Nat := 0
  deriving Inhabited

/-- A guard: the pointer it denotes and, if it borrows, the fast slot holding its debt. -/
structure Guard where
  ptr : Nat
  debt : Option (Nat × Nat)   -- (node, slot index)
  deriving DecidableEq, Repr, Inhabited

/-- What can go wrong; `step` never totalises a bad access away. -/
inductive Fault where
  | uaf (what : String) (a : Nat)
  | panic (site : String)
  | debugAssert (site : String)
  | doubleFree (a : Nat)
  | stuck (why : String)
  deriving DecidableEq, Repr, Inhabited

/-- Global (shared) state. -/
structure Shared where
  heap : Nat → Obj := fun _ => {}
  nextId : Nat := 0
  /-- storage cell of container `c` (`none`: no such container (any more)) -/
  cells : Nat → Option Nat := fun _ => none
  nodes : Nat → Node := fun _ => {}
  /-- node indices handed out so far (a node is named at its first `LIST_HEAD` compare-exchange) -/
  nNodes : Nat := 0
  head : Option Nat := none
  /-- owned handles: `some (some a)` a handle to address `a` (`0` = `None`) -/
  hreg : Nat → Option Nat := fun _ => none
  greg : Nat → Option Guard := fun _ => none
  /-- container → number of threads currently inside an operation on it -/
  busy : Nat → Nat := fun _ => 0
  fault : Option Fault := none
  /-- ghost: per container, the identities installed, in write order (newest first) -/
  hist : Nat → List Nat := fun _ => []
  deriving Inhabited

/-- Thread-local data of `LocalNode`. -/
structure Locals where
  node : Option Nat := none
  offset : Nat := 0
  gen : Nat := 0
  deriving DecidableEq, Repr, Inhabited

def Shared.setFault (s : Shared) (f : Fault) : Shared :=
  match s.fault with
  | some _ => s
  | none => { s with fault := some f }

def Shared.setNode (s : Shared) (n : Nat) (f : Node → Node) : Shared :=
  { s with nodes := upd s.nodes n (f (s.nodes n)) }

/-- identity of the value a pointer denotes (0 for null), for the ghost history and results -/
def Shared.idOf (s : Shared) (a : Nat) : Nat := (s.heap a).id

/-- Lowest free address (≥ 1) below `bound`, else `bound`: the allocator of the harness. -/
def lowestFree (heap : Nat → Obj) (bound : Nat) : Nat :=
  let rec go (k fuel : Nat) : Nat :=
    match fuel with
    | 0 => k
    | fuel + 1 => if (heap k).live then go (k + 1) fuel else k
  go 1 bound

end M
