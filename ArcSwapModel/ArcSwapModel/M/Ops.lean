import ArcSwapModel.M.Machine

/-!
# `M`: API operations, threads, the step function

Programs are part of the state (`Thread.prog`), so "for all programs" and "for all schedules" are
one quantifier: a `Choice` names the thread that moves and whether a `compare_exchange_weak` fails
spuriously.  `microStep` performs one access or one thread-local block.
-/

namespace M

inductive CurRef where
  | h (i : Nat) | g (i : Nat) | null
  deriving DecidableEq, Repr, Inhabited

inductive Op where
  | new (h val : Nat) | nullh (h : Nat) | cloneh (h h2 : Nat) | droph (h : Nat)
  | mk (c h : Nat)
  | load (c g : Nat) | loadfull (c h : Nat) | dropg (g : Nat) | ginto (g h : Nat) | gderef (g : Nat)
  | store (c h : Nat) | swap (c h out : Nat)
  | cas (c : Nat) (cur : CurRef) (new g : Nat)
  | rcu (c out : Nat)
  | cinto (c h : Nat) | dropc (c : Nat)
  | setgen (v : Nat)
  deriving DecidableEq, Repr, Inhabited

/-! ## `compare_and_swap` and `rcu` -/

inductive CP where
  | load (ld : LP)
  | dropNew (old : Guard)
  | cx (old : Guard)
  | pay (old : Guard) (pp : PP)
  | decOld (old : Guard)
  | dropOld (gd : GD)
  | done (old : Guard)
  deriving DecidableEq, Repr, Inhabited

/-- writes to a cell also extend the ghost history -/
def Shared.writeCell (s : Shared) (c p : Nat) : Shared :=
  { s with cells := upd s.cells c (some p), hist := upd s.hist c (s.idOf p :: s.hist c) }

def stepCP (cfg : Cfg) (c cur new : Nat) (s : Shared) (l : Locals) (spur : Bool) :
    CP → Shared × Locals × CP × List Ev
  | .load ld =>
    match stepLP cfg c s l spur ld with
    | (s, l, .done p d, evs) =>
      let old : Guard := { ptr := p, debt := d }
      (s, l, (if p ≠ cur then (if new = 0 then .done old else .dropNew old) else .cx old), evs)
    | (s, l, ld, evs) => (s, l, .load ld, evs)
  | .dropNew old => let (s, evs) := decObj s new; (s, l, .done old, evs)
  | .cx old =>
    match s.cells c with
    | some q =>
      if !spur && q = cur then
        (s.writeCell c new, l, .pay old .start,
          [.cas .casCx (.cell c) (.v (.ptr cur)) (.v (.ptr new)) (.v (.ptr q)) true])
      else
        let gd := GD.ofGuard old
        (s, l, (if gd = .done then .load .start else .dropOld gd),
          [.cas .casCx (.cell c) (.v (.ptr cur)) (.v (.ptr new)) (.v (.ptr q)) false])
    | none => (s.setFault (.stuck "cas on a dropped container"), l, .cx old, [])
  | .pay old pp =>
    match stepPP cfg old.ptr c s l spur pp with
    | (s, l, .done, evs) => (s, l, (if old.ptr = 0 then .done old else .decOld old), evs)
    | (s, l, pp, evs) => (s, l, .pay old pp, evs)
  | .decOld old => let (s, evs) := decObj s old.ptr; (s, l, .done old, evs)
  | .dropOld gd =>
    match stepGD s gd with
    | (s, .done, evs) => (s, l, .load .start, evs)
    | (s, gd, evs) => (s, l, .dropOld gd, evs)
  | .done old => (s, l, .done old, [])

inductive RP where
  | load (ld : LP)
  | attempt (cur : Guard)
  | cas (cur : Guard) (newp : Nat) (cp : CP)
  | intoPrev (cur prev : Guard) (gi : GI)
  | dropCur (res : Nat) (gd : GD)
  | dropCurLoop (prev : Guard) (gd : GD)
  | done (res : Nat)
  deriving DecidableEq, Repr, Inhabited

/-- allocation: the lowest free address (the harness's pool policy; the proofs allow any) -/
def alloc (s : Shared) (val : Nat) : Shared × Nat × List Ev :=
  let a := lowestFree s.heap 4096
  let id := s.nextId
  ({ s with heap := upd s.heap a { live := true, id := id, cnt := 1, val := val }, nextId := id + 1 },
    a, [.alloc a id val])

def stepRP (cfg : Cfg) (c : Nat) (s : Shared) (l : Locals) (spur : Bool) (tries : Nat) :
    RP → Shared × Locals × RP × Nat × List Ev
  | .load ld =>
    match stepLP cfg c s l spur ld with
    | (s, l, .done p d, evs) => (s, l, .attempt { ptr := p, debt := d }, tries, evs)
    | (s, l, ld, evs) => (s, l, .load ld, tries, evs)
  | .attempt cur =>
    -- the closure `|v| v + 1` dereferences the guard and allocates
    let v := if cur.ptr = 0 then 0 else (s.heap cur.ptr).val
    let s := if cur.ptr ≠ 0 ∧ !(s.heap cur.ptr).live then s.setFault (.uaf "deref" cur.ptr) else s
    let (s, a, evs) := alloc s (v + 1)
    (s, l, .cas cur a (.load .start), tries + 1, evs)
  | .cas cur a cp =>
    match stepCP cfg c cur.ptr a s l spur cp with
    | (s, l, .done prev, evs) =>
      if prev.ptr = cur.ptr then
        let gi := GI.ofGuard prev
        if gi = .done then
          let gd := GD.ofGuard cur
          (s, l, (if gd = .done then .done prev.ptr else .dropCur prev.ptr gd), tries, evs)
        else (s, l, .intoPrev cur prev gi, tries, evs)
      else
        let gd := GD.ofGuard cur
        (s, l, (if gd = .done then .attempt prev else .dropCurLoop prev gd), tries, evs)
    | (s, l, cp, evs) => (s, l, .cas cur a cp, tries, evs)
  | .intoPrev cur prev gi =>
    match stepGI s gi with
    | (s, .done, evs) =>
      let gd := GD.ofGuard cur
      (s, l, (if gd = .done then .done prev.ptr else .dropCur prev.ptr gd), tries, evs)
    | (s, gi, evs) => (s, l, .intoPrev cur prev gi, tries, evs)
  | .dropCur res gd =>
    match stepGD s gd with
    | (s, .done, evs) => (s, l, .done res, tries, evs)
    | (s, gd, evs) => (s, l, .dropCur res gd, tries, evs)
  | .dropCurLoop prev gd =>
    match stepGD s gd with
    | (s, .done, evs) => (s, l, .attempt prev, tries, evs)
    | (s, gd, evs) => (s, l, .dropCurLoop prev gd, tries, evs)
  | .done r => (s, l, .done r, tries, [])

/-! ## Operation states -/

inductive OpSt where
  | idle
  | load (c g : Nat) (ld : LP)
  | loadFull (c h : Nat) (ld : LP)
  | loadFullInto (c h r : Nat) (gi : GI)
  | cloneh (h h2 a : Nat)
  | droph (a : Nat)
  | dropg (gd : GD)
  | ginto (h p : Nat) (gi : GI)
  | swapSw (c a out : Nat) (isStore : Bool)
  | swapPay (c out old : Nat) (isStore : Bool) (pp : PP)
  | swapDrop (c old : Nat)
  | cas (c : Nat) (cur : CurRef) (curKeep : Option Guard) (curPtr new g : Nat) (cp : CP)
  | rcu (c out : Nat) (tries : Nat) (rp : RP)
  | cinto (c h p : Nat) (pp : PP)
  | dropc (c p : Nat) (pp : PP)
  | dropcDec (c p : Nat)
  | exitCool (cd : CD)
  | finished
  deriving DecidableEq, Repr, Inhabited

structure Thread where
  prog : List (String × Op) := []
  op : OpSt := .idle
  loc : Locals := {}
  deriving Inhabited

structure State where
  cfg : Cfg := {}
  sh : Shared := {}
  th : Nat → Thread := fun _ => {}
  /-- containers taken out of their register by `into_inner`/`drop` -/
  ctaken : Nat → Bool := fun _ => false
  deriving Inhabited

def ident (s : Shared) (a : Nat) : String :=
  if a = 0 then "null" else s!"p{a}#{(s.heap a).id}"

/-- Start of an operation: the register rules of the harness, then the first sub-machine state. -/
def beginOp (st : State) (t : Nat) (o : Op) : State × List Ev :=
  let s := st.sh
  let th := st.th t
  let fin (s : Shared) (res : String) : State × List Ev :=
    ({ st with sh := s, th := upd st.th t { th with op := .idle } }, [.end_ res])
  let go (s : Shared) (op : OpSt) : State × List Ev :=
    ({ st with sh := s, th := upd st.th t { th with op := op } }, [])
  let contOk (c : Nat) : Bool := (s.cells c).isSome && !st.ctaken c
  match o with
  | .new h val =>
    if (s.hreg h).isSome then fin s "skip" else
    let (s, a, evs) := alloc s val
    let (st', e) := fin { s with hreg := upd s.hreg h (some a) } s!"h{h}={ident s a}"
    (st', evs ++ e)
  | .nullh h =>
    if (s.hreg h).isSome then fin s "skip" else fin { s with hreg := upd s.hreg h (some 0) } s!"h{h}=null"
  | .cloneh h h2 =>
    if (s.hreg h2).isSome then fin s "skip" else
    match s.hreg h with
    | none => fin s "skip"
    | some a =>
      if a = 0 then fin { s with hreg := upd s.hreg h2 (some 0) } s!"h{h2}=null"
      else go { s with hreg := upd s.hreg h none } (.cloneh h h2 a)
  | .droph h =>
    match s.hreg h with
    | none => fin s "skip"
    | some a =>
      let s := { s with hreg := upd s.hreg h none }
      if a = 0 then fin s "ok" else go s (.droph a)
  | .mk c h =>
    match s.hreg h with
    | none => fin s "skip"
    | some a =>
      fin { s with hreg := upd s.hreg h none, cells := upd s.cells c (some a), hist := upd s.hist c [s.idOf a] }
        s!"c{c}={ident s a}"
  | .load c g =>
    if (s.greg g).isSome then fin s "skip" else
    if !contOk c then fin s "skip" else
    go { s with busy := upd s.busy c (s.busy c + 1) } (.load c g .start)
  | .loadfull c h =>
    if (s.hreg h).isSome then fin s "skip" else
    if !contOk c then fin s "skip" else
    go { s with busy := upd s.busy c (s.busy c + 1) } (.loadFull c h .start)
  | .dropg g =>
    match s.greg g with
    | none => fin s "skip"
    | some gd =>
      let s := { s with greg := upd s.greg g none }
      let d := GD.ofGuard gd
      if d = .done then fin s "ok" else go s (.dropg d)
  | .ginto g h =>
    if (s.hreg h).isSome then fin s "skip" else
    match s.greg g with
    | none => fin s "skip"
    | some gd =>
      let s := { s with greg := upd s.greg g none }
      let gi := GI.ofGuard gd
      if gi = .done then fin { s with hreg := upd s.hreg h (some gd.ptr) } s!"h{h}={ident s gd.ptr}"
      else go s (.ginto h gd.ptr gi)
  | .gderef g =>
    match s.greg g with
    | none => fin s "skip"
    | some gd =>
      let s' := if gd.ptr ≠ 0 ∧ !(s.heap gd.ptr).live then s.setFault (.uaf "deref" gd.ptr) else s
      fin s' s!"{ident s gd.ptr} val={if gd.ptr = 0 then 0 else (s.heap gd.ptr).val}"
  | .store c h =>
    if !contOk c then fin s "skip" else
    match s.hreg h with
    | none => fin s "skip"
    | some a => go { s with hreg := upd s.hreg h none, busy := upd s.busy c (s.busy c + 1) } (.swapSw c a 0 true)
  | .swap c h out =>
    if !contOk c then fin s "skip" else
    match s.hreg h with
    | none => fin s "skip"
    | some a =>
      let s1 := { s with hreg := upd s.hreg h none }
      if (s1.hreg out).isSome then fin s "skip"
      else go { s1 with busy := upd s.busy c (s.busy c + 1) } (.swapSw c a out false)
  | .cas c cur new g =>
    if (s.greg g).isSome then fin s "skip" else
    if !contOk c then fin s "skip" else
    match s.hreg new with
    | none => fin s "skip"
    | some a =>
      let s1 := { s with hreg := upd s.hreg new none }
      match cur with
      | .null => go { s1 with busy := upd s.busy c (s.busy c + 1) } (.cas c cur none 0 a g (.load .start))
      | .h hc =>
        match s1.hreg hc with
        | none => fin s "skip"
        | some cp =>
          go { s1 with hreg := upd s1.hreg hc none, busy := upd s.busy c (s.busy c + 1) }
            (.cas c cur none cp a g (.load .start))
      | .g gc =>
        match s1.greg gc with
        | none => fin s "skip"
        | some cg =>
          go { s1 with greg := upd s1.greg gc none, busy := upd s.busy c (s.busy c + 1) }
            (.cas c cur (some cg) cg.ptr a g (.load .start))
  | .rcu c out =>
    if (s.hreg out).isSome then fin s "skip" else
    if !contOk c then fin s "skip" else
    go { s with busy := upd s.busy c (s.busy c + 1) } (.rcu c out 0 (.load .start))
  | .cinto c h =>
    if (s.hreg h).isSome then fin s "skip" else
    if !contOk c || s.busy c ≠ 0 then fin s "skip" else
    let p := (s.cells c).getD 0
    ({ st with ctaken := upd st.ctaken c true, th := upd st.th t { th with op := .cinto c h p .start } }, [])
  | .dropc c =>
    if !contOk c || s.busy c ≠ 0 then fin s "skip" else
    let p := (s.cells c).getD 0
    ({ st with ctaken := upd st.ctaken c true, th := upd st.th t { th with op := .dropc c p .start } }, [])
  | .setgen v =>
    ({ st with th := upd st.th t { th with op := .idle, loc := { th.loc with gen := v } } }, [.end_ "ok"])

/-- One micro-step of thread `t`. -/
def microStep (st : State) (t : Nat) (spur : Bool) : State × List Ev :=
  let th := st.th t
  let s := st.sh
  let cfg := st.cfg
  let setOp (s : Shared) (l : Locals) (op : OpSt) (evs : List Ev) : State × List Ev :=
    ({ st with sh := s, th := upd st.th t { th with op := op, loc := l } }, evs)
  let finish (s : Shared) (l : Locals) (res : String) (evs : List Ev) : State × List Ev :=
    ({ st with sh := s, th := upd st.th t { th with op := .idle, loc := l } }, evs ++ [.end_ res])
  let unbusy (s : Shared) (c : Nat) : Shared := { s with busy := upd s.busy c (s.busy c - 1) }
  match th.op with
  | .finished => (st, [])
  | .idle =>
    match th.prog with
    | [] =>
      -- thread exit: the thread-local `LocalNode` is dropped
      let op := match th.loc.node with
        | some n => OpSt.exitCool (.res n)
        | none => OpSt.finished
      ({ st with th := upd st.th t { th with op := op } }, [.exit])
    | (txt, o) :: rest =>
      let st1 := { st with th := upd st.th t { th with prog := rest } }
      let (st2, evs) := beginOp st1 t o
      (st2, .begin_ txt :: evs)
  | .exitCool cd =>
    match stepCD s cd with
    | (s, .done, evs) => setOp s { th.loc with node := none } .finished evs
    | (s, cd, evs) => setOp s th.loc (.exitCool cd) evs
  | .load c g ld =>
    match stepLP cfg c s th.loc spur ld with
    | (s, l, .done p d, evs) =>
      finish (unbusy { s with greg := upd s.greg g (some { ptr := p, debt := d }) } c) l s!"g{g}={ident s p}" evs
    | (s, l, ld, evs) => setOp s l (.load c g ld) evs
  | .loadFull c h ld =>
    match stepLP cfg c s th.loc spur ld with
    | (s, l, .done p d, evs) =>
      let gi := GI.ofGuard { ptr := p, debt := d }
      if gi = .done then finish (unbusy { s with hreg := upd s.hreg h (some p) } c) l s!"h{h}={ident s p}" evs
      else setOp s l (.loadFullInto c h p gi) evs
    | (s, l, ld, evs) => setOp s l (.loadFull c h ld) evs
  | .loadFullInto c h p gi =>
    match stepGI s gi with
    | (s, .done, evs) => finish (unbusy { s with hreg := upd s.hreg h (some p) } c) th.loc s!"h{h}={ident s p}" evs
    | (s, gi, evs) => setOp s th.loc (.loadFullInto c h p gi) evs
  | .cloneh h h2 a =>
    let (s, evs) := incObj s a
    finish { s with hreg := upd (upd s.hreg h (some a)) h2 (some a) } th.loc s!"h{h2}={ident s a}" evs
  | .droph a =>
    let (s, evs) := decObj s a
    finish s th.loc "ok" evs
  | .dropg gd =>
    match stepGD s gd with
    | (s, .done, evs) => finish s th.loc "ok" evs
    | (s, gd, evs) => setOp s th.loc (.dropg gd) evs
  | .ginto h p gi =>
    match stepGI s gi with
    | (s, .done, evs) => finish { s with hreg := upd s.hreg h (some p) } th.loc s!"h{h}={ident s p}" evs
    | (s, gi, evs) => setOp s th.loc (.ginto h p gi) evs
  | .swapSw c a out isStore =>
    match s.cells c with
    | some old =>
      setOp (s.writeCell c a) th.loc (.swapPay c out old isStore .start)
        [.swap .swap0 (.cell c) (.v (.ptr a)) (.v (.ptr old))]
    | none => (st, [])
  | .swapPay c out old isStore pp =>
    match stepPP cfg old c s th.loc spur pp with
    | (s, l, .done, evs) =>
      if isStore then
        if old = 0 then finish (unbusy s c) l "ok" evs else setOp s l (.swapDrop c old) evs
      else finish (unbusy { s with hreg := upd s.hreg out (some old) } c) l s!"h{out}={ident s old}" evs
    | (s, l, pp, evs) => setOp s l (.swapPay c out old isStore pp) evs
  | .swapDrop c old =>
    let (s, evs) := decObj s old
    finish (unbusy s c) th.loc "ok" evs
  | .cas c cur keep curPtr new g cp =>
    match stepCP cfg c curPtr new s th.loc spur cp with
    | (s, l, .done old, evs) =>
      -- give `current` back to its register
      let s := match cur, keep with
        | .h hc, _ => { s with hreg := upd s.hreg hc (some curPtr) }
        | .g gc, some cg => { s with greg := upd s.greg gc (some cg) }
        | _, _ => s
      finish (unbusy { s with greg := upd s.greg g (some old) } c) l s!"g{g}={ident s old.ptr}" evs
    | (s, l, cp, evs) => setOp s l (.cas c cur keep curPtr new g cp) evs
  | .rcu c out tries rp =>
    match stepRP cfg c s th.loc spur tries rp with
    | (s, l, .done r, tries, evs) =>
      finish (unbusy { s with hreg := upd s.hreg out (some r) } c) l s!"h{out}={ident s r} tries={tries}" evs
    | (s, l, rp, tries, evs) => setOp s l (.rcu c out tries rp) evs
  | .cinto c h p pp =>
    match stepPP cfg p c s th.loc spur pp with
    | (s, l, .done, evs) =>
      finish { s with hreg := upd s.hreg h (some p), cells := upd s.cells c none } l s!"h{h}={ident s p}" evs
    | (s, l, pp, evs) => setOp s l (.cinto c h p pp) evs
  | .dropc c p pp =>
    match stepPP cfg p c s th.loc spur pp with
    | (s, l, .done, evs) =>
      if p = 0 then finish { s with cells := upd s.cells c none } l "ok" evs
      else setOp s l (.dropcDec c p) evs
    | (s, l, pp, evs) => setOp s l (.dropc c p pp) evs
  | .dropcDec c p =>
    let (s, evs) := decObj s p
    finish { s with cells := upd s.cells c none } th.loc "ok" evs

end M
