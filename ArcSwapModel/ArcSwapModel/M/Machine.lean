import ArcSwapModel.M.Basic

/-!
# `M`: the sub-machines

Each library function on the read, write, drop and list paths is a small state machine whose
states are the atomic accesses of that function (in source order, debug assertions included —
the correspondence runs the crate with them on).  A step function takes the shared state (and the
thread's locals) and performs *one* access, returning the events it produced.

Site names are the labels the translator gives to the atomic call sites (`file:function#ordinal`);
`Tie.lean` checks every one of them against the generated site table (operation and orderings).
-/

namespace M
open Consts

/-! ## Sites, locations, events -/

inductive Site where
  | attempt0 | attempt1 | fallback0 | casCx
  | swap0
  | fastGet0 | fastGet1
  | helpGet0 | helpGet1
  | help0 | help1 | help2 | help3 | help4 | help5 | help6 | help7 | help8
  | confirm0 | confirm1 | confirm2 | confirm3
  | resDrop | traverse0 | cooldown0 | cc0 | cc1 | cc2 | reserve0 | get0 | get1 | get2
  | newFast0 | newHelping0 | confirmHelping0 | lnHelp0
  | pay0
  deriving DecidableEq, Repr, Inhabited

def Site.label : Site → String
  | .attempt0 => "hybrid.rs:HybridProtection<T>::attempt#0"
  | .attempt1 => "hybrid.rs:HybridProtection<T>::attempt#1"
  | .fallback0 => "hybrid.rs:HybridProtection<T>::fallback#0"
  | .casCx => "hybrid.rs:<HybridStrategy<Cfg> as CaS<T>>::compare_and_swap#0"
  | .swap0 => "lib.rs:ArcSwapAny<T,S>::swap#0"
  | .fastGet0 => "fast.rs:Slots::get_debt#0"
  | .fastGet1 => "fast.rs:Slots::get_debt#1"
  | .helpGet0 => "helping.rs:Slots::get_debt#0"
  | .helpGet1 => "helping.rs:Slots::get_debt#1"
  | .help0 => "helping.rs:Slots::help#0"
  | .help1 => "helping.rs:Slots::help#1"
  | .help2 => "helping.rs:Slots::help#2"
  | .help3 => "helping.rs:Slots::help#3"
  | .help4 => "helping.rs:Slots::help#4"
  | .help5 => "helping.rs:Slots::help#5"
  | .help6 => "helping.rs:Slots::help#6"
  | .help7 => "helping.rs:Slots::help#7"
  | .help8 => "helping.rs:Slots::help#8"
  | .confirm0 => "helping.rs:Slots::confirm#0"
  | .confirm1 => "helping.rs:Slots::confirm#1"
  | .confirm2 => "helping.rs:Slots::confirm#2"
  | .confirm3 => "helping.rs:Slots::confirm#3"
  | .resDrop => "list.rs:<NodeReservation<'_> as Drop>::drop#0"
  | .traverse0 => "list.rs:Node::traverse#0"
  | .cooldown0 => "list.rs:Node::start_cooldown#0"
  | .cc0 => "list.rs:Node::check_cooldown#0"
  | .cc1 => "list.rs:Node::check_cooldown#1"
  | .cc2 => "list.rs:Node::check_cooldown#2"
  | .reserve0 => "list.rs:Node::reserve_writer#0"
  | .get0 => "list.rs:Node::get#0"
  | .get1 => "list.rs:Node::get#1"
  | .get2 => "list.rs:Node::get#2"
  | .newFast0 => "list.rs:LocalNode::new_fast#0"
  | .newHelping0 => "list.rs:LocalNode::new_helping#0"
  | .confirmHelping0 => "list.rs:LocalNode::confirm_helping#0"
  | .lnHelp0 => "list.rs:LocalNode::help#0"
  | .pay0 => "mod.rs:Debt::pay#0"

inductive Loc where
  | cell (c : Nat) | head
  | fast (n i : Nat) | control (n : Nat) | hslot (n : Nat) | activeAddr (n : Nat)
  | envelope (j : Nat) | spaceOffer (n : Nat) | inUse (n : Nat) | writers (n : Nat)
  deriving DecidableEq, Repr, Inhabited

/-- A value as it appears in a trace line. -/
inductive TV where
  | v (x : Val) | c (x : Ctl) | cellRef (x : Option Nat) | envRef (j : Nat)
  | nat (n : Nat) | node (n : Option Nat)
  deriving DecidableEq, Repr, Inhabited

inductive Ev where
  | load (s : Site) (l : Loc) (x : TV)
  | store (s : Site) (l : Loc) (x : TV)
  | swap (s : Site) (l : Loc) (new old : TV)
  | cas (s : Site) (l : Loc) (exp new read : TV) (ok : Bool)
  | fadd (s : Site) (l : Loc) (old : Nat)
  | fsub (s : Site) (l : Loc) (old : Nat)
  | inc (a old : Nat)
  | dec (a old : Nat) (freed : Bool)
  | decDead (a : Nat)
  | alloc (a id val : Nat)
  | begin_ (op : String)
  | end_ (res : String)
  | exit
  deriving Repr, Inhabited

/-! ## Reference counts (`RefCnt::inc`/`dec` of the pointee; null is never counted) -/

def incObj (s : Shared) (a : Nat) : Shared × List Ev :=
  let o := s.heap a
  if o.live then
    ({ s with heap := upd s.heap a { o with cnt := o.cnt + 1 } }, [.inc a o.cnt])
  else
    (s.setFault (.uaf "inc" a), [.inc a o.cnt])

def decObj (s : Shared) (a : Nat) : Shared × List Ev :=
  let o := s.heap a
  if o.live then
    if o.cnt = 0 then (s.setFault (.doubleFree a), [.dec a 0 false])
    else if o.cnt = 1 then
      ({ s with heap := upd s.heap a { o with cnt := 0, live := false } }, [.dec a 1 true])
    else ({ s with heap := upd s.heap a { o with cnt := o.cnt - 1 } }, [.dec a o.cnt false])
  else
    (s.setFault (.uaf "dec" a), [.decDead a])

/-! ## `Node::get` -/

inductive NG where
  | trav
  | cc0 (n : Nat) | cc1 (n : Nat) | cc2 (n : Nat) (idle : Bool) | claim (n : Nat)
  | allocLoad
  | allocCas (me : Option Nat) (h : Option Nat)
  | done (n : Nat)
  deriving DecidableEq, Repr, Inhabited

def NG.afterNode (s : Shared) (n : Nat) : NG :=
  match (s.nodes n).next with
  | some m => .cc0 m
  | none => .allocLoad

/-- the assertion at the end of `check_cooldown` -/
def chkAssert : Fault := .debugAssert "check_cooldown: somebody took a node while it was being checked"

def stepNG (s : Shared) (spur : Bool) : NG → Shared × NG × List Ev
  | .trav =>
    (s, (match s.head with | some n => .cc0 n | none => .allocLoad), [.load .traverse0 .head (.node s.head)])
  | .cc0 n =>
    -- `check_cooldown`: take the node out of the cooldown state for the duration of the check
    let v := (s.nodes n).inUse
    if v = nodeCooldown then
      (s.setNode n fun nd => { nd with inUse := nodeChecking }, .cc1 n,
        [.cas .cc0 (.inUse n) (.nat nodeCooldown) (.nat nodeChecking) (.nat v) true])
    else (s, .claim n, [.cas .cc0 (.inUse n) (.nat nodeCooldown) (.nat nodeChecking) (.nat v) false])
  | .cc1 n =>
    let w := (s.nodes n).writers
    (s, .cc2 n (w = 0), [.load .cc1 (.writers n) (.nat w)])
  | .cc2 n idle =>
    -- released if no writer was inside, back to cooldown otherwise
    let v := (s.nodes n).inUse
    let nv := if idle then nodeUnused else nodeCooldown
    if v = nodeChecking then
      (s.setNode n fun nd => { nd with inUse := nv }, .claim n,
        [.cas .cc2 (.inUse n) (.nat nodeChecking) (.nat nv) (.nat v) true])
    else (s.setFault chkAssert, .claim n,
        [.cas .cc2 (.inUse n) (.nat nodeChecking) (.nat nv) (.nat v) false])
  | .claim n =>
    let v := (s.nodes n).inUse
    if v = nodeUnused then
      (s.setNode n fun nd => { nd with inUse := nodeUsed }, .done n,
        [.cas .get0 (.inUse n) (.nat nodeUnused) (.nat nodeUsed) (.nat v) true])
    else (s, NG.afterNode s n, [.cas .get0 (.inUse n) (.nat nodeUnused) (.nat nodeUsed) (.nat v) false])
  | .allocLoad => (s, .allocCas none s.head, [.load .get1 .head (.node s.head)])
  | .allocCas me h =>
    -- the node is named when it is first offered to `LIST_HEAD`
    let (s, k) := match me with
      | some k => (s, k)
      | none => ({ s with nNodes := s.nNodes + 1,
                          nodes := upd s.nodes s.nNodes { spaceOffer := s.nNodes } }, s.nNodes)
    let s := s.setNode k fun nd => { nd with next := h }
    if !spur && s.head = h then
      ({ s with head := some k }, .done k, [.cas .get2 .head (.node h) (.node (some k)) (.node s.head) true])
    else (s, .allocCas (some k) s.head, [.cas .get2 .head (.node h) (.node (some k)) (.node s.head) false])
  | .done n => (s, .done n, [])

/-! ## `Node::start_cooldown` -/

inductive CD where
  | res (n : Nat) | swap (n : Nat) | rel (n : Nat) | done
  deriving DecidableEq, Repr, Inhabited

def stepCD (s : Shared) : CD → Shared × CD × List Ev
  | .res n =>
    let w := (s.nodes n).writers
    (s.setNode n fun nd => { nd with writers := w + 1 }, .swap n, [.fadd .reserve0 (.writers n) w])
  | .swap n =>
    let v := (s.nodes n).inUse
    let s' := s.setNode n fun nd => { nd with inUse := nodeCooldown }
    let s' := if v = nodeUsed then s' else s'.setFault (.panic "start_cooldown: assert_eq!(NODE_USED, in_use.swap(..))")
    (s', .rel n, [.swap .cooldown0 (.inUse n) (.nat nodeCooldown) (.nat v)])
  | .rel n =>
    let w := (s.nodes n).writers
    (s.setNode n fun nd => { nd with writers := w - 1 }, .done, [.fsub .resDrop (.writers n) w])
  | .done => (s, .done, [])

/-! ## `HybridStrategy::load` (= `LocalNode::with` + `attempt` + `fallback`) -/

inductive LP where
  | start
  | get (ng : NG)
  | a1
  | nfDbg (p : Nat)
  | probe (p i : Nat)
  | pswap (p idx : Nat)
  | a3 (p idx : Nat)
  | a4 (p idx : Nat)
  | a4dec (p : Nat)
  | nhDbg
  | cool (cd : CD)
  | reget (ng : NG)
  | f1
  | f2 (g : Nat)
  | f3 (g : Nat)
  | chDbg (g cand : Nat)
  | f4 (g cand : Nat)
  | f5 (g cand : Nat)
  | fokInc (cand : Nat) | fokPay (cand : Nat) | fokDec (cand : Nat)
  | fr1 (cand j : Nat) | fr2 (cand j r : Nat) | frPay (cand r : Nat) | frDec (cand r : Nat)
  | done (p : Nat) (debt : Option (Nat × Nat))
  deriving DecidableEq, Repr, Inhabited

/-- The wrap modulus of the transaction counter (the crate's is `2^64`; the theorems are for
    every modulus that is a positive multiple of `genStep`). -/
structure Cfg where
  useFast : Bool := true
  W : Nat := 2 ^ 64
  deriving DecidableEq, Repr, Inhabited

/-- `self.node.get().expect("LocalNode::with ensures it is set")` (five sites in `list.rs`) -/
def expectPanic : Fault := .panic "LocalNode::with ensures it is set"

def dbgInUse (s : Shared) (n : Nat) (site : String) : Shared :=
  if (s.nodes n).inUse = nodeUsed then s else s.setFault (.debugAssert site)

def stepLP (cfg : Cfg) (c : Nat) (s : Shared) (l : Locals) (spur : Bool) :
    LP → Shared × Locals × LP × List Ev
  | .start =>
    match l.node with
    | none => (s, l, .get .trav, [])
    | some _ => (s, l, if cfg.useFast then .a1 else .nhDbg, [])
  | .get ng =>
    match stepNG s spur ng with
    | (s, .done n, evs) => (s, { l with node := some n }, if cfg.useFast then .a1 else .nhDbg, evs)
    | (s, ng, evs) => (s, l, .get ng, evs)
  | .a1 =>
    match s.cells c with
    | some p => (s, l, .nfDbg p, [.load .attempt0 (.cell c) (.v (.ptr p))])
    | none => (s.setFault (.stuck "load of a dropped container"), l, .done 0 none, [])
  | .nfDbg p =>
    match l.node with
    | none => (s.setFault expectPanic, l, .done 0 none, [])
    | some n =>
      (dbgInUse s n "new_fast", l, .probe p 0, [.load .newFast0 (.inUse n) (.nat (s.nodes n).inUse)])
  | .probe p i =>
    let n := l.node.getD 0
    let idx := (i + l.offset) % slotCnt
    let v := (s.nodes n).fast idx
    (s, l, (if v = .none then .pswap p idx else if i + 1 < slotCnt then .probe p (i + 1) else .nhDbg),
      [.load .fastGet0 (.fast n idx) (.v v)])
  | .pswap p idx =>
    let n := l.node.getD 0
    let old := (s.nodes n).fast idx
    let s' := s.setNode n fun nd => { nd with fast := upd nd.fast idx (.ptr p) }
    let s' := if old = .none then s' else s'.setFault (.debugAssert "fast::get_debt: slot not NONE")
    (s', { l with offset := idx + 1 }, .a3 p idx, [.swap .fastGet1 (.fast n idx) (.v (.ptr p)) (.v old)])
  | .a3 p idx =>
    let n := l.node.getD 0
    match s.cells c with
    | some q => (s, l, (if q = p then .done p (some (n, idx)) else .a4 p idx),
        [.load .attempt1 (.cell c) (.v (.ptr q))])
    | none => (s.setFault (.stuck "load of a dropped container"), l, .done 0 none, [])
  | .a4 p idx =>
    let n := l.node.getD 0
    let cur := (s.nodes n).fast idx
    if cur = .ptr p then
      (s.setNode n fun nd => { nd with fast := upd nd.fast idx .none }, l, .nhDbg,
        [.cas .pay0 (.fast n idx) (.v (.ptr p)) (.v .none) (.v cur) true])
    else (s, l, (if p = 0 then .nhDbg else .a4dec p),
        [.cas .pay0 (.fast n idx) (.v (.ptr p)) (.v .none) (.v cur) false])
  | .a4dec p =>
    let (s, evs) := decObj s p
    (s, l, .nhDbg, evs)
  | .nhDbg =>
    match l.node with
    | none => (s.setFault expectPanic, l, .done 0 none, [])
    | some n =>
      (dbgInUse s n "new_helping", l,
        (if (l.gen + genStep) % cfg.W = 0 then .cool (.res n) else .f1),
        [.load .newHelping0 (.inUse n) (.nat (s.nodes n).inUse)])
  | .cool cd =>
    match stepCD s cd with
    | (s, .done, evs) => (s, l, .reget .trav, evs)
    | (s, cd, evs) => (s, l, .cool cd, evs)
  | .reget ng =>
    match stepNG s spur ng with
    | (s, .done n, evs) => (s, { l with node := some n }, .f1, evs)
    | (s, ng, evs) => (s, l, .reget ng, evs)
  | .f1 =>
    let n := l.node.getD 0
    let g := (l.gen + genStep) % cfg.W
    (s.setNode n fun nd => { nd with activeAddr := some c }, { l with gen := g }, .f2 g,
      [.store .helpGet0 (.activeAddr n) (.cellRef (some c))])
  | .f2 g =>
    let n := l.node.getD 0
    let old := (s.nodes n).control
    let s' := s.setNode n fun nd => { nd with control := .gen g }
    let s' := if old = .idle then s' else s'.setFault (.debugAssert "helping::get_debt: Left control in wrong state")
    (s', l, .f3 g, [.swap .helpGet1 (.control n) (.c (.gen g)) (.c old)])
  | .f3 g =>
    match s.cells c with
    | some p => (s, l, .chDbg g p, [.load .fallback0 (.cell c) (.v (.ptr p))])
    | none => (s.setFault (.stuck "load of a dropped container"), l, .done 0 none, [])
  | .chDbg g cand =>
    match l.node with
    | none => (s.setFault expectPanic, l, .done 0 none, [])
    | some n =>
      (dbgInUse s n "confirm_helping", l, .f4 g cand, [.load .confirmHelping0 (.inUse n) (.nat (s.nodes n).inUse)])
  | .f4 g cand =>
    let n := l.node.getD 0
    let old := (s.nodes n).hslot
    let s' := s.setNode n fun nd => { nd with hslot := .ptr cand }
    let s' := if old = .none then s' else s'.setFault (.debugAssert "helping::confirm: slot not NONE")
    (s', l, .f5 g cand, [.swap .confirm0 (.hslot n) (.v (.ptr cand)) (.v old)])
  | .f5 g cand =>
    let n := l.node.getD 0
    let x := (s.nodes n).control
    let s' := s.setNode n fun nd => { nd with control := .idle }
    let ev := [Ev.swap .confirm1 (.control n) (.c .idle) (.c x)]
    if x = .gen g then (s', l, (if cand = 0 then .fokPay cand else .fokInc cand), ev)
    else match x with
      | .env j => (s', l, .fr1 cand j, ev)
      | _ => (s'.setFault (.debugAssert "helping::confirm: control is neither our generation nor a replacement"), l, .done cand none, ev)
  | .fokInc cand =>
    let (s, evs) := incObj s cand
    (s, l, .fokPay cand, evs)
  | .fokPay cand =>
    let n := l.node.getD 0
    let cur := (s.nodes n).hslot
    if cur = .ptr cand then
      (s.setNode n fun nd => { nd with hslot := .none }, l, .done cand none,
        [.cas .pay0 (.hslot n) (.v (.ptr cand)) (.v .none) (.v cur) true])
    else (s, l, (if cand = 0 then .done cand none else .fokDec cand),
        [.cas .pay0 (.hslot n) (.v (.ptr cand)) (.v .none) (.v cur) false])
  | .fokDec cand =>
    let (s, evs) := decObj s cand
    (s, l, .done cand none, evs)
  | .fr1 cand j =>
    let r := (s.nodes j).envelope
    match r with
    | .ptr r => (s, l, .fr2 cand j r, [.load .confirm2 (.envelope j) (.v (.ptr r))])
    | .none => (s.setFault (.stuck "envelope holds NONE"), l, .done 0 none, [])
  | .fr2 cand j r =>
    let n := l.node.getD 0
    (s.setNode n fun nd => { nd with spaceOffer := j }, l, .frPay cand r,
      [.store .confirm3 (.spaceOffer n) (.envRef j)])
  | .frPay cand r =>
    let n := l.node.getD 0
    let cur := (s.nodes n).hslot
    if cur = .ptr cand then
      (s.setNode n fun nd => { nd with hslot := .none }, l, .done r none,
        [.cas .pay0 (.hslot n) (.v (.ptr cand)) (.v .none) (.v cur) true])
    else (s, l, (if cand = 0 then .done r none else .frDec cand r),
        [.cas .pay0 (.hslot n) (.v (.ptr cand)) (.v .none) (.v cur) false])
  | .frDec cand r =>
    let (s, evs) := decObj s cand
    (s, l, .done r none, evs)
  | .done p d => (s, l, .done p d, [])

/-! ## Guard drop and `Guard::into_inner` (`HybridProtection::{drop, into_inner}`) -/

inductive GD where
  | pay (p n idx : Nat) | dec (p : Nat) | done
  deriving DecidableEq, Repr, Inhabited

def GD.ofGuard (g : Guard) : GD :=
  match g.debt with
  | some (n, idx) => .pay g.ptr n idx
  | none => if g.ptr = 0 then .done else .dec g.ptr

def stepGD (s : Shared) : GD → Shared × GD × List Ev
  | .pay p n idx =>
    let cur := (s.nodes n).fast idx
    if cur = .ptr p then
      (s.setNode n fun nd => { nd with fast := upd nd.fast idx .none }, .done,
        [.cas .pay0 (.fast n idx) (.v (.ptr p)) (.v .none) (.v cur) true])
    else (s, (if p = 0 then .done else .dec p), [.cas .pay0 (.fast n idx) (.v (.ptr p)) (.v .none) (.v cur) false])
  | .dec p => let (s, evs) := decObj s p; (s, .done, evs)
  | .done => (s, .done, [])

inductive GI where
  | inc (p n idx : Nat) | pay (p n idx : Nat) | dec (p : Nat) | done
  deriving DecidableEq, Repr, Inhabited

def GI.ofGuard (g : Guard) : GI :=
  match g.debt with
  | some (n, idx) => if g.ptr = 0 then .pay g.ptr n idx else .inc g.ptr n idx
  | none => .done

def stepGI (s : Shared) : GI → Shared × GI × List Ev
  | .inc p n idx => let (s, evs) := incObj s p; (s, .pay p n idx, evs)
  | .pay p n idx =>
    let cur := (s.nodes n).fast idx
    if cur = .ptr p then
      (s.setNode n fun nd => { nd with fast := upd nd.fast idx .none }, .done,
        [.cas .pay0 (.fast n idx) (.v (.ptr p)) (.v .none) (.v cur) true])
    else (s, (if p = 0 then .done else .dec p), [.cas .pay0 (.fast n idx) (.v (.ptr p)) (.v .none) (.v cur) false])
  | .dec p => let (s, evs) := decObj s p; (s, .done, evs)
  | .done => (s, .done, [])

/-! ## `Debt::pay_all` (= `LocalNode::with` + pre-pay + `Node::traverse` { reserve, help, pay slots }) -/

/-- Locals of one `LocalNode::help` activation. -/
structure HL where
  who : Nat
  own : Nat
  ctl : Ctl := .idle
  reserved : Bool := false
  deriving DecidableEq, Repr, Inhabited

inductive PP where
  | start
  | get (ng : NG)
  | inc
  | trav
  | res (n : Nat)
  | hDbg0 (h : HL) | hDbg1 (h : HL) | h1 (h : HL)
  | h2 (h : HL) | h3 (h : HL)
  | hres (h : HL)
  | hload (h : HL) (ld : LP)
  | hinto (h : HL) (r : Nat) (gi : GI)
  | h4 (h : HL) (r : Nat)
  | h5 (h : HL) (r their : Nat)
  | h6 (h : HL) (r their mine : Nat)
  | h7 (h : HL) (r their mine : Nat)
  | h8 (h : HL) (their : Nat)
  | hdrop (h : HL) (r : Nat)
  | hend (h : HL)
  | hrel (h : HL)
  | slot (n j : Nat)
  | slotInc (n j : Nat)
  | rel (n : Nat)
  | fin
  | dec
  | done
  deriving DecidableEq, Repr, Inhabited

/-- the `match control & TAG_MASK` at the top of `help`'s loop -/
def PP.dispatch (h : HL) : PP :=
  match h.ctl with
  | .gen _ => .h2 h
  | _ => .hend h

def PP.nextSlot (n j : Nat) : PP := if j < slotCnt then .slot n (j + 1) else .rel n

def stepPP (cfg : Cfg) (p c : Nat) (s : Shared) (l : Locals) (spur : Bool) :
    PP → Shared × Locals × PP × List Ev
  | .start =>
    match l.node with
    | none => (s, l, .get .trav, [])
    | some _ => (s, l, if p = 0 then .trav else .inc, [])
  | .get ng =>
    match stepNG s spur ng with
    | (s, .done n, evs) => (s, { l with node := some n }, if p = 0 then .trav else .inc, evs)
    | (s, ng, evs) => (s, l, .get ng, evs)
  | .inc => let (s, evs) := incObj s p; (s, l, .trav, evs)
  | .trav =>
    (s, l, (match s.head with | some n => .res n | none => .fin), [.load .traverse0 .head (.node s.head)])
  | .res n =>
    let w := (s.nodes n).writers
    let s' := s.setNode n fun nd => { nd with writers := w + 1 }
    -- `LocalNode::help` starts with the `expect`
    match l.node with
    | none => (s'.setFault expectPanic, l, .done, [.fadd .reserve0 (.writers n) w])
    | some own => (s', l, .hDbg0 { who := n, own := own }, [.fadd .reserve0 (.writers n) w])
  | .hDbg0 h =>
    (dbgInUse s h.own "LocalNode::help", l, .hDbg1 h, [.load .lnHelp0 (.inUse h.own) (.nat (s.nodes h.own).inUse)])
  | .hDbg1 h =>
    let x := (s.nodes h.own).control
    let s' := if x = .idle then s else s.setFault (.debugAssert "helping::help: own control not IDLE")
    (s', l, .h1 h, [.load .help0 (.control h.own) (.c x)])
  | .h1 h =>
    let x := (s.nodes h.who).control
    let h := { h with ctl := x }
    (s, l, PP.dispatch h, [.load .help1 (.control h.who) (.c x)])
  | .h2 h =>
    let s := if h.own = h.who then s.setFault (.debugAssert "helping::help: refusing to help myself") else s
    let a := (s.nodes h.who).activeAddr
    (s, l, (if a = some c then (if h.reserved then .hload h .start else .hres h) else .h3 h),
      [.load .help2 (.activeAddr h.who) (.cellRef a)])
  | .h3 h =>
    let x := (s.nodes h.who).control
    (s, l, (if x = h.ctl then .hend h else PP.dispatch { h with ctl := x }), [.load .help3 (.control h.who) (.c x)])
  | .hres h =>
    let w := (s.nodes h.own).writers
    (s.setNode h.own fun nd => { nd with writers := w + 1 }, l, .hload { h with reserved := true } .start,
      [.fadd .reserve0 (.writers h.own) w])
  | .hload h ld =>
    match stepLP cfg c s l spur ld with
    | (s, l, .done r d, evs) =>
      -- `.into_inner()` of the nested guard
      let gi := GI.ofGuard { ptr := r, debt := d }
      (s, l, (if gi = .done then .h4 h r else .hinto h r gi), evs)
    | (s, l, ld, evs) => (s, l, .hload h ld, evs)
  | .hinto h r gi =>
    match stepGI s gi with
    | (s, .done, evs) => (s, l, .h4 h r, evs)
    | (s, gi, evs) => (s, l, .hinto h r gi, evs)
  | .h4 h r =>
    let t := (s.nodes h.who).spaceOffer
    (s, l, .h5 h r t, [.load .help4 (.spaceOffer h.who) (.envRef t)])
  | .h5 h r t =>
    let m := (s.nodes h.own).spaceOffer
    (s, l, .h6 h r t m, [.load .help5 (.spaceOffer h.own) (.envRef m)])
  | .h6 h r t m =>
    (s.setNode m fun nd => { nd with envelope := .ptr r }, l, .h7 h r t m, [.store .help6 (.envelope m) (.v (.ptr r))])
  | .h7 h r t m =>
    let x := (s.nodes h.who).control
    if x = h.ctl then
      (s.setNode h.who fun nd => { nd with control := .env m }, l, .h8 h t,
        [.cas .help7 (.control h.who) (.c h.ctl) (.c (.env m)) (.c x) true])
    else
      let h' := { h with ctl := x }
      (s, l, (if r = 0 then PP.dispatch h' else .hdrop h' r),
        [.cas .help7 (.control h.who) (.c h.ctl) (.c (.env m)) (.c x) false])
  | .h8 h t =>
    (s.setNode h.own fun nd => { nd with spaceOffer := t }, l, .hend h, [.store .help8 (.spaceOffer h.own) (.envRef t)])
  | .hdrop h r =>
    let (s, evs) := decObj s r
    (s, l, PP.dispatch h, evs)
  | .hend h => (s, l, (if h.reserved then .hrel h else .slot h.who 0), [])
  | .hrel h =>
    let w := (s.nodes h.own).writers
    (s.setNode h.own fun nd => { nd with writers := w - 1 }, l, .slot h.who 0, [.fsub .resDrop (.writers h.own) w])
  | .slot n j =>
    if j < slotCnt then
      let cur := (s.nodes n).fast j
      if cur = .ptr p then
        (s.setNode n fun nd => { nd with fast := upd nd.fast j .none }, l,
          (if p = 0 then PP.nextSlot n j else .slotInc n j),
          [.cas .pay0 (.fast n j) (.v (.ptr p)) (.v .none) (.v cur) true])
      else (s, l, PP.nextSlot n j, [.cas .pay0 (.fast n j) (.v (.ptr p)) (.v .none) (.v cur) false])
    else
      let cur := (s.nodes n).hslot
      if cur = .ptr p then
        (s.setNode n fun nd => { nd with hslot := .none }, l,
          (if p = 0 then PP.nextSlot n j else .slotInc n j),
          [.cas .pay0 (.hslot n) (.v (.ptr p)) (.v .none) (.v cur) true])
      else (s, l, PP.nextSlot n j, [.cas .pay0 (.hslot n) (.v (.ptr p)) (.v .none) (.v cur) false])
  | .slotInc n j => let (s, evs) := incObj s p; (s, l, PP.nextSlot n j, evs)
  | .rel n =>
    let w := (s.nodes n).writers
    (s.setNode n fun nd => { nd with writers := w - 1 }, l,
      (match (s.nodes n).next with | some m => .res m | none => .fin),
      [.fsub .resDrop (.writers n) w])
  | .fin => (s, l, if p = 0 then .done else .dec, [])
  | .dec => let (s, evs) := decObj s p; (s, l, .done, evs)
  | .done => (s, l, .done, [])

end M
