def hello := "world"
