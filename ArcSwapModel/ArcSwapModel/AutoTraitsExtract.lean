import ArcSwapModel.Extract
/-! The items of the source that decide auto traits: struct definitions, explicit impls of `Send`/
`Sync` (positive or negative), type aliases, and associated-type definitions. -/
namespace AutoTraits
open S Extract
def relevant (s : S) : Bool :=
  s.isTag "structdef" || s.isTag "typealias" || s.isTag "assoctype" ||
  (s.isTag "impl" && ((s.kid 2).atom? == some "Send" || (s.kid 2).atom? == some "Sync"))
def extractTable : List S := (Generated.files.flatMap (·.2)).filter relevant
end AutoTraits
