/-!
# `AccessM`: the `Access` machinery (`src/access.rs`)

Accesses are chains over a container: the container itself, `Map` of an access with a projection
(any depth), the blanket impl through a pointer (`&`, `Arc`, `Box`, `Rc`), `DynAccess` (boxing the
guard), `AccessConvert`, and `Constant`.  A guard produced by `load` *owns* what it was made from:
`MapGuard { guard, projection, _t }` keeps the inner guard and applies the projection on every
`deref`; `DynGuard(Box<dyn Deref>)` keeps the boxed inner guard; `ConstantDeref(T)` its own copy.
Projections are pure total functions (a projection with interior side effects is outside the model).
-/

namespace AccessM

/-- pointee values: nested pairs of numbers (a nested configuration struct) -/
inductive Val where
  | leaf (n : Nat)
  | node (l r : Val)
  deriving DecidableEq, Repr, Inhabited

inductive Proj where
  | fst | snd | id
  deriving DecidableEq, Repr, Inhabited

def Proj.app : Proj → Val → Val
  | .fst, .node l _ => l
  | .snd, .node _ r => r
  | .id, v => v
  | _, v => v

inductive Acc where
  | cell                          -- `ArcSwapAny` itself (also as `Access<T>` for `Arc<T>`/`Rc<T>`: `DirectDeref`)
  | map (a : Acc) (p : Proj)      -- `Map::new(a, p)`
  | ptr (a : Acc)                 -- `&A`, `Arc<A>`, `Box<A>`, `Rc<A>`: `self.deref().load()`
  | dyn (a : Acc)                 -- `dyn DynAccess`: `DynGuard(Box::new(Access::load(self)))`
  | convert (a : Acc)             -- `AccessConvert(d)`: `self.0.load()`
  | const (v : Val)               -- `Constant(v)`: `ConstantDeref(self.0.clone())`
  deriving DecidableEq, Repr, Inhabited

/-- guards: what `load` returns -/
inductive AGuard where
  | base (snapshot : Val)               -- `Guard`/`DirectDeref`: one snapshot of the container (C10)
  | mapped (g : AGuard) (p : Proj)      -- `MapGuard { guard, projection }`
  | boxed (g : AGuard)                  -- `DynGuard(Box<dyn Deref>)`
  | constant (v : Val)                  -- `ConstantDeref(v)`
  deriving DecidableEq, Repr, Inhabited

/-- `Access::load`, given what the container's own `load` returns at this instant -/
def load (cur : Val) : Acc → AGuard
  | .cell => .base cur
  | .map a p => .mapped (load cur a) p          -- `let guard = self.access.load(); MapGuard { guard, projection: self.projection.clone() }`
  | .ptr a => load cur a
  | .dyn a => .boxed (load cur a)
  | .convert a => load cur a
  | .const v => .constant v

/-- `Deref::deref` of a guard — a function of the guard alone: nothing in it refers to the
    container any more -/
def view : AGuard → Val
  | .base v => v
  | .mapped g p => p.app (view g)               -- `(self.projection)(&self.guard)`
  | .boxed g => view g                          -- `&self.0`
  | .constant v => v

/-- the projection chain an access denotes -/
def chain : Acc → Val → Val
  | .cell, v => v
  | .map a p, v => p.app (chain a v)
  | .ptr a, v => chain a v
  | .dyn a, v => chain a v
  | .convert a, v => chain a v
  | .const c, _ => c

/-- number of loads of the underlying container one `Access::load` performs -/
def loads : Acc → Nat
  | .cell => 1
  | .map a _ => loads a
  | .ptr a => loads a
  | .dyn a => loads a
  | .convert a => loads a
  | .const _ => 0

/-- erase the dynamic-dispatch wrappers -/
def static : Acc → Acc
  | .cell => .cell
  | .map a p => .map (static a) p
  | .ptr a => .ptr (static a)
  | .dyn a => static a
  | .convert a => static a
  | .const v => .const v

end AccessM

namespace AccessM

def Val.render : Val → String
  | .leaf n => toString n
  | .node l r => "(" ++ l.render ++ " " ++ r.render ++ ")"

def cfgVal (k : Nat) : Val := .node (.node (.leaf (10 * k + 1)) (.leaf (10 * k + 2))) (.leaf (10 * k + 3))

def accOfShape (shape chain : String) (k0 : Nat) : Option Acc :=
  match shape, chain with
  | "direct", _ => some .cell
  | "arc", _ => some (.ptr .cell)
  | "ref-arc", _ => some (.ptr (.ptr .cell))
  | "map1", "fst" => some (.map .cell .fst)
  | "map1", "snd" => some (.map .cell .snd)
  | "map2", "fst.fst" => some (.map (.map (.ptr .cell) .fst) .fst)
  | "map2", "fst.snd" => some (.map (.map .cell .fst) .snd)
  | "dyn", _ => some (.ptr (.dyn (.ptr .cell)))
  | "dyn-map1", _ => some (.ptr (.dyn (.map (.ptr .cell) .fst)))
  | "dyn-map-dyn-map", _ => some (.ptr (.dyn (.map (.ptr (.dyn (.map (.ptr .cell) .fst))) .snd)))
  | "convert", _ => some (.convert (.ptr (.dyn (.map (.ptr .cell) .snd))))
  | "constant", _ => some (.const (.leaf k0))
  | "map-const", "fst" => some (.map (.const (cfgVal k0)) .fst)
  | "map-const", "snd" => some (.map (.const (cfgVal k0)) .snd)
  | "map-const", "id" => some (.map (.const (.leaf k0)) .id)
  | "map2-const", "fst.snd" => some (.map (.map (.const (cfgVal k0)) .fst) .snd)
  | "dyn-map-const", "fst" => some (.ptr (.dyn (.map (.const (cfgVal k0)) .fst)))
  | "map-arcself", "id" => some (.map .cell .id)
  | "map1-other-thread", _ => some (.map (.ptr .cell) .fst)
  | "keepalive", _ => some (.map (.ptr .cell) .snd)
  | "keepalive-outlived", _ => some (.map (.ptr .cell) .snd)
  | _, _ => none

def field (l : String) (key : String) : String :=
  match (l.splitOn (key ++ "=")) with
  | _ :: r :: _ => (r.splitOn " ").headD ""
  | _ => ""

/-- the line the model predicts for one observation of the harness: the guard created when the
    container held `cfg k0`, viewed after each later store; then a fresh load -/
def predict (l : String) : String :=
  let shape := field l "shape"; let chain := field l "chain"
  let k0 := (field l "k0").toNat?.getD 0; let stores := (field l "stores").toNat?.getD 0
  match accOfShape shape chain k0 with
  | none => "unknown shape"
  | some a =>
    let g := load (cfgVal k0) a
    let seen := (List.range (stores + 1)).map fun _ => (view g).render
    let fresh := (view (load (cfgVal (k0 + stores)) a)).render
    s!"shape={shape} chain={chain} k0={k0} stores={stores} seen={",".intercalate seen} fresh={fresh}"

end AccessM
