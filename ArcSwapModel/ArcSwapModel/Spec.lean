/-!
# `Spec`: what the user is promised — a plain variable holding the pointer, plus exact ownership

A container is a variable holding (the address of) a value; every handle, every guard and every
container owns one reference to the value it denotes; a value is destroyed exactly when its last
owner goes away (its address may then be handed out again — lowest free address first, the pool
policy of the harness).  Sequential: each operation is one step.  This is the oracle of C14 (all
strategies implement it) and the specification the concurrent properties are stated against.
-/

namespace Spec

def upd {α : Type} (f : Nat → α) (i : Nat) (v : α) : Nat → α := fun j => if j = i then v else f j

structure Obj where
  live : Bool := false
  id : Nat := 0
  owners : Nat := 0
  val : Nat := 0
  deriving Repr, Inhabited

structure State where
  heap : Nat → Obj := fun _ => {}
  nextId : Nat := 0
  cells : Nat → Option Nat := fun _ => none      -- container → address (0 = None)
  hreg : Nat → Option Nat := fun _ => none
  greg : Nat → Option Nat := fun _ => none
  deriving Inhabited

inductive Cur where
  | h (i : Nat) | g (i : Nat) | null
  deriving Repr, Inhabited

inductive Op where
  | new (h val : Nat) | nullh (h : Nat) | cloneh (h h2 : Nat) | droph (h : Nat)
  | mk (c h : Nat)
  | load (c g : Nat) | loadfull (c h : Nat) | dropg (g : Nat) | ginto (g h : Nat) | gderef (g : Nat)
  | gfrom (h g : Nat)
  | store (c h : Nat) | swap (c h out : Nat)
  | cas (c : Nat) (cur : Cur) (new g : Nat)
  | rcu (c out : Nat)
  | cinto (c h : Nat) | dropc (c : Nat)
  | setgen (v : Nat)
  deriving Repr, Inhabited

def lowestFree (heap : Nat → Obj) (bound : Nat) : Nat :=
  let rec go (k fuel : Nat) : Nat :=
    match fuel with
    | 0 => k
    | fuel + 1 => if (heap k).live then go (k + 1) fuel else k
  go 1 bound

def alloc (s : State) (val : Nat) : State × Nat :=
  let a := lowestFree s.heap 4096
  ({ s with heap := upd s.heap a { live := true, id := s.nextId, owners := 1, val := val }, nextId := s.nextId + 1 }, a)

/-- the record of `a` with one more owner (null is nobody's: unchanged) -/
def bumpUp (heap : Nat → Obj) (a : Nat) : Obj :=
  if a = 0 then heap a else { heap a with owners := (heap a).owners + 1 }

/-- the record of `a` with one owner less; the value is destroyed with its last owner -/
def bumpDown (heap : Nat → Obj) (a : Nat) : Obj :=
  if a = 0 then heap a else
  if (heap a).owners ≤ 1 then { heap a with owners := 0, live := false }
  else { heap a with owners := (heap a).owners - 1 }

/-- one more owner of the value at `a` -/
def own (s : State) (a : Nat) : State := { s with heap := upd s.heap a (bumpUp s.heap a) }
/-- one owner less -/
def disown (s : State) (a : Nat) : State := { s with heap := upd s.heap a (bumpDown s.heap a) }

def ident (s : State) (a : Nat) : String :=
  if a = 0 then "null" else s!"p{a}#{(s.heap a).id}"

/-- one operation: the new state and what the call reports (`skip` when a register it needs is
    empty / occupied, exactly as in the harness) -/
def step (s : State) : Op → State × String
  | .new h val =>
    if (s.hreg h).isSome then (s, "skip") else
    let (s, a) := alloc s val
    ({ s with hreg := upd s.hreg h (some a) }, s!"h{h}={ident s a}")
  | .nullh h =>
    if (s.hreg h).isSome then (s, "skip") else ({ s with hreg := upd s.hreg h (some 0) }, s!"h{h}=null")
  | .cloneh h h2 =>
    if (s.hreg h2).isSome then (s, "skip") else
    match s.hreg h with
    | none => (s, "skip")
    | some a => ({ own s a with hreg := upd s.hreg h2 (some a) }, s!"h{h2}={ident s a}")
  | .droph h =>
    match s.hreg h with
    | none => (s, "skip")
    | some a => (disown { s with hreg := upd s.hreg h none } a, "ok")
  | .mk c h =>
    match s.hreg h with
    | none => (s, "skip")
    | some a =>
      let s1 := { s with hreg := upd s.hreg h none, cells := upd s.cells c (some a) }
      -- a container already in the register is dropped by the assignment
      ((match s.cells c with | none => s1 | some old => disown s1 old), s!"c{c}={ident s a}")
  | .gfrom h g =>
    if (s.greg g).isSome then (s, "skip") else
    match s.hreg h with
    | none => (s, "skip")
    | some a => ({ s with hreg := upd s.hreg h none, greg := upd s.greg g (some a) }, s!"g{g}={ident s a}")
  | .load c g =>
    if (s.greg g).isSome then (s, "skip") else
    match s.cells c with
    | none => (s, "skip")
    | some a => ({ own s a with greg := upd s.greg g (some a) }, s!"g{g}={ident s a}")
  | .loadfull c h =>
    if (s.hreg h).isSome then (s, "skip") else
    match s.cells c with
    | none => (s, "skip")
    | some a => ({ own s a with hreg := upd s.hreg h (some a) }, s!"h{h}={ident s a}")
  | .dropg g =>
    match s.greg g with
    | none => (s, "skip")
    | some a => (disown { s with greg := upd s.greg g none } a, "ok")
  | .ginto g h =>
    if (s.hreg h).isSome then (s, "skip") else
    match s.greg g with
    | none => (s, "skip")
    | some a => ({ s with greg := upd s.greg g none, hreg := upd s.hreg h (some a) }, s!"h{h}={ident s a}")
  | .gderef g =>
    match s.greg g with
    | none => (s, "skip")
    | some a => (s, s!"{ident s a} val={if a = 0 then 0 else (s.heap a).val}")
  | .store c h =>
    match s.cells c with
    | none => (s, "skip")
    | some old =>
      match s.hreg h with
      | none => (s, "skip")
      | some a => (disown { s with hreg := upd s.hreg h none, cells := upd s.cells c (some a) } old, "ok")
  | .swap c h out =>
    match s.cells c with
    | none => (s, "skip")
    | some old =>
      match s.hreg h with
      | none => (s, "skip")
      | some a =>
        let s1 := { s with hreg := upd s.hreg h none }
        if (s1.hreg out).isSome then (s, "skip")
        else ({ s1 with cells := upd s.cells c (some a), hreg := upd s1.hreg out (some old) }, s!"h{out}={ident s old}")
  | .cas c cur new g =>
    if (s.greg g).isSome then (s, "skip") else
    match s.cells c with
    | none => (s, "skip")
    | some old =>
      match s.hreg new with
      | none => (s, "skip")
      | some a =>
        let s1 := { s with hreg := upd s.hreg new none }
        let curv : Option Nat := match cur with
          | .null => some 0
          | .h i => s1.hreg i
          | .g i => s1.greg i
        match curv with
        | none => (s, "skip")
        | some cv =>
          if old = cv then
            -- replaces: the cell's reference to the old value becomes the returned guard's
            ({ s1 with cells := upd s1.cells c (some a), greg := upd s1.greg g (some old) }, s!"g{g}={ident s old}")
          else
            -- does not: a guard to the value found, and the rejected value loses its reference
            let s2 := own s1 old
            (disown { s2 with greg := upd s2.greg g (some old) } a, s!"g{g}={ident s old}")
  | .rcu c out =>
    if (s.hreg out).isSome then (s, "skip") else
    match s.cells c with
    | none => (s, "skip")
    | some old =>
      let v := if old = 0 then 0 else (s.heap old).val
      let (s1, a) := alloc s (v + 1)
      ({ s1 with cells := upd s1.cells c (some a), hreg := upd s1.hreg out (some old) }, s!"h{out}={ident s old} tries=1")
  | .cinto c h =>
    if (s.hreg h).isSome then (s, "skip") else
    match s.cells c with
    | none => (s, "skip")
    | some a => ({ s with cells := upd s.cells c none, hreg := upd s.hreg h (some a) }, s!"h{h}={ident s a}")
  | .dropc c =>
    match s.cells c with
    | none => (s, "skip")
    | some a => (disown { s with cells := upd s.cells c none } a, "ok")
  | .setgen _ => (s, "ok")

/-- the strong count of every live value, as the user can observe it once borrowed references are
    counted in: `p<a>=<owners>` for every live address below `bound` -/
def counts (s : State) (bound : Nat) : String :=
  " ".intercalate ((List.range bound).filterMap fun a =>
    if (s.heap a).live then some s!"p{a}={(s.heap a).owners}" else none)

def run (s : State) : List Op → State
  | [] => s
  | o :: os => run (step s o).1 os

/-! ## A few laws of the specification itself (what "a plain variable" means) -/

/-- a load returns the value the container holds, and does not change what any container holds -/
theorem load_returns_current (s : State) (c g a : Nat) (hc : s.cells c = some a) (hg : s.greg g = none) :
    (step s (.load c g)).1.greg g = some a ∧ (step s (.load c g)).1.cells = s.cells := by
  simp only [step, hg, hc]
  simp [own, upd]

/-- swap returns exactly the previous content and installs the new one -/
theorem swap_returns_previous (s : State) (c h out old a : Nat) (hc : s.cells c = some old)
    (hh : s.hreg h = some a) (ho : (upd s.hreg h none) out = none) :
    (step s (.swap c h out)).1.cells c = some a ∧ (step s (.swap c h out)).1.hreg out = some old := by
  have ho2 : ((upd s.hreg h none) out).isSome = false := by rw [ho]; rfl
  simp only [step, hc, hh, ho2]
  simp [upd]

@[simp] theorem own_cells (s : State) (a : Nat) : (own s a).cells = s.cells := rfl
@[simp] theorem disown_cells (s : State) (a : Nat) : (disown s a).cells = s.cells := rfl

/-- compare-and-swap (here with `current` = null; the other forms differ only in where the
    compared address comes from) installs `new` iff the content equals `current`, and otherwise
    leaves the content alone -/
theorem cas_content (s : State) (c new g old a : Nat) (hc : s.cells c = some old) (hn : s.hreg new = some a)
    (hg : s.greg g = none) :
    (step s (.cas c .null new g)).1.cells c = if old = 0 then some a else some old := by
  simp only [step, hg, hc, hn]
  by_cases h0 : old = 0
  · simp [h0, upd]
  · simp [h0, hc]

end Spec
