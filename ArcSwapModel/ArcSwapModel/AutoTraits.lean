import ArcSwapModel.AutoTraitsTable

/-!
# `AutoTraits`: structural `Send`/`Sync` inference over the crate's generated struct table

A model of rustc's auto-trait rules, as data: a struct is `Send`/`Sync` iff all its fields are,
unless an explicit (`unsafe`) impl or a negative impl in the source says otherwise;
`&T: Send ⇔ T: Sync`, `&T: Sync ⇔ T: Sync`, `PhantomData<T>` as `T`, atomics both, raw pointers
neither, `Arc<T>: Send/Sync ⇔ T: Send ∧ Sync`, `Rc` neither, `Weak` as its strong kind, `Option`,
`ManuallyDrop`, `Box` as their content, `dyn Trait` only what its bounds say, `fn` pointers both.
Types are the translator's type trees (`S`); struct definitions, explicit impls, type aliases and
associated-type definitions are looked up in `Generated` — so an added `unsafe impl Send`, a
`PhantomData<T>` turned into `PhantomData<*const T>`, or a new field changes the verdicts below.
The rules themselves are validated against rustc in the correspondence check.
-/

namespace AutoTraits
open S

def itemName (s : S) : Option String := (s.kid 0).atom?
def isSuffix (suf l : List Char) : Bool := suf.isSuffixOf l


inductive Tr where
  | send | sync
  deriving DecidableEq, Repr

def Tr.name : Tr → String
  | .send => "Send"
  | .sync => "Sync"

/-! ## Building type trees -/

def tp (name : String) (args : List S) : S := nd "tpath" [nd "seg" (.a name :: args)]
def tref (t : S) : S := nd "tref" [.a "static", t]
/-- an opaque pointee with given auto-trait flags -/
def flags (send sync : Bool) : S := nd "flags" [.a (if send then "1" else "0"), .a (if sync then "1" else "0")]
def tfn : S := nd "tfn" [nd "ins" [], nd "unit" []]

/-! ## The struct table -/

/-- the struct table: a literal copy (`AutoTraits.Golden.table`) of the relevant items of the
    source, proved equal to what the *current* source gives by `Tie.AutoTraitsTable.table_tie` -/
def allItems : List S := Golden.table

def structDef (name : String) : Option S :=
  allItems.find? fun s => s.isTag "structdef" && itemName s == some name

def typeAlias (name : String) : Option S :=
  allItems.find? fun s => s.isTag "typealias" && itemName s == some name

def tparams (generics : S) : List String :=
  generics.kids.filterMap fun p => if p.isTag "tparam" then (p.kid 0).atom? else none

def headName (t : S) : Option String :=
  if t.isTag "tpath" then
    match t.kids with
    | [seg] => (seg.kid 0).atom?
    | _ => none
  else none

/-- explicit impls of an auto trait for a nominal type: `(negative, unsafe)` for each -/
def explicitImpls (tr : Tr) (name : String) : List Bool :=
  allItems.filterMap fun s =>
    if s.isTag "impl" && (s.kid 2).atom? == some tr.name && headName (s.kid 3) == some name then
      some ((s.kid 1).atom? == some "neg")
    else none

/-- definition of an associated type `…::<assoc>` for a type whose head is `head` -/
def assocDef (head assoc : String) : Option S :=
  (allItems.find? fun s =>
    s.isTag "assoctype" &&
      (match (s.kid 0).atom? with
       | some nm =>
         let cs := nm.toList
         isSuffix ("::" ++ assoc).toList cs && (("<" ++ head).toList.isPrefixOf cs)
       | none => false)).map (·.kid 1)

/-! ## Substitution of type parameters -/

def lookup (env : List (String × S)) (n : String) : Option S :=
  (env.find? (·.1 == n)).map (·.2)

/-- replace single-segment, argument-free paths naming a parameter by their binding -/
def subst (env : List (String × S)) : S → S
  | a s => a s
  | nil => nil
  | cons h t => cons (subst env h) (subst env t)
  | n tg k =>
    if tg == "tpath" then
      match toList k with
      | [seg] =>
        match seg with
        | n "seg" (cons (a nm) nil) =>
          match lookup env nm with
          | some b => b
          | none => n tg (subst env k)
        | _ => n tg (subst env k)
      | _ => n tg (subst env k)
    else n tg (subst env k)

/-! ## The rules -/

def stdBoth : List String :=
  ["usize", "u8", "u16", "u32", "u64", "isize", "i8", "i32", "i64", "bool", "char", "String", "str",
   "AtomicPtr", "AtomicUsize", "AtomicBool", "RwLock", "Mutex"]

/-- `auto tr fuel t`: is the closed type `t` `Send`/`Sync`? -/
def auto (tr : Tr) : Nat → S → Bool
  | 0, _ => false
  | fuel + 1, t =>
    match t with
    | n "flags" k =>
      match toList k, tr with
      | [a s, _], .send => s == "1"
      | [_, a y], .sync => y == "1"
      | _, _ => false
    | n "unit" _ => true
    | n "tref" k => auto .sync fuel ((toList k).getD 1 nil)
    | n "tmutref" k => auto tr fuel ((toList k).getD 1 nil)
    | n "tconstptr" _ => false
    | n "tmutptr" _ => false
    | n "tfn" _ => true
    | n "tnever" _ => true
    | n "tdyn" k =>
      (toList k).any fun b => b.isTag "bound" && headName (b.kid 0) == some tr.name
    | n "ttuple" k => (toList k).all (auto tr fuel)
    | n "tarray" k => auto tr fuel ((toList k).headD nil)
    | n "tslice" k => auto tr fuel ((toList k).headD nil)
    | n "tpath" k =>
      match toList k with
      | [seg] =>
        let nm := (seg.kid 0).atom?.getD ""
        let args := (seg.kids.drop 1).filter fun x => !(x.isTag "lt")
        if stdBoth.contains nm then true
        else if nm == "Arc" || nm == "Weak" then args.all fun x => auto .send fuel x && auto .sync fuel x
        else if nm == "Rc" || nm == "RcWeak" then false
        else if nm == "Cell" || nm == "RefCell" || nm == "UnsafeCell" then
          match tr with
          | .send => args.all (auto .send fuel)
          | .sync => false
        else if nm == "Option" || nm == "Box" || nm == "ManuallyDrop" || nm == "PhantomData" || nm == "Vec" then
          args.all (auto tr fuel)
        else
          match explicitImpls tr nm with
          | neg :: _ => !neg            -- an explicit impl decides (bounds of unsafe impls are not modelled: none exist)
          | [] =>
            match structDef nm with
            | some sd =>
              let env := List.zip (tparams (sd.kid 1)) args
              ((sd.kid 3).kids.all fun f => auto tr fuel (subst env (f.kid 1)))
            | none =>
              match typeAlias nm with
              | some al =>
                let env := List.zip (tparams (al.kid 1)) args
                auto tr fuel (subst env (al.kid 2))
              | none => false        -- unknown type: claim nothing
      | [seg1, seg2] =>
        -- an associated type `X::Name` of a (substituted) type `X`
        let assoc := (seg2.kid 0).atom?.getD ""
        let base := n "tpath" (ofList [seg1])
        let head := (seg1.kid 0).atom?.getD ""
        if assoc == "Base" then
          -- `<K as RefCnt>::Base`: the pointee of the pointer kind
          if head == "Option" then auto tr fuel (n "tpath" (ofList [n "seg" (ofList [a "Assoc2"])]))  -- see `baseOf`
          else (seg1.kids.drop 1).all (auto tr fuel)
        else
          match assocDef head assoc with
          | some rhs => auto tr fuel rhs
          | none => auto tr fuel base && false
      | _ => false
    | _ => false

/-- `T::Base` under `Option`s: strip them first (the struct table never needs this on an `Option`
    kind directly because `AtomicPtr<T::Base>` is `Send + Sync` whatever `T::Base` is). -/
def baseOf : S → S
  | n "tpath" k =>
    match toList k with
    | [seg] => if (seg.kid 0).atom? == some "Option" then
        match seg.kids.drop 1 with
        | [x] => x
        | _ => n "tpath" k
      else n "tpath" k
    | _ => n "tpath" k
  | t => t

def isSend (t : S) : Bool := auto .send 10 t
def isSync (t : S) : Bool := auto .sync 10 t

/-! ## The instantiations the property quantifies over -/

inductive PK where
  | arc | rc | optArc | optRc | weak
  deriving DecidableEq, Repr

def PK.ty (p : S) : PK → S
  | .arc => tp "Arc" [p]
  | .rc => tp "Rc" [p]
  | .optArc => tp "Option" [tp "Arc" [p]]
  | .optRc => tp "Option" [tp "Rc" [p]]
  | .weak => tp "Weak" [p]

inductive Strat where
  | default | noFast | rwLock
  deriving DecidableEq, Repr

def Strat.ty : Strat → S
  | .default => tp "HybridStrategy" [tp "DefaultConfig" []]
  | .noFast => tp "HybridStrategy" [tp "NoFastSlots" []]
  | .rwLock => tp "RwLock" [nd "unit" []]

inductive W where
  | arcSwap | guard | cacheRef | cacheArc | mapCache | mapRef | mapArc | mapGuard | directDeref
  | constant | constantDeref | accessConvert | dynGuard
  deriving DecidableEq, Repr

/-- `Guard<K, S>` has the field `inner: S::Protected`; the associated type is resolved through the
    strategy's `InnerStrategy` impl in the generated table, with the impl's `T` bound to `K`. -/
def protectedOf (k : S) (st : Strat) : S :=
  match st with
  | .rwLock => subst [("T", k)] ((assocDef "RwLock" "Protected").getD nil)
  | _ => subst [("T", k)] ((assocDef "HybridStrategy" "Protected").getD nil)

/-- The `Guard` struct with its `S::Protected` field resolved. -/
def guardTy (k : S) (st : Strat) : S :=
  -- a synthetic closed tuple of the field types of `Guard<K, S>` after resolving `S::Protected`
  match structDef "Guard" with
  | some sd =>
    nd "ttuple" ((sd.kid 3).kids.map fun f =>
      let ft := f.kid 1
      if (ft.atoms.contains "Protected") then protectedOf k st else subst [("T", k), ("S", st.ty)] ft)
  | none => nil

def W.ty (k : S) (st : Strat) : W → S
  | .arcSwap => tp "ArcSwapAny" [k, st.ty]
  | .guard => guardTy k st
  | .cacheRef => tp "Cache" [tref (tp "ArcSwapAny" [k, st.ty]), k]
  | .cacheArc => tp "Cache" [tp "Arc" [tp "ArcSwapAny" [k, st.ty]], k]
  | .mapCache => tp "MapCache" [tref (tp "ArcSwapAny" [k, st.ty]), k, tfn]
  | .mapRef => tp "Map" [tref (tp "ArcSwapAny" [k, st.ty]), k, tfn]
  | .mapArc => tp "Map" [tp "Arc" [tp "ArcSwapAny" [k, st.ty]], k, tfn]
  | .mapGuard => tp "MapGuard" [guardTy k st, tfn, k, tp "u8" []]
  | .directDeref => nd "ttuple" [guardTy k st]     -- `DirectDeref(Guard<T, S>)`
  | .constant => tp "Constant" [k]
  | .constantDeref => tp "ConstantDeref" [k]
  | .accessConvert => tp "AccessConvert" [tp "Arc" [tp "ArcSwapAny" [k, st.ty]]]
  | .dynGuard => tp "DynGuard" [k]

def allW : List W :=
  [.arcSwap, .guard, .cacheRef, .cacheArc, .mapCache, .mapRef, .mapArc, .mapGuard, .directDeref,
   .constant, .constantDeref, .accessConvert, .dynGuard]
def allPK : List PK := [.arc, .rc, .optArc, .optRc, .weak]
def allStrat : List Strat := [.default, .noFast, .rwLock]
def allFlags : List (Bool × Bool) := [(true, true), (true, false), (false, true), (false, false)]

structure Case where
  w : W
  pk : PK
  st : Strat
  send : Bool
  sync : Bool
  deriving DecidableEq, Repr

def cases : List Case :=
  allW.flatMap fun w => allPK.flatMap fun pk => allStrat.flatMap fun st =>
    allFlags.map fun f => ⟨w, pk, st, f.1, f.2⟩

def Case.kind (c : Case) : S := c.pk.ty (flags c.send c.sync)
def Case.ty (c : Case) : S := c.w.ty c.kind c.st

end AutoTraits

namespace AutoTraits

/-! ## Rust syntax of the instantiations (for the comparison with rustc) -/

def pointeeName (send sync : Bool) : String :=
  match send, sync with
  | true, true => "PSS" | true, false => "PSN" | false, true => "PNS" | false, false => "PNN"

def PK.rust (p : String) : PK → String
  | .arc => s!"std::sync::Arc<{p}>"
  | .rc => s!"std::rc::Rc<{p}>"
  | .optArc => s!"Option<std::sync::Arc<{p}>>"
  | .optRc => s!"Option<std::rc::Rc<{p}>>"
  | .weak => s!"std::sync::Weak<{p}>"

def Strat.rust : Strat → String
  | .default => "arc_swap::DefaultStrategy"
  | .noFast => "arc_swap::strategy::test_strategies::FillFastSlots"
  | .rwLock => "std::sync::RwLock<()>"

def Case.rust (c : Case) : String :=
  let k := c.pk.rust (pointeeName c.send c.sync)
  let st := c.st.rust
  let as_ := s!"arc_swap::ArcSwapAny<{k}, {st}>"
  let fn_ := s!"for<'a> fn(&'a {k}) -> &'a u8"
  match c.w with
  | .arcSwap => as_
  | .guard => s!"arc_swap::Guard<{k}, {st}>"
  | .cacheRef => s!"arc_swap::cache::Cache<&'static {as_}, {k}>"
  | .cacheArc => s!"arc_swap::cache::Cache<std::sync::Arc<{as_}>, {k}>"
  | .mapCache => s!"arc_swap::cache::MapCache<&'static {as_}, {k}, {fn_}>"
  | .mapRef => s!"arc_swap::access::Map<&'static {as_}, {k}, {fn_}>"
  | .mapArc => s!"arc_swap::access::Map<std::sync::Arc<{as_}>, {k}, {fn_}>"
  | .mapGuard => s!"arc_swap::access::MapGuard<arc_swap::Guard<{k}, {st}>, {fn_}, {k}, u8>"
  | .directDeref => s!"arc_swap::access::DirectDeref<{k}, {st}>"
  | .constant => s!"arc_swap::access::Constant<{k}>"
  | .constantDeref => s!"arc_swap::access::ConstantDeref<{k}>"
  | .accessConvert => s!"arc_swap::access::AccessConvert<std::sync::Arc<{as_}>>"
  | .dynGuard => s!"arc_swap::access::DynGuard<{k}>"

def tableLines : List String :=
  cases.map fun c => s!"{if isSend c.ty then 1 else 0}|{if isSync c.ty then 1 else 0}|{c.rust}"

end AutoTraits
