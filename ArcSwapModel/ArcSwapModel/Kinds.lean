/-!
# `Kinds`: the pointer kinds accepted by `RefCnt`, and std's reference counts

A model of `src/ref_cnt.rs` and `src/weak.rs`: the trait methods of `Arc<T>`, `Rc<T>`,
`Option<K>` (any nesting) and, with the `weak` feature, `sync::Weak<T>` and `rc::Weak<T>`,
transcribed over a model of std's counts (strong count, weak count as reported by
`strong_count`/`weak_count`, "value dropped" at strong = 0).  What std's `into_raw`/`from_raw`/
`clone`/`drop`/`Weak::new`/`Weak::ptr_eq` do to the counts is the *assumption* here (validated by
running the real impls in the correspondence check); what the crate's impls make of them is what
the theorems are about.
-/

namespace Kinds

inductive Base where
  | arc | rc | weakArc | weakRc
  deriving DecidableEq, Repr, Inhabited

def Base.isWeak : Base → Bool
  | .weakArc | .weakRc => true
  | _ => false

/-- A pointer kind: a base kind under `opts` layers of `Option`. -/
structure Kind where
  base : Base
  opts : Nat
  deriving DecidableEq, Repr, Inhabited

/-- A value of kind `k`: `Some^lvl(None)` when `tgt = none` (then `lvl < opts`), or
    `Some^opts(base pointer)`; a base pointer refers to allocation `some n`, or is the dangling
    `Weak::new()` (`none`; weak kinds only). -/
inductive PV where
  | nones (lvl : Nat)                 -- Some^lvl(None)
  | full (tgt : Option Nat)           -- Some^opts(ptr), tgt = none: dangling Weak
  deriving DecidableEq, Repr, Inhabited

def PV.wf (k : Kind) : PV → Bool
  | .nones lvl => lvl < k.opts
  | .full none => k.base.isWeak
  | .full (some _) => true

/-- the allocation a value refers to, if any -/
def PV.target : PV → Option Nat
  | .full (some n) => some n
  | _ => none

structure St where
  strong : Nat → Nat := fun _ => 0
  weak : Nat → Nat := fun _ => 0
  deriving Inhabited

/-- the pointee value has been dropped -/
def St.dropped (s : St) (n : Nat) : Bool := s.strong n = 0

def updN (f : Nat → Nat) (i v : Nat) : Nat → Nat := fun j => if j = i then v else f j

/-- `Clone` of a base pointer (std): a strong pointer adds to `strong`, a non-dangling `Weak` to `weak`. -/
def cloneBase (b : Base) (s : St) : Option Nat → St
  | none => s
  | some n => if b.isWeak then { s with weak := updN s.weak n (s.weak n + 1) }
              else { s with strong := updN s.strong n (s.strong n + 1) }

/-- `Drop` of a base pointer (std). -/
def dropBase (b : Base) (s : St) : Option Nat → St
  | none => s
  | some n => if b.isWeak then { s with weak := updN s.weak n (s.weak n - 1) }
              else { s with strong := updN s.strong n (s.strong n - 1) }

/-- raw pointers: `none` is null -/
abbrev Raw := Option Nat

/-- `RefCnt::into_ptr`: `Arc::into_raw`/`Rc::into_raw` (no count change); `Weak`: null for the
    dangling sentinel (`Weak::ptr_eq(&Weak::new(), &me)`), else `Weak::into_raw`;
    `Option`: `me.map(T::into_ptr).unwrap_or_else(ptr::null_mut)`. -/
def intoPtr (_k : Kind) (v : PV) (s : St) : Raw × St :=
  match v with
  | .nones _ => (none, s)
  | .full t => (t, s)

/-- `RefCnt::as_ptr`: for `Arc`/`Rc`, `into_raw(ptr::read(me))` then `forget(from_raw(ptr))` —
    no count is touched; `Weak`: the sentinel test, else `Weak::as_ptr`; `Option`:
    `me.as_ref().map(T::as_ptr).unwrap_or_else(ptr::null_mut)`. -/
def asPtr (_k : Kind) (v : PV) (s : St) : Raw × St :=
  match v with
  | .nones _ => (none, s)
  | .full t => (t, s)

/-- `RefCnt::from_ptr`: `Option`: `if ptr.is_null() { None } else { Some(T::from_ptr(ptr)) }` at
    every layer; `Weak`: `if ptr.is_null() { Weak::new() } else { Weak::from_raw(ptr) }`;
    `Arc`/`Rc`: `from_raw`. -/
def fromPtr (k : Kind) (p : Raw) : PV :=
  match p with
  | some n => .full (some n)
  | none => if k.opts = 0 then .full none else .nones 0

def cloneV (k : Kind) (v : PV) (s : St) : St :=
  match v with
  | .nones _ => s
  | .full t => cloneBase k.base s t

def dropV (k : Kind) (v : PV) (s : St) : St :=
  match v with
  | .nones _ => s
  | .full t => dropBase k.base s t

/-- `RefCnt::inc` (default method): `Self::into_ptr(Self::clone(me))` -/
def inc (k : Kind) (v : PV) (s : St) : Raw × St :=
  intoPtr k v (cloneV k v s)

/-- `RefCnt::dec` (default method): `drop(Self::from_ptr(ptr))` -/
def dec (k : Kind) (p : Raw) (s : St) : St :=
  dropV k (fromPtr k p) s

end Kinds
