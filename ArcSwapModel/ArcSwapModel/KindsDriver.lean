import ArcSwapModel.Kinds
/-! Prints, for every (kind, state, op), the observation line the harness prints for the real impls. -/
namespace Kinds

def PV.desc : PV → String
  | .nones k => s!"nones{k}"
  | .full none => "dangling"
  | .full (some _) => "full"

def delta (a b : St) (n : Nat) : String :=
  let ds : Int := (b.strong n : Int) - (a.strong n : Int)
  if a.strong n = 0 ∨ b.strong n = 0 then s!"ds={ds} dw=na"
  else s!"ds={ds} dw={(b.weak n : Int) - (a.weak n : Int)}"

def b01 (b : Bool) : String := if b then "1" else "0"

def observe (name state : String) (k : Kind) (v : PV) (s : St) : List String :=
  let head := s!"kind={name} state={state}"
  let (p, s1) := intoPtr k v s
  let back := fromPtr k p
  let (a, s2) := asPtr k v s
  let (q, s3) := inc k v s
  let s4 := dec k q s3
  [ s!"{head} op=roundtrip null={b01 p.isNone} {delta s s1 1} {delta s s1 1} was={v.desc} back={back.desc}",
    s!"{head} op=as_ptr null={b01 a.isNone} {delta s s2 1} same_addr={b01 (a == (intoPtr k v s).1)}",
    s!"{head} op=inc null={b01 q.isNone} {delta s s3 1} same_addr={b01 (q == (asPtr k v s).1)}",
    s!"{head} op=dec {delta s3 s4 1}" ]

def st (strong weak : Nat) : St := { strong := fun n => if n = 1 then strong else 0, weak := fun n => if n = 1 then weak else 0 }
/-- a state with no allocation at all: the harness reports zero deltas there -/
def st0 : St := { strong := fun _ => 1, weak := fun _ => 0 }

def lines : List String :=
  let strongStates := [("unique", st 1 0), ("shared", st 3 0), ("weakout", st 1 2)]
  let weakStates := [("live", st 1 1), ("shared", st 2 3), ("dropped", st 0 1)]
  let strongKinds := [("arc", Base.arc), ("rc", Base.rc)]
  let weakKinds := [("weakarc", Base.weakArc), ("weakrc", Base.weakRc)]
  (strongKinds.flatMap fun (nm, b) =>
    (strongStates.flatMap fun (sn, s) =>
      observe nm sn ⟨b, 0⟩ (.full (some 1)) s ++
      observe s!"opt-{nm}" sn ⟨b, 1⟩ (.full (some 1)) s ++
      observe s!"opt-opt-{nm}" sn ⟨b, 2⟩ (.full (some 1)) s) ++
    observe s!"opt-{nm}" "none" ⟨b, 1⟩ (.nones 0) st0 ++
    observe s!"opt-opt-{nm}" "none" ⟨b, 2⟩ (.nones 0) st0 ++
    observe s!"opt-opt-{nm}" "somenone" ⟨b, 2⟩ (.nones 1) st0) ++
  (weakKinds.flatMap fun (nm, b) =>
    (weakStates.flatMap fun (sn, s) =>
      observe nm sn ⟨b, 0⟩ (.full (some 1)) s ++
      observe s!"opt-{nm}" sn ⟨b, 1⟩ (.full (some 1)) s) ++
    observe nm "dangling" ⟨b, 0⟩ (.full none) st0 ++
    observe s!"opt-{nm}" "dangling" ⟨b, 1⟩ (.full none) st0 ++
    observe s!"opt-{nm}" "none" ⟨b, 1⟩ (.nones 0) st0)

end Kinds
