import ArcSwapModel.Extract

/-!
# `WM`: release/acquire views — what an atomic access makes visible

The view-based operational reading of the C11 release/acquire fragment (the one race detectors
and the "promising" semantics without promises use).  A thread has a *view*: the set of plain
(non-atomic) events that happen-before its current point — for us: initialisations of pointees and
accesses made through handles — and, per atomic location, the newest timestamp it is aware of.
Every store leaves a *message* (location, timestamp, value, the view it releases); a load may
read **any** message of the location that is not older than what the thread is already aware of
(stale reads), and learns the message's view only if it is an acquire; a read-modify-write reads
the newest message and its message continues the release sequence (it carries the view of the
message it read, plus the thread's own if it is a release).  Relaxed accesses carry and learn
nothing.  `SeqCst` is treated as `AcqRel` here: the additional total order restricts *which*
message is read, and every theorem below holds for whichever message is read, so it is sound to
ignore it (the total-order part is the business of the machine `M` and of C01, not of publication).

The plain access `e` by thread with view `V` is race-free w.r.t. an earlier conflicting access
`e'` iff `V.ev e'` — the conflicting access happens-before it.
-/

namespace WM
open Extract (Ord)

def isAcq : Ord → Bool
  | .acquire | .acqRel | .seqCst => true
  | _ => false

def isRel : Ord → Bool
  | .release | .acqRel | .seqCst => true
  | _ => false

structure View where
  /-- plain events known to have happened before -/
  ev : Nat → Prop
  /-- per atomic location: newest timestamp the thread is aware of -/
  ts : Nat → Nat

def View.bot : View := ⟨fun _ => False, fun _ => 0⟩

def View.join (a b : View) : View := ⟨fun e => a.ev e ∨ b.ev e, fun l => max (a.ts l) (b.ts l)⟩

def View.le (a b : View) : Prop := (∀ e, a.ev e → b.ev e) ∧ (∀ l, a.ts l ≤ b.ts l)

/-- the thread performs a plain event itself -/
def View.did (v : View) (e : Nat) : View := ⟨fun x => x = e ∨ v.ev x, v.ts⟩

structure Msg where
  loc : Nat
  ts : Nat
  val : Nat
  view : View

/-- a thread with view `V` may read `m`: it is not older than what the thread is aware of -/
def canRead (V : View) (m : Msg) : Prop := V.ts m.loc ≤ m.ts

/-- the thread's view after reading `m` with ordering `o` -/
def afterRead (o : Ord) (V : View) (m : Msg) : View :=
  let V1 : View := ⟨V.ev, fun l => if l = m.loc then max (V.ts l) m.ts else V.ts l⟩
  if isAcq o then V1.join m.view else V1

/-- what a store with ordering `o` releases -/
def released (o : Ord) (V : View) : View := if isRel o then V else View.bot

/-- message left by a plain store of `v` at timestamp `t` (any `t` newer than what the thread is aware of) -/
def storeMsg (o : Ord) (V : View) (loc t v : Nat) : Msg :=
  ⟨loc, t, v, released o ⟨V.ev, fun l => if l = loc then t else V.ts l⟩⟩

/-- message left by a read-modify-write that read `m` (it sits right after `m`): release-sequence
    continuation — it carries `m`'s view whatever its own ordering is -/
def rmwMsg (o : Ord) (V : View) (m : Msg) (v : Nat) : Msg :=
  let V' := afterRead o V m
  ⟨m.loc, m.ts + 1, v, m.view.join (released o ⟨V'.ev, fun l => if l = m.loc then m.ts + 1 else V'.ts l⟩)⟩

/-! ## The general facts -/

theorem le_refl (a : View) : a.le a := ⟨fun _ h => h, fun _ => Nat.le_refl _⟩
theorem le_trans {a b c : View} (h1 : a.le b) (h2 : b.le c) : a.le c :=
  ⟨fun e h => h2.1 e (h1.1 e h), fun l => Nat.le_trans (h1.2 l) (h2.2 l)⟩
theorem le_join_left (a b : View) : a.le (a.join b) := ⟨fun _ h => Or.inl h, fun _ => Nat.le_max_left _ _⟩
theorem le_join_right (a b : View) : b.le (a.join b) := ⟨fun _ h => Or.inr h, fun _ => Nat.le_max_right _ _⟩

/-- reading never loses knowledge -/
theorem afterRead_mono (o : Ord) (V : View) (m : Msg) : V.le (afterRead o V m) := by
  have h1 : V.le ⟨V.ev, fun l => if l = m.loc then max (V.ts l) m.ts else V.ts l⟩ := by
    refine ⟨fun _ h => h, fun l => ?_⟩
    by_cases h : l = m.loc
    · simp only [h, ↓reduceIte]; exact Nat.le_max_left _ _
    · simp only [h, ↓reduceIte]; exact Nat.le_refl _
  unfold afterRead
  split
  · exact le_trans h1 (le_join_left _ _)
  · exact h1

/-- an acquire read learns everything the message carries -/
theorem acquire_learns (o : Ord) (V : View) (m : Msg) (h : isAcq o = true) : m.view.le (afterRead o V m) := by
  unfold afterRead; simp only [h, ↓reduceIte]; exact le_join_right _ _

/-- after a read the thread is aware of the message's timestamp (coherence: it can no longer
    read anything older at that location) -/
theorem afterRead_ts (o : Ord) (V : View) (m : Msg) : m.ts ≤ (afterRead o V m).ts m.loc := by
  unfold afterRead
  split
  · simp only [View.join, ↓reduceIte]; omega
  · simp only [↓reduceIte]; omega

/-- a release store carries the storing thread's whole view, including the store itself -/
theorem release_carries (o : Ord) (V : View) (loc t v : Nat) (h : isRel o = true) (ht : V.ts loc ≤ t) :
    V.le (storeMsg o V loc t v).view ∧ (storeMsg o V loc t v).view.ts loc = t := by
  simp only [storeMsg, released, h, ↓reduceIte, and_true]
  refine ⟨fun _ h => h, fun l => ?_⟩
  by_cases hl : l = loc
  · subst hl; simp only [↓reduceIte]; exact ht
  · simp only [hl, ↓reduceIte]; exact Nat.le_refl _

/-- a read-modify-write continues the release sequence whatever its ordering -/
theorem rmw_continues (o : Ord) (V : View) (m : Msg) (v : Nat) : m.view.le (rmwMsg o V m v).view := by
  simp only [rmwMsg]; exact le_join_left _ _

/-- a releasing read-modify-write also carries the thread's own view -/
theorem rmw_release_carries (o : Ord) (V : View) (m : Msg) (v : Nat) (h : isRel o = true)
    (hr : canRead V m) : V.le (rmwMsg o V m v).view := by
  have h0 := afterRead_mono o V m
  simp only [rmwMsg, released, h, ↓reduceIte]
  refine le_trans ?_ (le_join_right _ _)
  refine ⟨fun e he => h0.1 e he, fun l => ?_⟩
  by_cases hl : l = m.loc
  · simp only [hl, ↓reduceIte]
    unfold canRead at hr
    omega
  · simp only [hl, ↓reduceIte]; exact h0.2 l

end WM
