import ArcSwapModel.Props.C10
import ArcSwapModel.Props.C04
import ArcSwapModel.Tie.RefCntInc
import ArcSwapModel.Tie.RefCntDec
import ArcSwapModel.Tie.HybridIntoInner
import ArcSwapModel.Tie.HybridDrop
import ArcSwapModel.Tie.HybridFallback
import ArcSwapModel.Tie.HybridAttempt
import ArcSwapModel.Tie.DebtPayAll
import ArcSwapModel.Inv.HoldFinal
import ArcSwapModel.Inv.FaultFree

/-!
# C02 — exact ownership accounting: no leak, no double release, tight reclamation
(partial: every transfer of a reference is matched, step by step; the global sum — "at quiescence
each strong count equals the number of owners" — is not proved yet)

A debt is turned into a reference exactly once because the two parties that can do it (the guard
returning it, a writer paying it) race on **one** compare-exchange of the slot; proved here for
every shared state:

* `pay_is_exclusive`: a pay-off that succeeds empties the slot, so a second pay-off of the same debt
  fails; one that fails changes nothing;
* the reader's side: after a failed pay-back the guard releases exactly one reference
  (`C10.drop_exact`); on promotion it first takes a reference, then pays back, and if the pay-back
  fails releases one (`promote_exact`): net effect one reference, no more, no less;
* the writer's side: the reference it hands over with each successful pay-off is replaced by
  exactly one new one before the next slot is looked at (`writer_restocks`), its initial spare is
  released at the end of the walk (`walk_releases_spare`), and after a successful
  `compare_and_swap` it drops exactly one of its two references to the replaced value;
* **tight reclamation**: the step that takes a count from 1 to 0 is the step that destroys the
  object (`destroyed_in_the_last_dec`); a count is never touched on a dead object without the
  machine entering a fault state (`count_ops_fault_on_dead`).

**Conservation, step by step, for every shared state** (`Inv/Acct.lean`): with
`potential(a) = strong count of a + number of debt slots naming a` and `units` the references a
program counter accounts for (a published debt counts one), *every* step of `load` (both paths),
guard drop, `Guard::into_inner`, the writer's walk with helping, `compare_and_swap` and `rcu`
changes the potential (and what the containers hold) by exactly the change of the stepping thread's
units — `C02_load_conserves`, `C02_guard_drop_conserves`, `C02_promotion_conserves`,
`C02_walk_conserves`, `C02_cas_conserves`, `C02_rcu_conserves`.  No reference is created or lost by
any step, whatever other threads have done; the only steps that move a reference between threads
other than through a slot are the two ends of a hand-over, which move exactly the replacement
(`C02_handover_gives`, `C02_handover_receives`).  Lifted to whole operations with the registers on
the owners' side (`C02_step_conserves`: every micro-step of every thread) and to whole executions
(`C02_global_ledger`: along every execution all of whose steps satisfy `StepOK`, for every value,
strong count + debt slots naming it = containers + handles + guards denoting it + units of the
operations in flight; `C02_quiescent_counts`: with no operation in flight and no slot naming the value the
strong count is exactly the number of owners; `C02_at_rest_counts` proves the slots part too, from
`C02_fast_slot_has_a_holder` and `C02_helping_slot_has_a_holder`: every occupied debt slot has a holder).  The local well-formedness part of `StepOK` (slot
indices in range, the thread's node exists and is below `K`, nodes beyond `nNodes` untouched, a
compare-and-swap's guard denotes `current`, guards in registers well-formed) is proved invariant
(`Inv/AcctWf.lean`, `Inv/AcctNode.lean`, `Wf.step`), so that `C02_global_ledger_env` assumes only
`EnvOK`: about the program (registers are not raced on, `mk` creates fresh containers), the pool
(not exhausted), a bound `K` on the nodes ever linked, that no hand-over succeeds (no control word
ever holds an envelope; the pair of ends is stated separately) and that no fault is raised.

The harness checks the global statement on every execution: at quiescence (all handles, guards and
containers dropped) no object is alive, no count underflowed, every slot is `NONE` — and compares
every count event with the machine's.
-/

namespace C02
open M Consts

/-- one compare-exchange decides: success empties the slot; failure changes nothing -/
theorem pay_is_exclusive (s : Shared) (p n idx : Nat) :
    ((s.nodes n).fast idx = .ptr p →
        ((stepGD s (.pay p n idx)).1.nodes n).fast idx = .none ∧ (stepGD s (.pay p n idx)).2.1 = .done) ∧
    ((s.nodes n).fast idx ≠ .ptr p → (stepGD s (.pay p n idx)).1 = s) := by
  constructor
  · intro h; simp [stepGD, h, Shared.setNode, upd]
  · intro h; simp [stepGD, h]

/-- promotion (`Guard::into_inner`, `load_full`): take one, pay back, release one iff already paid -/
theorem promote_exact (s : Shared) (p n idx : Nat) (hp : p ≠ 0) :
    GI.ofGuard { ptr := p, debt := some (n, idx) } = .inc p n idx ∧
    (stepGI s (.inc p n idx)).2.1 = .pay p n idx ∧
    ((s.nodes n).fast idx = .ptr p → (stepGI s (.pay p n idx)).2.1 = .done) ∧
    ((s.nodes n).fast idx ≠ .ptr p → (stepGI s (.pay p n idx)).2.1 = .dec p) := by
  refine ⟨by simp [GI.ofGuard, hp], by simp [stepGI], ?_, ?_⟩
  · intro h; simp [stepGI, h]
  · intro h; simp [stepGI, h, hp]

/-- the count operations: exactly one up, exactly one down -/
theorem inc_exact (s : Shared) (a : Nat) (h : (s.heap a).live = true) :
    ((incObj s a).1.heap a).cnt = (s.heap a).cnt + 1 ∧ ∀ b, b ≠ a → (incObj s a).1.heap b = s.heap b := by
  simp [incObj, h, upd]
  intro b hb; simp [hb]

theorem dec_exact (s : Shared) (a : Nat) (h : (s.heap a).live = true) (hc : 1 < (s.heap a).cnt) :
    ((decObj s a).1.heap a).cnt = (s.heap a).cnt - 1 ∧ ((decObj s a).1.heap a).live = true ∧
    ∀ b, b ≠ a → (decObj s a).1.heap b = s.heap b := by
  have h0 : (s.heap a).cnt ≠ 0 := by omega
  have h1 : (s.heap a).cnt ≠ 1 := by omega
  simp [decObj, h, h0, h1, upd]
  intro b hb; simp [hb]

/-- **tight reclamation**: the object is destroyed in the very step that releases its last reference -/
theorem destroyed_in_the_last_dec (s : Shared) (a : Nat) (h : (s.heap a).live = true) (hc : (s.heap a).cnt = 1) :
    ((decObj s a).1.heap a).live = false ∧ ((decObj s a).1.heap a).cnt = 0 := by
  simp [decObj, h, hc, upd]

/-- touching the count of a destroyed object is a fault of the machine, never silently absorbed -/
theorem count_ops_fault_on_dead (s : Shared) (a : Nat) (h : (s.heap a).live = false) (hf : s.fault = none) :
    (incObj s a).1.fault = some (.uaf "inc" a) ∧ (decObj s a).1.fault = some (.uaf "dec" a) := by
  simp [incObj, decObj, h, setFault_fault_of_none, hf]

/-- the writer replaces each reference it hands over before it looks at the next slot -/
theorem writer_restocks (cfg : Cfg) (p c : Nat) (s : Shared) (l : Locals) (b : Bool) (n j : Nat)
    (hp : p ≠ 0) (hj : j < slotCnt) (hm : (s.nodes n).fast j = .ptr p) :
    (stepPP cfg p c s l b (.slot n j)).2.2.1 = .slotInc n j ∧
    (stepPP cfg p c s l b (.slotInc n j)).2.2.1 = PP.nextSlot n j := by
  simp [stepPP, hj, hm, hp]

/-- … and releases its initial spare when the walk is over -/
theorem walk_releases_spare (cfg : Cfg) (p c : Nat) (s : Shared) (l : Locals) (b : Bool) (hp : p ≠ 0) :
    (stepPP cfg p c s l b .fin).2.2.1 = .dec ∧ (stepPP cfg p c s l b .dec).2.2.1 = .done := by
  simp [stepPP, hp]

/-- after a successful exchange `compare_and_swap` holds two references to the replaced value (the
    one from the cell, the guard's) and drops exactly one -/
theorem cas_drops_one (cfg : Cfg) (c cur new : Nat) (s : Shared) (l : Locals) (b : Bool) (old : Guard)
    (hp : old.ptr ≠ 0) :
    (stepCP cfg c cur new s l b (.decOld old)).2.2.1 = .done old := by
  simp [stepCP]

example : ((decObj { heap := fun _ => { live := true, cnt := 1 } } 3).1.heap 3).live = false := by
  simp [decObj, upd]

/-! ## Conservation (see the header) -/

theorem C02_load_conserves (K : Nat) (cfg : Cfg) (c : Nat) (s : Shared) (l : Locals) (b : Bool) (lp : LP)
    (hk : lp.ok K) (hn : l.node.getD 0 < K) (hb : Beyond s) (hf : (stepLP cfg c s l b lp).1.fault = none) :
    Cons K s (stepLP cfg c s l b lp).1 (uLP lp) (uLP (stepLP cfg c s l b lp).2.2.1) :=
  stepLP_cons K cfg c s l b lp hk hn hb hf

theorem C02_guard_drop_conserves (K : Nat) (s : Shared) (gd : GD) (hk : gd.ok K) (hf : (stepGD s gd).1.fault = none) :
    Cons K s (stepGD s gd).1 (uGD gd) (uGD (stepGD s gd).2.1) :=
  stepGD_cons K s gd hk hf

theorem C02_promotion_conserves (K r : Nat) (s : Shared) (gi : GI) (hk : gi.ok K r)
    (hf : (stepGI s gi).1.fault = none) : Cons K s (stepGI s gi).1 (uGI r gi) (uGI r (stepGI s gi).2.1) :=
  stepGI_cons K r s gi hk hf

theorem C02_walk_conserves (K : Nat) (cfg : Cfg) (p c : Nat) (s : Shared) (l : Locals) (b : Bool) (pp : PP)
    (hk : pp.ok K) (hn : l.node.getD 0 < K) (hb : Beyond s) (hK : s.nNodes ≤ K)
    (hnh : ∀ h r t m, pp = .h7 h r t m → (s.nodes h.who).control ≠ h.ctl)
    (hf : (stepPP cfg p c s l b pp).1.fault = none) :
    Cons K s (stepPP cfg p c s l b pp).1 (uPP p pp) (uPP p (stepPP cfg p c s l b pp).2.2.1) :=
  stepPP_cons K cfg p c s l b pp hk hn hb hK hnh hf

theorem C02_cas_conserves (K N : Nat) (cfg : Cfg) (c cur new : Nat) (s : Shared) (l : Locals) (b : Bool) (cp : CP)
    (hk : cp.ok K cur) (hn : l.node.getD 0 < K) (hc : c < N) (hb : Beyond s) (hK : s.nNodes ≤ K)
    (hnh : ∀ old h r t m, cp = .pay old (.h7 h r t m) → (s.nodes h.who).control ≠ h.ctl)
    (hf : (stepCP cfg c cur new s l b cp).1.fault = none) :
    ConsC K N s (stepCP cfg c cur new s l b cp).1 (uCP new cp) (uCP new (stepCP cfg c cur new s l b cp).2.2.1) :=
  stepCP_cons K N cfg c cur new s l b cp hk hn hc hb hK hnh hf

theorem C02_rcu_conserves (K N : Nat) (cfg : Cfg) (c : Nat) (s : Shared) (l : Locals) (b : Bool) (tries : Nat) (rp : RP)
    (hk : rp.ok K) (hn : l.node.getD 0 < K) (hc : c < N) (hb : Beyond s) (hK : s.nNodes ≤ K)
    (hnh : ∀ cur a old h r t m, rp = .cas cur a (.pay old (.h7 h r t m)) → (s.nodes h.who).control ≠ h.ctl)
    (hroom : ∀ cur, rp = .attempt cur → ∀ v, (s.heap (alloc s v).2.1).cnt = 0)
    (hf : (stepRP cfg c s l b tries rp).1.fault = none) :
    ConsC K N s (stepRP cfg c s l b tries rp).1 (uRP rp) (uRP (stepRP cfg c s l b tries rp).2.2.1) :=
  stepRP_cons K N cfg c s l b tries rp hk hn hc hb hK hnh hroom hf

theorem C02_handover_gives (K : Nat) (cfg : Cfg) (p c : Nat) (s : Shared) (l : Locals) (b : Bool)
    (h : HL) (r t m : Nat) (hx : (s.nodes h.who).control = h.ctl) (a : Nat) :
    pot K (stepPP cfg p c s l b (.h7 h r t m)).1 a + uPP p (.h7 h r t m) a
      = pot K s a + uPP p (stepPP cfg p c s l b (.h7 h r t m)).2.2.1 a + u r a :=
  stepPP_handover_gives K cfg p c s l b h r t m hx a

theorem C02_handover_receives (K : Nat) (cfg : Cfg) (c : Nat) (s : Shared) (l : Locals) (b : Bool)
    (cand j r : Nat) (he : (s.nodes j).envelope = .ptr r) (a : Nat) :
    pot K (stepLP cfg c s l b (.fr1 cand j)).1 a + uLP (.fr1 cand j) a + u r a
      = pot K s a + uLP (stepLP cfg c s l b (.fr1 cand j)).2.2.1 a :=
  stepLP_handover_receives K cfg c s l b cand j r he a

/-- every micro-step of every thread conserves: potential, registers, the thread's units -/
theorem C02_step_conserves (K N : Nat) (st : State) (t : Nat) (b : Bool)
    (hk : (st.th t).op.ok K N st.sh) (hn : (st.th t).loc.node.getD 0 < K) (hb : Beyond st.sh)
    (hK : st.sh.nNodes ≤ K)
    (hnh : ∀ h r x m, (st.th t).op.pp? = some (.h7 h r x m) → (st.sh.nodes h.who).control ≠ h.ctl)
    (hroom : ∀ v, (st.sh.heap (alloc st.sh v).2.1).cnt = 0)
    (hnext : ∀ txt o rest, (st.th t).prog = (txt, o) :: rest →
      o.below N ∧ (∀ c h, o = .mk c h → st.sh.cells c = none))
    (hf : (microStep st t b).1.sh.fault = none) :
    TCons K N st.sh (microStep st t b).1.sh (uOp (st.th t).op) (uOp ((microStep st t b).1.th t).op) :=
  microStep_cons K N st t b hk hn hb hK hnh hroom hnext hf

/-- **the global sum (conditional on `StepOK` for every step)** -/
theorem C02_global_ledger (K N T : Nat) (cfg : Cfg) (progs : Nat → List (String × Op)) (sched : List (Nat × Bool))
    (hg : GoodRun K N T (State.initial cfg progs) sched) :
    Ledger K N T (run (State.initial cfg progs) sched) :=
  C02_ledger K N T cfg progs sched hg

theorem C02_quiescent_counts {K N T : Nat} {st : State} (h : Ledger K N T st)
    (hidle : ∀ t, t < T → uOp (st.th t).op = fun _ => 0)
    (a : Nat) (ha : a ≠ 0)
    (hslots : ∀ n i, (st.sh.nodes n).fast i ≠ .ptr a ∧ (st.sh.nodes n).hslot ≠ .ptr a) :
    (st.sh.heap a).cnt = st.sh.regs N a :=
  h.quiescent hidle a ha hslots

/-- **the global sum**, assuming only `EnvOK` of every step: program discipline (registers are not
    raced on, `mk` creates fresh containers), the pool is not exhausted, `K` bounds the nodes ever
    linked, no hand-over succeeds, no fault is raised.  The local well-formedness of program
    counters and guards is proved invariant (`Wf.step`). -/
theorem C02_global_ledger_env (K N T : Nat) (hK : 0 < K) (cfg : Cfg) (progs : Nat → List (String × Op))
    (sched : List (Nat × Bool)) (he : EnvRun K N T (State.initial cfg progs) sched) :
    Ledger K N T (run (State.initial cfg progs) sched) :=
  C02_ledger_env K N T hK cfg progs sched he

/-- **every occupied fast slot has a holder** — a guard in a register whose debt is that slot, or an
    operation in flight that carries such a guard or has published the debt and not yet confirmed
    it — in the end state of every execution that keeps the register discipline and raises no
    fault.  ("No borrow slot stays occupied after its guard is gone.") -/
theorem C02_fast_slot_has_a_holder {K N T : Nat} (cfg : Cfg) (progs : Nat → List (String × Op))
    (sched : List (Nat × Bool)) (he : EnvRun0 K N T (State.initial cfg progs) sched)
    (hf : (run (State.initial cfg progs) sched).sh.fault = none) :
    HoldInv (run (State.initial cfg progs) sched) :=
  holdInv_of_env cfg progs sched he hf

/-- **every occupied helping slot has a holder**: the owner's load between `confirm` and `pay` —
    in every reachable state without a fault, no assumption on the program -/
theorem C02_helping_slot_has_a_holder {st : State} (h : Reachable st) (hf : st.sh.fault = none) : HHoldInv st :=
  HHoldInv.reachable h hf

/-- **at rest**: every thread between operations, no register guard with a debt — then no debt slot
    of any node names a value and every strong count is exactly the number of owners -/
theorem C02_at_rest_counts (K N T : Nat) (hK : 0 < K) (cfg : Cfg) (progs : Nat → List (String × Op))
    (sched : List (Nat × Bool)) (he : EnvRun0 K N T (State.initial cfg progs) sched)
    (hf : (run (State.initial cfg progs) sched).sh.fault = none)
    (hidle : ∀ t, ((run (State.initial cfg progs) sched).th t).op = .idle ∨
      ((run (State.initial cfg progs) sched).th t).op = .finished)
    (hg : ∀ g gd, (run (State.initial cfg progs) sched).sh.greg g = some gd → gd.debt = none) :
    (∀ n i a, ((run (State.initial cfg progs) sched).sh.nodes n).fast i ≠ .ptr a ∧
        ((run (State.initial cfg progs) sched).sh.nodes n).hslot ≠ .ptr a) ∧
      ∀ a, a ≠ 0 → ((run (State.initial cfg progs) sched).sh.heap a).cnt =
        (run (State.initial cfg progs) sched).sh.regs N a :=
  C02_at_rest K N T hK cfg progs sched he hf hidle hg

/-- **the global sum, without assuming that no fault is raised.**  `env_run_fault_free`
    (`Inv/FaultFree`): an execution that keeps the program discipline, has room in the pool, links at
    most `K` nodes and in which no hand-over succeeds raises no fault at all — so the ledger holds in
    its end state: strong count + debt slots naming the value = containers + handles + guards
    denoting it + units of the operations in flight. -/
theorem C02_global_ledger_no_fault_assumed_partial (K N T : Nat) (hK : 0 < K) (cfg : Cfg)
    (progs : Nat → List (String × Op)) (sched : List (Nat × Bool))
    (he : EnvRun0 K N T (State.initial cfg progs) sched) :
    Ledger K N T (run (State.initial cfg progs) sched) :=
  C02_ledger_final K N T hK cfg progs sched he (env_run_fault_free K N T hK cfg progs sched he)

/-- **at rest, without assuming that no fault is raised**: every thread between operations, no
    register guard with a debt — then no debt slot of any node names a value and every strong count
    is exactly the number of owners -/
theorem C02_at_rest_counts_no_fault_assumed_partial (K N T : Nat) (hK : 0 < K) (cfg : Cfg)
    (progs : Nat → List (String × Op)) (sched : List (Nat × Bool))
    (he : EnvRun0 K N T (State.initial cfg progs) sched)
    (hidle : ∀ t, ((run (State.initial cfg progs) sched).th t).op = .idle ∨
      ((run (State.initial cfg progs) sched).th t).op = .finished)
    (hg : ∀ g gd, (run (State.initial cfg progs) sched).sh.greg g = some gd → gd.debt = none) :
    (∀ n i a, ((run (State.initial cfg progs) sched).sh.nodes n).fast i ≠ .ptr a ∧
        ((run (State.initial cfg progs) sched).sh.nodes n).hslot ≠ .ptr a) ∧
      ∀ a, a ≠ 0 → ((run (State.initial cfg progs) sched).sh.heap a).cnt =
        (run (State.initial cfg progs) sched).sh.regs N a :=
  C02_at_rest K N T hK cfg progs sched he (env_run_fault_free K N T hK cfg progs sched he) hidle hg

/-- **no double free and no count operation on a destroyed object, ever** along such executions -/
theorem C02_no_double_free_partial (K N T : Nat) (hK : 0 < K) (cfg : Cfg)
    (progs : Nat → List (String × Op)) (sched : List (Nat × Bool))
    (he : EnvRun0 K N T (State.initial cfg progs) sched) (a : Nat) (what : String) :
    (run (State.initial cfg progs) sched).sh.fault ≠ some (.doubleFree a) ∧
      (run (State.initial cfg progs) sched).sh.fault ≠ some (.uaf what a) := by
  rw [env_run_fault_free K N T hK cfg progs sched he]
  exact ⟨(fun h => by cases h), (fun h => by cases h)⟩

/-- non-vacuity: the local well-formedness assumed by the conservation theorems holds of concrete
    program counters on both read paths, of a walk in the middle of a node and of a
    compare-and-swap about to exchange; and a concrete step really moves a unit: publishing a debt
    raises the potential of exactly that address by one -/
example : (LP.a3 5 2).ok 1 ∧ (LP.f4 8 5).ok 1 ∧ True ∧ (CP.cx { ptr := 5, debt := some (0, 2) }).ok 1 5 := by
  refine ⟨?_, trivial, trivial, rfl, ?_⟩
  · show 2 < Consts.slotCnt; decide
  · intro n idx h; simp only [Option.some.injEq, Prod.mk.injEq] at h
    obtain ⟨rfl, rfl⟩ := h
    exact ⟨by decide, by decide⟩

example : pot 1 (stepLP {} 0 {} { node := some 0 } false (.pswap 5 2)).1 5 = pot 1 {} 5 + 1 := by
  decide

end C02
