import ArcSwapModel.Props.C10
import ArcSwapModel.Props.C04
import ArcSwapModel.Tie.RefCntInc
import ArcSwapModel.Tie.RefCntDec
import ArcSwapModel.Tie.HybridIntoInner
import ArcSwapModel.Tie.HybridDrop
import ArcSwapModel.Tie.HybridFallback
import ArcSwapModel.Tie.HybridAttempt
import ArcSwapModel.Tie.DebtPayAll

/-!
# C02 — exact ownership accounting: no leak, no double release, tight reclamation
(partial: every transfer of a reference is matched, step by step; the global sum — "at quiescence
each strong count equals the number of owners" — is not proved yet)

A debt is turned into a reference exactly once because the two parties that can do it (the guard
returning it, a writer paying it) race on **one** compare-exchange of the slot; proved here for
every shared state:

* `pay_is_exclusive`: a pay-off that succeeds empties the slot, so a second pay-off of the same debt
  fails; one that fails changes nothing;
* the reader's side: after a failed pay-back the guard releases exactly one reference
  (`C10.drop_exact`); on promotion it first takes a reference, then pays back, and if the pay-back
  fails releases one (`promote_exact`): net effect one reference, no more, no less;
* the writer's side: the reference it hands over with each successful pay-off is replaced by
  exactly one new one before the next slot is looked at (`writer_restocks`), its initial spare is
  released at the end of the walk (`walk_releases_spare`), and after a successful
  `compare_and_swap` it drops exactly one of its two references to the replaced value;
* **tight reclamation**: the step that takes a count from 1 to 0 is the step that destroys the
  object (`destroyed_in_the_last_dec`); a count is never touched on a dead object without the
  machine entering a fault state (`count_ops_fault_on_dead`).

The harness checks the global statement on every execution: at quiescence (all handles, guards and
containers dropped) no object is alive, no count underflowed, every slot is `NONE` — and compares
every count event with the machine's.
-/

namespace C02
open M Consts

/-- one compare-exchange decides: success empties the slot; failure changes nothing -/
theorem pay_is_exclusive (s : Shared) (p n idx : Nat) :
    ((s.nodes n).fast idx = .ptr p →
        ((stepGD s (.pay p n idx)).1.nodes n).fast idx = .none ∧ (stepGD s (.pay p n idx)).2.1 = .done) ∧
    ((s.nodes n).fast idx ≠ .ptr p → (stepGD s (.pay p n idx)).1 = s) := by
  constructor
  · intro h; simp [stepGD, h, Shared.setNode, upd]
  · intro h; simp [stepGD, h]

/-- promotion (`Guard::into_inner`, `load_full`): take one, pay back, release one iff already paid -/
theorem promote_exact (s : Shared) (p n idx : Nat) (hp : p ≠ 0) :
    GI.ofGuard { ptr := p, debt := some (n, idx) } = .inc p n idx ∧
    (stepGI s (.inc p n idx)).2.1 = .pay p n idx ∧
    ((s.nodes n).fast idx = .ptr p → (stepGI s (.pay p n idx)).2.1 = .done) ∧
    ((s.nodes n).fast idx ≠ .ptr p → (stepGI s (.pay p n idx)).2.1 = .dec p) := by
  refine ⟨by simp [GI.ofGuard, hp], by simp [stepGI], ?_, ?_⟩
  · intro h; simp [stepGI, h]
  · intro h; simp [stepGI, h, hp]

/-- the count operations: exactly one up, exactly one down -/
theorem inc_exact (s : Shared) (a : Nat) (h : (s.heap a).live = true) :
    ((incObj s a).1.heap a).cnt = (s.heap a).cnt + 1 ∧ ∀ b, b ≠ a → (incObj s a).1.heap b = s.heap b := by
  simp [incObj, h, upd]
  intro b hb; simp [hb]

theorem dec_exact (s : Shared) (a : Nat) (h : (s.heap a).live = true) (hc : 1 < (s.heap a).cnt) :
    ((decObj s a).1.heap a).cnt = (s.heap a).cnt - 1 ∧ ((decObj s a).1.heap a).live = true ∧
    ∀ b, b ≠ a → (decObj s a).1.heap b = s.heap b := by
  have h0 : (s.heap a).cnt ≠ 0 := by omega
  have h1 : (s.heap a).cnt ≠ 1 := by omega
  simp [decObj, h, h0, h1, upd]
  intro b hb; simp [hb]

/-- **tight reclamation**: the object is destroyed in the very step that releases its last reference -/
theorem destroyed_in_the_last_dec (s : Shared) (a : Nat) (h : (s.heap a).live = true) (hc : (s.heap a).cnt = 1) :
    ((decObj s a).1.heap a).live = false ∧ ((decObj s a).1.heap a).cnt = 0 := by
  simp [decObj, h, hc, upd]

/-- touching the count of a destroyed object is a fault of the machine, never silently absorbed -/
theorem count_ops_fault_on_dead (s : Shared) (a : Nat) (h : (s.heap a).live = false) (hf : s.fault = none) :
    (incObj s a).1.fault = some (.uaf "inc" a) ∧ (decObj s a).1.fault = some (.uaf "dec" a) := by
  simp [incObj, decObj, h, setFault_fault_of_none, hf]

/-- the writer replaces each reference it hands over before it looks at the next slot -/
theorem writer_restocks (cfg : Cfg) (p c : Nat) (s : Shared) (l : Locals) (b : Bool) (n j : Nat)
    (hp : p ≠ 0) (hj : j < slotCnt) (hm : (s.nodes n).fast j = .ptr p) :
    (stepPP cfg p c s l b (.slot n j)).2.2.1 = .slotInc n j ∧
    (stepPP cfg p c s l b (.slotInc n j)).2.2.1 = PP.nextSlot n j := by
  simp [stepPP, hj, hm, hp]

/-- … and releases its initial spare when the walk is over -/
theorem walk_releases_spare (cfg : Cfg) (p c : Nat) (s : Shared) (l : Locals) (b : Bool) (hp : p ≠ 0) :
    (stepPP cfg p c s l b .fin).2.2.1 = .dec ∧ (stepPP cfg p c s l b .dec).2.2.1 = .done := by
  simp [stepPP, hp]

/-- after a successful exchange `compare_and_swap` holds two references to the replaced value (the
    one from the cell, the guard's) and drops exactly one -/
theorem cas_drops_one (cfg : Cfg) (c cur new : Nat) (s : Shared) (l : Locals) (b : Bool) (old : Guard)
    (hp : old.ptr ≠ 0) :
    (stepCP cfg c cur new s l b (.decOld old)).2.2.1 = .done old := by
  simp [stepCP]

example : ((decObj { heap := fun _ => { live := true, cnt := 1 } } 3).1.heap 3).live = false := by
  simp [decObj, upd]

end C02
