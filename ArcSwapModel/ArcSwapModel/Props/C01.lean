import ArcSwapModel.Props.C03
import ArcSwapModel.Props.C10
import ArcSwapModel.Props.C12
import ArcSwapModel.Tie.LibDrop
import ArcSwapModel.Tie.LibIntoInner
import ArcSwapModel.Tie.LibSwap
import ArcSwapModel.Tie.LibStore
import ArcSwapModel.Tie.HybridCas
import ArcSwapModel.Inv.Surplus
import ArcSwapModel.Inv.Touch4
import ArcSwapModel.Inv.HazH4
import ArcSwapModel.Inv.FaultFree
import ArcSwapModel.Inv.EnvEx

/-!
# C01 — no use-after-free (partial: containers and handles keep their value alive — global theorem;
borrowed guards — mechanism lemmas)

The full statement is `Reachable st → st.sh.fault ≠ some (.uaf _ _)` together with "every handle
denotes a live object of the identity it was created for".  It follows from a global invariant with
an exact accounting clause and a hazard clause (DESIGN §3.1).  The accounting clause is proved
(`Inv/Alive.lean`, from the ledger of C02 and the slot-holder invariants, by counting the holders):
`C01_count_covers_containers_and_handles` — in the end state of every execution that keeps the
program discipline, has no successful hand-over and raises no fault, the strong count of every value
is at least the number of containers holding it plus the number of handles denoting it; so the
container's own stored copy, the result of a full load and a previous value returned by a writer are
alive (`C01_stored_value_alive`, `C01_handle_value_alive`).  The hazard clause (a *borrowed* guard's
value is alive: the slot is seen by every writer that replaces the value) is proved as a global
invariant for the fast slots (`Inv/Haz0 … Haz6`, `C01_confirmed_slot_protects_its_value`,
`C01_borrowed_guard_alive_partial`): a fast slot that names a value, once its owner has confirmed
it, has the value still in a container or ahead of it the walk of a thread that took the value out
— along every execution in which containers are created on fresh cells; they may be consumed and
dropped at any time (`Inv/Busy*`, `HazD1 … HazD4`: a container being destroyed is worked on by its
destroyer alone — the harness's `busy` discipline, in Rust the by-value receiver).  The debt in the
*helping* slot (the fallback path) has its own invariant (`Inv/ActAddr`, `HazH1 … HazH4`): inside
the reader's window the candidate is still in its container or the writer that took it out cannot
get past the help on the reader's node without handing a replacement over; after the window the
slot is ahead of that writer's walk — so the fallback's increment touches a live object
(`C01_fallback_candidate_alive_partial`) and with it *every* count operation does
(`C01_every_count_touched_only_while_alive_partial`); these hold along executions in which no
hand-over succeeds (the ledger's assumption `NoEnv`), which is also where a wrap of the generation
counter cannot matter.  The per-step facts the invariants compose — each for every shared state,
i.e. for every behaviour of the other threads:

1. **publish, then confirm**: a load returns a borrowed guard (one with a debt) only from the
   confirming read, at a step at which the cell holds exactly the pointer that the reader had
   published in its slot before (`borrow_only_after_confirm`); in every other case it either returns
   the debt and goes to the fallback, or — having found it already paid — gives the reference back
   first (D5 repair);
2. **the writer's walk is complete**: for each node of the list it compare-exchanges every fast
   slot, in order, and then the helping slot (`walk_covers_every_slot`), after having looked at the
   helping control word (`walk_helps_first`);
3. **pay before release**: `swap`, `store`, `compare_and_swap`, `into_inner` and `Drop` hand back or
   release the replaced value only after the walk is over (`release_only_after_walk`);
4. **a debt slot is never overwritten** except by a pay-off of exactly its pointer (C10's lemmas),
   and node ownership is exclusive (C11) — so a published debt stays visible to every later walk;
5. the reader on the fallback path increments the candidate's count only after its confirming swap
   returned its own generation (`fallback_inc_only_after_confirm`), and takes a writer's replacement
   only from the envelope named by the control word.

The weak-memory side of 1 and 5 (the two store-buffering shapes need all four accesses `SeqCst`) is
pinned by the ordering obligations in the tie modules; the D7 defect (the fallback's candidate read
was `Acquire`) was found there by Miri and repaired.
-/

namespace C01
open M Consts

/-- 1. a borrowed guard comes only from the confirming read having returned the published pointer -/
theorem borrow_only_after_confirm (cfg : Cfg) (c : Nat) (s : Shared) (l : Locals) (b : Bool) (lp : LP)
    (p : Nat) (d : Nat × Nat) (hnd : ∀ p d, lp ≠ .done p d)
    (h : (stepLP cfg c s l b lp).2.2.1 = .done p (some d)) :
    ∃ idx, lp = .a3 p idx ∧ s.cells c = some p ∧ d = (l.node.getD 0, idx) := by
  cases lp <;> simp only [stepLP] at h <;>
    (first
      | exact absurd rfl (hnd _ _)
      | skip)
  all_goals (first
    | (rename_i p' idx
       cases hc : s.cells c with
       | none => simp [hc] at h
       | some q =>
         simp only [hc] at h
         split at h
         · rename_i hq
           simp only [LP.done.injEq, Option.some.injEq] at h
           obtain ⟨h1, h2⟩ := h
           subst h1; subst hq
           exact ⟨idx, rfl, rfl, h2.symm⟩
         · cases h)
    | ((repeat' split at h) <;> simp_all))

/-- … and before `a3` the reader has swapped that pointer into that slot (`pswap` is the only way
    into `a3`) -/
theorem confirm_follows_publish (cfg : Cfg) (c : Nat) (s : Shared) (l : Locals) (b : Bool) (lp : LP)
    (p idx : Nat) (h : (stepLP cfg c s l b lp).2.2.1 = .a3 p idx) (hne : lp ≠ .a3 p idx) :
    lp = .pswap p idx ∧ ((stepLP cfg c s l b lp).1.nodes (l.node.getD 0)).fast idx = .ptr p := by
  cases lp <;> simp only [stepLP] at h <;> (try (exact absurd rfl hne)) <;>
    (first
      | (rename_i p' idx'
         simp only [LP.a3.injEq] at h
         obtain ⟨h1, h2⟩ := h
         subst h1; subst h2
         refine ⟨rfl, ?_⟩
         simp only [stepLP]
         split <;> simp [Shared.setNode, upd])
      | ((repeat' split at h) <;> simp_all))

/-- 2. the walk compare-exchanges every fast slot of a node in order, then its helping slot, then
    leaves the node: the positions visited from `slot n 0` are `0, 1, …, slotCnt` -/
theorem walk_covers_every_slot (n j : Nat) :
    PP.nextSlot n j = (if j < slotCnt then PP.slot n (j + 1) else PP.rel n) := rfl

theorem walk_pays_matching_slot (cfg : Cfg) (p c : Nat) (s : Shared) (l : Locals) (b : Bool) (n j : Nat)
    (hj : j < slotCnt) (hm : (s.nodes n).fast j = .ptr p) :
    ((stepPP cfg p c s l b (.slot n j)).1.nodes n).fast j = .none := by
  simp [stepPP, hj, hm, Shared.setNode, upd]

theorem walk_pays_helping_slot (cfg : Cfg) (p c : Nat) (s : Shared) (l : Locals) (b : Bool) (n j : Nat)
    (hj : ¬ j < slotCnt) (hm : (s.nodes n).hslot = .ptr p) :
    ((stepPP cfg p c s l b (.slot n j)).1.nodes n).hslot = .none := by
  simp [stepPP, hj, hm, Shared.setNode, upd]

/-- the walk looks at a node's helping control word before its slots (reserve; help; slots) -/
theorem walk_helps_first (cfg : Cfg) (p c : Nat) (s : Shared) (l : Locals) (b : Bool) (n own : Nat)
    (hn : l.node = some own) :
    (stepPP cfg p c s l b (.res n)).2.2.1 = .hDbg0 { who := n, own := own } := by
  simp [stepPP, hn]

/-- 3. the value taken out of the cell is handed back / released only when the walk is `done` -/
theorem release_only_after_walk (st : State) (t : Nat) (b : Bool) (c out old : Nat) (isStore : Bool) (pp : PP)
    (hop : (st.th t).op = .swapPay c out old isStore pp)
    (hnot : (stepPP st.cfg old c st.sh (st.th t).loc b pp).2.2.1 ≠ .done) :
    ∃ pp', ((microStep st t b).1.th t).op = .swapPay c out old isStore pp' := by
  simp only [microStep, hop]
  generalize stepPP st.cfg old c st.sh (st.th t).loc b pp = x at *
  obtain ⟨s', l', pp', evs⟩ := x
  cases pp' <;> first | exact absurd rfl hnot | exact ⟨_, by simp [upd]; rfl⟩ | exact ⟨_, by simp [upd]⟩

/-- 5. on the fallback path the candidate's count is touched only after the confirming swap returned
    the reader's own generation -/
theorem fallback_inc_only_after_confirm (cfg : Cfg) (c : Nat) (s : Shared) (l : Locals) (b : Bool) (lp : LP)
    (cand : Nat) (h : (stepLP cfg c s l b lp).2.2.1 = .fokInc cand) :
    ∃ g, lp = .f5 g cand ∧ (s.nodes (l.node.getD 0)).control = .gen g := by
  cases lp <;> simp only [stepLP] at h <;>
    (first
      | (rename_i g cand'
         split at h
         · rename_i hx
           split at h
           · cases h
           · simp only [LP.fokInc.injEq] at h; subst h; exact ⟨g, rfl, hx⟩
         · split at h <;> cases h)
      | ((repeat' split at h) <;> simp_all))

/-- a replacement is taken only from the envelope the control word named -/
theorem replacement_only_from_named_envelope (cfg : Cfg) (c : Nat) (s : Shared) (l : Locals) (b : Bool)
    (g cand j : Nat) (h : (stepLP cfg c s l b (.f5 g cand)).2.2.1 = .fr1 cand j) :
    (s.nodes (l.node.getD 0)).control = .env j := by
  simp only [stepLP] at h
  split at h
  · split at h <;> cases h
  · split at h
    · rename_i hx; simp only [LP.fr1.injEq] at h; rw [← h.2]; exact hx
    · cases h

/-! ## The accounting clause, globally (`Inv/Alive.lean`) -/

/-- **containers and handles are counted**: for every value, in the end state of every execution
    that keeps the program discipline (`EnvRun0`), has no successful hand-over and ends without a
    fault: strong count ≥ containers holding it + handles denoting it -/
theorem C01_count_covers_containers_and_handles (K N T : Nat) (hK : 0 < K) (cfg : Cfg) (progs : Nat → List (String × Op))
    (sched : List (Nat × Bool)) (he : EnvRun0 K N T (State.initial cfg progs) sched)
    (hf : (run (State.initial cfg progs) sched).sh.fault = none) (a : Nat) (ha : a ≠ 0) :
    sumN (fun c => ind ((run (State.initial cfg progs) sched).sh.cells c = some a)) N +
      sumN (fun h => ind ((run (State.initial cfg progs) sched).sh.hreg h = some a)) N ≤
    ((run (State.initial cfg progs) sched).sh.heap a).cnt :=
  count_covers_containers_and_handles K N T hK cfg progs sched he hf a ha

/-- the container's own stored copy keeps the value alive -/
theorem C01_stored_value_alive (K N T : Nat) (hK : 0 < K) (cfg : Cfg) (progs : Nat → List (String × Op))
    (sched : List (Nat × Bool)) (he : EnvRun0 K N T (State.initial cfg progs) sched)
    (hf : (run (State.initial cfg progs) sched).sh.fault = none) (a : Nat) (ha : a ≠ 0)
    (c : Nat) (hc : c < N) (hcell : (run (State.initial cfg progs) sched).sh.cells c = some a) :
    1 ≤ ((run (State.initial cfg progs) sched).sh.heap a).cnt :=
  stored_value_counted K N T hK cfg progs sched he hf a ha c hc hcell

/-- a handle (full load, previous value of `swap`/`compare_and_swap`/`rcu`/`into_inner`) keeps the
    value alive -/
theorem C01_handle_value_alive (K N T : Nat) (hK : 0 < K) (cfg : Cfg) (progs : Nat → List (String × Op))
    (sched : List (Nat × Bool)) (he : EnvRun0 K N T (State.initial cfg progs) sched)
    (hf : (run (State.initial cfg progs) sched).sh.fault = none) (a : Nat) (ha : a ≠ 0)
    (h : Nat) (hh : h < N) (hreg : (run (State.initial cfg progs) sched).sh.hreg h = some a) :
    1 ≤ ((run (State.initial cfg progs) sched).sh.heap a).cnt :=
  handle_value_counted K N T hK cfg progs sched he hf a ha h hh hreg

/-- a guard that owns its reference (no debt) keeps the value alive -/
theorem C01_owned_guard_value_alive (K N T : Nat) (hK : 0 < K) (cfg : Cfg) (progs : Nat → List (String × Op))
    (sched : List (Nat × Bool)) (he : EnvRun0 K N T (State.initial cfg progs) sched)
    (hf : (run (State.initial cfg progs) sched).sh.fault = none) (a : Nat) (ha : a ≠ 0)
    (g : Nat) (hg : g < N) (gd : Guard) (hreg : (run (State.initial cfg progs) sched).sh.greg g = some gd)
    (hp : gd.ptr = a) (hd : gd.debt = none) :
    1 ≤ ((run (State.initial cfg progs) sched).sh.heap a).cnt :=
  owned_guard_counted K N T hK cfg progs sched he hf a ha g hg gd hreg hp hd

/-- the value a writer has replaced is alive for the whole of the writer's walk (it is released
    only afterwards: `release_only_after_walk`) -/
theorem C01_replaced_value_alive_during_walk (K N T : Nat) (hK : 0 < K) (cfg : Cfg) (progs : Nat → List (String × Op))
    (sched : List (Nat × Bool)) (he : EnvRun0 K N T (State.initial cfg progs) sched)
    (hf : (run (State.initial cfg progs) sched).sh.fault = none) (old : Nat) (ha : old ≠ 0)
    (t : Nat) (ht : t < T) (c out : Nat) (isStore : Bool) (pp : PP)
    (hop : ((run (State.initial cfg progs) sched).th t).op = .swapPay c out old isStore pp) :
    1 ≤ ((run (State.initial cfg progs) sched).sh.heap old).cnt :=
  replaced_value_counted_during_walk K N T hK cfg progs sched he hf old ha t ht c out isStore pp hop

/-- in every reachable state (no assumption at all) an object with a positive count is alive: the
    flag is cleared only by the decrement that takes the count to zero -/
theorem C01_counted_is_alive {st : State} (h : Reachable st) (a : Nat) (hc : 1 ≤ (st.sh.heap a).cnt) :
    (st.sh.heap a).live = true :=
  HeapOk.reachable h a hc

/-- the container's own stored copy has not been destroyed -/
theorem C01_stored_value_not_destroyed (K N T : Nat) (hK : 0 < K) (cfg : Cfg) (progs : Nat → List (String × Op))
    (sched : List (Nat × Bool)) (he : EnvRun0 K N T (State.initial cfg progs) sched)
    (hf : (run (State.initial cfg progs) sched).sh.fault = none) (a : Nat) (ha : a ≠ 0)
    (c : Nat) (hc : c < N) (hcell : (run (State.initial cfg progs) sched).sh.cells c = some a) :
    ((run (State.initial cfg progs) sched).sh.heap a).live = true :=
  stored_value_live K N T hK cfg progs sched he hf a ha c hc hcell

/-- what a handle denotes has not been destroyed -/
theorem C01_handle_value_not_destroyed (K N T : Nat) (hK : 0 < K) (cfg : Cfg) (progs : Nat → List (String × Op))
    (sched : List (Nat × Bool)) (he : EnvRun0 K N T (State.initial cfg progs) sched)
    (hf : (run (State.initial cfg progs) sched).sh.fault = none) (a : Nat) (ha : a ≠ 0)
    (h : Nat) (hh : h < N) (hreg : (run (State.initial cfg progs) sched).sh.hreg h = some a) :
    ((run (State.initial cfg progs) sched).sh.heap a).live = true :=
  handle_value_live K N T hK cfg progs sched he hf a ha h hh hreg

/-- a guard whose debt has been paid by a writer (its slot does not name the value any more) keeps
    the value alive: it owns the reference the writer added -/
theorem C01_paid_guard_value_alive (K N T : Nat) (hK : 0 < K) (cfg : Cfg) (progs : Nat → List (String × Op))
    (sched : List (Nat × Bool)) (he : EnvRun0 K N T (State.initial cfg progs) sched)
    (hf : (run (State.initial cfg progs) sched).sh.fault = none) (a : Nat) (ha : a ≠ 0)
    (g : Nat) (hg : g < N) (gd : Guard) (hreg : (run (State.initial cfg progs) sched).sh.greg g = some gd)
    (hp : gd.ptr = a) (n i : Nat) (hd : gd.debt = some (n, i))
    (hpaid : ((run (State.initial cfg progs) sched).sh.nodes n).fast i ≠ .ptr a) :
    1 ≤ ((run (State.initial cfg progs) sched).sh.heap a).cnt :=
  paid_guard_counted K N T hK cfg progs sched he hf a ha g hg gd hreg hp n i hd hpaid

/-- **whoever holds a reference that no borrow slot backs keeps the value alive**: a thread whose
    operation in flight accounts for more units of `a` than it claims slots for -/
theorem C01_unit_surplus_alive (K N T : Nat) (hK : 0 < K) (cfg : Cfg) (progs : Nat → List (String × Op))
    (sched : List (Nat × Bool)) (he : EnvRun0 K N T (State.initial cfg progs) sched)
    (hf : (run (State.initial cfg progs) sched).sh.fault = none) (a : Nat) (ha : a ≠ 0)
    (t : Nat) (ht : t < T)
    (hs : (((run (State.initial cfg progs) sched).th t).op.claims a ((run (State.initial cfg progs) sched).th t).loc).length + 1 ≤
      uOp ((run (State.initial cfg progs) sched).th t).op a) :
    ((run (State.initial cfg progs) sched).sh.heap a).live = true ∧
      1 ≤ ((run (State.initial cfg progs) sched).sh.heap a).cnt :=
  unit_surplus_live K N T hK cfg progs sched he hf a ha t ht hs

/-- hence the count operations made on the strength of an owned reference raise no fault — the
    count is never touched after destruction: dropping a handle, … -/
theorem C01_handle_drop_no_fault (K N T : Nat) (hK : 0 < K) (cfg : Cfg) (progs : Nat → List (String × Op))
    (sched : List (Nat × Bool)) (he : EnvRun0 K N T (State.initial cfg progs) sched)
    (hf : (run (State.initial cfg progs) sched).sh.fault = none) (a : Nat) (ha : a ≠ 0)
    (t : Nat) (ht : t < T) (b : Bool)
    (hop : ((run (State.initial cfg progs) sched).th t).op = .droph a) :
    (microStep (run (State.initial cfg progs) sched) t b).1.sh.fault = none :=
  droph_no_fault K N T hK cfg progs sched he hf a ha t ht b hop

/-- … cloning a handle, … -/
theorem C01_handle_clone_no_fault (K N T : Nat) (hK : 0 < K) (cfg : Cfg) (progs : Nat → List (String × Op))
    (sched : List (Nat × Bool)) (he : EnvRun0 K N T (State.initial cfg progs) sched)
    (hf : (run (State.initial cfg progs) sched).sh.fault = none) (a : Nat) (ha : a ≠ 0)
    (t : Nat) (ht : t < T) (b : Bool) (h h2 : Nat)
    (hop : ((run (State.initial cfg progs) sched).th t).op = .cloneh h h2 a) :
    (microStep (run (State.initial cfg progs) sched) t b).1.sh.fault = none :=
  cloneh_no_fault K N T hK cfg progs sched he hf a ha t ht b h h2 hop

/-- … the writer's release of the value it replaced, after its walk, … -/
theorem C01_writer_release_no_fault (K N T : Nat) (hK : 0 < K) (cfg : Cfg) (progs : Nat → List (String × Op))
    (sched : List (Nat × Bool)) (he : EnvRun0 K N T (State.initial cfg progs) sched)
    (hf : (run (State.initial cfg progs) sched).sh.fault = none) (old : Nat) (ha : old ≠ 0)
    (t : Nat) (ht : t < T) (b : Bool) (c : Nat)
    (hop : ((run (State.initial cfg progs) sched).th t).op = .swapDrop c old) :
    (microStep (run (State.initial cfg progs) sched) t b).1.sh.fault = none :=
  swapDrop_no_fault K N T hK cfg progs sched he hf old ha t ht b c hop

/-- … and a guard drop that found its debt paid and gives the reference back. -/
theorem C01_paid_guard_release_no_fault (K N T : Nat) (hK : 0 < K) (cfg : Cfg) (progs : Nat → List (String × Op))
    (sched : List (Nat × Bool)) (he : EnvRun0 K N T (State.initial cfg progs) sched)
    (hf : (run (State.initial cfg progs) sched).sh.fault = none) (p : Nat) (ha : p ≠ 0)
    (t : Nat) (ht : t < T) (b : Bool)
    (hop : ((run (State.initial cfg progs) sched).th t).op = .dropg (.dec p)) :
    (microStep (run (State.initial cfg progs) sched) t b).1.sh.fault = none :=
  dropg_dec_no_fault K N T hK cfg progs sched he hf p ha t ht b hop

/-! ## The hazard clause -/

/-- **one step of a writer's walk keeps a slot ahead of it, unless the step is the attempt on that
    very slot** — the order of `pay_all` (nodes in list order, slots in index order) is what makes a
    published debt visible to every writer that starts its walk after the publication -/
theorem C01_walk_passes_no_slot_unseen (cfg : Cfg) (p c : Nat) (s : Shared) (l : Locals) (b : Bool) (pp : PP) (L : List Nat)
    (hc : chainFrom (nextOf s) s.head L) (n i : Nat) (hn : n ∈ L) (hi : i < slotCnt)
    (hnode : pp.beforeNode = false → l.node.isSome = true) (h : pp.ahead L n i) :
    (stepPP cfg p c s l b pp).2.2.1.ahead L n i ∨ pp = .slot n i :=
  ahead_step cfg p c s l b pp L hc n i hn hi hnode h

/-- **the hazard invariant is inductive**: one step of any thread below `T` whose next operation
    uses registers and cells below `N` and creates a container on a fresh cell only keeps it (the
    list may grow at the front); containers may be consumed and dropped -/
theorem C01_hazard_invariant_step {N T : Nat} {st : State} {L : List Nat} (h : HazAllD N T st L) (t : Nat) (ht : t < T)
    (b : Bool) (htame : Tame2 N st t) : ∃ pre, HazAllD N T (microStep st t b).1 (pre ++ L) :=
  h.step t ht b htame

/-- **the `busy` discipline is inductive**: a container being destroyed is worked on by its
    destroyer alone and keeps its value until the destroyer's walk is over (in Rust: `into_inner`
    and `Drop` take the container by value) -/
theorem C01_busy_invariant_step {N T : Nat} {st : State} (h : BusyInv N T st) (hx : ∀ t, (st.th t).op.cxok)
    (t : Nat) (ht : t < T) (b : Bool) (htame : Tame2 N st t) : BusyInv N T (microStep st t b).1 :=
  h.step hx t ht b htame

/-- **a confirmed slot protects the value it names**: along every execution of threads that use
    registers and cells below `N` and create containers on fresh cells only — any number of
    threads, any programs, any schedule; containers may be consumed and dropped — a fast slot that
    names `a`, and that its owner is not still in the middle of confirming or taking back, has `a`
    still stored in a container that nobody is destroying; or a thread that took `a` out of a
    container, or is destroying the container that holds it, is walking the list and has this slot
    still ahead of it; or it is the debt of the guard a destroyer loaded while helping (the
    container it is destroying still holds `a`). -/
theorem C01_confirmed_slot_protects_its_value (N T : Nat) (cfg : Cfg) (progs : Nat → List (String × Op))
    (sched : List (Nat × Bool)) (ht : TameRun2 N T (State.initial cfg progs) sched) (n i a : Nat) (hi : i < slotCnt)
    (hs : ((run (State.initial cfg progs) sched).sh.nodes n).fast i = .ptr a)
    (hconf : ∀ o, ((run (State.initial cfg progs) sched).th o).loc.node = some n →
      ¬ Unc ((run (State.initial cfg progs) sched).th o).op.lp? a i) :
    (∃ c, c < N ∧ (run (State.initial cfg progs) sched).sh.cells c = some a ∧
        (run (State.initial cfg progs) sched).ctaken c = false) ∨
      (∃ w pp L, ((run (State.initial cfg progs) sched).th w).op.walkC? = some (a, pp) ∧ pp.ahead L n i) ∨
      (∃ o, ((run (State.initial cfg progs) sched).th o).op.consHold n i a) :=
  confirmed_slot_protected N T cfg progs sched ht n i a hi hs hconf

/-- the value a thread is walking the list for is counted: the walker holds the reference it took
    out of the container until the walk is over (`swap`/`store`, `compare_and_swap`, `rcu`) -/
theorem C01_walked_value_alive (K N T : Nat) (hK : 0 < K) (cfg : Cfg) (progs : Nat → List (String × Op))
    (sched : List (Nat × Bool)) (he : EnvRun0 K N T (State.initial cfg progs) sched)
    (hf : (run (State.initial cfg progs) sched).sh.fault = none) (a : Nat) (ha : a ≠ 0)
    (w : Nat) (pp : PP) (hw : ((run (State.initial cfg progs) sched).th w).op.walk? = some (a, pp)) :
    1 ≤ ((run (State.initial cfg progs) sched).sh.heap a).cnt :=
  walked_value_counted K N T hK cfg progs sched he hf a ha w pp hw

/-- **C01 for a borrowed guard (partial).**  Thread `o` owns node `n` and is between two operations;
    fast slot `i` of `n` names `a` — a borrowed guard of `o`, taking no reference of its own.  Then
    `a` is alive (its count is positive and it has not been destroyed), whatever the other threads
    do — replace the value, consume or drop the container: along every execution that satisfies
    the assumptions of the ledger (`EnvRun0`) and has raised no fault.

    Full statement: the same in every reachable state.  Missing: executions with a successful
    hand-over of a replacement (the ledger's `NoEnv`), and that no fault is raised at all. -/
theorem C01_borrowed_guard_alive_partial (K N T : Nat) (hK : 0 < K) (cfg : Cfg) (progs : Nat → List (String × Op))
    (sched : List (Nat × Bool)) (he : EnvRun0 K N T (State.initial cfg progs) sched)
    (hf : (run (State.initial cfg progs) sched).sh.fault = none) (a : Nat) (ha : a ≠ 0)
    (o n i : Nat) (hi : i < slotCnt)
    (hidle : ((run (State.initial cfg progs) sched).th o).op = .idle)
    (hnode : ((run (State.initial cfg progs) sched).th o).loc.node = some n)
    (hs : ((run (State.initial cfg progs) sched).sh.nodes n).fast i = .ptr a) :
    1 ≤ ((run (State.initial cfg progs) sched).sh.heap a).cnt ∧
      ((run (State.initial cfg progs) sched).sh.heap a).live = true :=
  resting_guard_alive_env K N T hK cfg progs sched he hf a ha o n i hi hidle hnode hs

/-- the same for any confirmed slot, whoever its owner and whatever it is doing (a thread in the
    middle of another operation holds its earlier guards too) -/
theorem C01_confirmed_slot_value_alive_partial (K N T : Nat) (hK : 0 < K) (cfg : Cfg) (progs : Nat → List (String × Op))
    (sched : List (Nat × Bool)) (he : EnvRun0 K N T (State.initial cfg progs) sched)
    (hf : (run (State.initial cfg progs) sched).sh.fault = none) (a : Nat) (ha : a ≠ 0)
    (n i : Nat) (hi : i < slotCnt) (hs : ((run (State.initial cfg progs) sched).sh.nodes n).fast i = .ptr a)
    (hconf : ∀ o, ((run (State.initial cfg progs) sched).th o).loc.node = some n →
      ¬ Unc ((run (State.initial cfg progs) sched).th o).op.lp? a i) :
    1 ≤ ((run (State.initial cfg progs) sched).sh.heap a).cnt ∧
      ((run (State.initial cfg progs) sched).sh.heap a).live = true :=
  confirmed_slot_value_alive K N T hK cfg progs sched he (TameRun2.of_env he) hf a ha n i hi hs hconf

/-- **C01 for every guard (partial).**  The value of every guard in a register — with no debt, with
    a debt that has been paid, with a debt the slot still shows (borrowed), even while its owner is
    publishing the same value through the same slot again — has a positive count and has not been
    destroyed, whatever any thread is doing, including consuming or dropping the container the
    guard came from: along every execution that satisfies the assumptions of the ledger and has
    raised no fault.  (A guard handed to the caller never has a debt in the helping slot: the
    fallback path settles it before it returns.)

    Full statement: the same in every reachable state.  Missing: executions with a successful
    hand-over of a replacement (`NoEnv`), and that no fault is raised at all (the theorem is about
    fault-free prefixes). -/
theorem C01_guard_value_alive_partial (K N T : Nat) (hK : 0 < K) (cfg : Cfg) (progs : Nat → List (String × Op))
    (sched : List (Nat × Bool)) (he : EnvRun0 K N T (State.initial cfg progs) sched)
    (hf : (run (State.initial cfg progs) sched).sh.fault = none) (a : Nat) (ha : a ≠ 0)
    (g : Nat) (hg : g < N) (gd : Guard) (hreg : (run (State.initial cfg progs) sched).sh.greg g = some gd)
    (hp : gd.ptr = a) :
    1 ≤ ((run (State.initial cfg progs) sched).sh.heap a).cnt ∧
      ((run (State.initial cfg progs) sched).sh.heap a).live = true :=
  guard_value_alive_env K N T hK cfg progs sched he hf a ha g hg gd hreg hp

/-- … hence dereferencing a guard raises no use-after-free fault -/
theorem C01_guard_deref_no_fault_partial (K N T : Nat) (hK : 0 < K) (cfg : Cfg) (progs : Nat → List (String × Op))
    (sched : List (Nat × Bool)) (he : EnvRun0 K N T (State.initial cfg progs) sched)
    (hf : (run (State.initial cfg progs) sched).sh.fault = none)
    (t g : Nat) (hg : g < N) (b : Bool) (txt : String) (rest : List (String × Op))
    (hidle : ((run (State.initial cfg progs) sched).th t).op = .idle)
    (hprog : ((run (State.initial cfg progs) sched).th t).prog = (txt, .gderef g) :: rest) :
    (microStep (run (State.initial cfg progs) sched) t b).1.sh.fault = none :=
  gderef_no_fault_env K N T hK cfg progs sched he hf t g hg b txt rest hidle hprog

/-! ## No reference count is touched after destruction -/

/-- **the steps that touch a count are exactly those `OpSt.touch` names**: a step of an operation
    whose `touch` is `none` leaves every object as it is (count and liveness), except the address
    the allocator hands out for a new value -/
theorem C01_touch_exhaustive (st : State) (t : Nat) (b : Bool) (h : (st.th t).op.touch = none) (a : Nat) :
    (microStep st t b).1.sh.heap a = st.sh.heap a ∨ ∃ v, a = (alloc st.sh v).2.1 :=
  microStep_heap_of_no_touch st t b h a

/-- **C01, second clause (partial): a reference count is touched only while the object is alive.**
    For every step of every operation that increments or decrements the count of a non-null
    object — cloning and dropping handles, promoting a guard (`Guard::into_inner`, `load_full`),
    releasing a guard whose debt was paid, the writer's spare reference and its increment per paid
    slot, releasing the replaced value, a rejected `new`, an unneeded replacement, the container's
    own reference at `Drop` — the object has a positive count and has not been destroyed, so the
    step raises no use-after-free or double-free fault: along every execution that satisfies the
    ledger's assumptions and has raised no fault so far.

    The one exception: the increment of the fallback path's candidate (`LP.fokInc`), protected by
    the helping protocol (control word and generation), which these invariants do not cover. -/
theorem C01_count_touched_only_while_alive_partial (K N T : Nat) (hK : 0 < K) (cfg : Cfg)
    (progs : Nat → List (String × Op)) (sched : List (Nat × Bool))
    (he : EnvRun0 K N T (State.initial cfg progs) sched)
    (hf : (run (State.initial cfg progs) sched).sh.fault = none) (a : Nat) (ha : a ≠ 0)
    (t : Nat) (ht : t < T)
    (htouch : ((run (State.initial cfg progs) sched).th t).op.touch = some a)
    (hnh : ((run (State.initial cfg progs) sched).th t).op.lp? ≠ some (.fokInc a)) :
    1 ≤ ((run (State.initial cfg progs) sched).sh.heap a).cnt ∧
      ((run (State.initial cfg progs) sched).sh.heap a).live = true :=
  touched_object_alive K N T hK cfg progs sched he hf a ha t ht htouch hnh

theorem C01_count_step_no_fault_partial (K N T : Nat) (hK : 0 < K) (cfg : Cfg)
    (progs : Nat → List (String × Op)) (sched : List (Nat × Bool))
    (he : EnvRun0 K N T (State.initial cfg progs) sched)
    (hf : (run (State.initial cfg progs) sched).sh.fault = none) (a : Nat) (ha : a ≠ 0)
    (t : Nat) (ht : t < T) (b : Bool)
    (htouch : ((run (State.initial cfg progs) sched).th t).op.touch = some a)
    (hnh : ((run (State.initial cfg progs) sched).th t).op.lp? ≠ some (.fokInc a)) :
    (microStep (run (State.initial cfg progs) sched) t b).1.sh.fault = none :=
  count_step_no_fault K N T hK cfg progs sched he hf a ha t ht b htouch hnh

/-- **the helping slot, inside the window.**  While a reader of the fallback path is between the
    read of its candidate and the end of its window (`confirm`'s exchange of the control word), the
    candidate is still the content of the container it was read from, or a writer that took it out
    of that very container is walking the list and has not got past the `help` on the reader's node:
    it has not reached the node, or it is inside `help` on it and has read nothing yet or the
    reader's generation.  Partial: along executions in which no hand-over succeeds (`EnvRun0`), which
    is exactly what keeps such a writer from getting past (its hand-over would succeed). -/
theorem C01_candidate_protected_in_window_partial (K N T : Nat) (cfg : Cfg) (progs : Nat → List (String × Op))
    (sched : List (Nat × Bool)) (he : EnvRun0 K N T (State.initial cfg progs) sched)
    (hf : (run (State.initial cfg progs) sched).sh.fault = none)
    (o n c g a : Nat) (lp : LP) (hlp : ((run (State.initial cfg progs) sched).th o).op.lp? = some lp)
    (hcand : lp.cand? = some (g, a)) (hnode : ((run (State.initial cfg progs) sched).th o).loc.node = some n)
    (hcell : ((run (State.initial cfg progs) sched).th o).op.cell? = some c) :
    (run (State.initial cfg progs) sched).sh.cells c = some a ∨
      ∃ w pp L, ((run (State.initial cfg progs) sched).th w).op.walkC? = some (a, pp) ∧
        ((run (State.initial cfg progs) sched).th w).op.cell? = some c ∧ pp.preHelp L n g :=
  candidate_protected_in_window K N T cfg progs sched he hf o n c g a lp hlp hcand hnode hcell

/-- **the helping slot, confirmed.**  While the reader holds its confirmed candidate in the helping
    slot of its node and has not yet taken its own reference, the value is in a container nobody is
    destroying, or a writer that took it out has that slot still ahead of its walk (it will pay the
    debt), or the reader is itself the destroyer of the container that holds it. -/
theorem C01_confirmed_helping_slot_protects_its_value_partial (K N T : Nat) (cfg : Cfg)
    (progs : Nat → List (String × Op)) (sched : List (Nat × Bool))
    (he : EnvRun0 K N T (State.initial cfg progs) sched)
    (hf : (run (State.initial cfg progs) sched).sh.fault = none)
    (o n a : Nat) (lp : LP) (hlp : ((run (State.initial cfg progs) sched).th o).op.lp? = some lp)
    (hconf : lp.confirmed a) (hnode : ((run (State.initial cfg progs) sched).th o).loc.node = some n)
    (hs : ((run (State.initial cfg progs) sched).sh.nodes n).hslot = .ptr a) :
    (∃ c, c < N ∧ (run (State.initial cfg progs) sched).sh.cells c = some a ∧
        (run (State.initial cfg progs) sched).ctaken c = false) ∨
      (∃ w pp L, ((run (State.initial cfg progs) sched).th w).op.walkC? = some (a, pp) ∧ pp.ahead L n slotCnt) ∨
      (((run (State.initial cfg progs) sched).th o).op.cons = true ∧
        ∃ pp, ((run (State.initial cfg progs) sched).th o).op.walkC? = some (a, pp)) :=
  confirmed_hslot_protected K N T cfg progs sched he hf o n a lp hlp hconf hnode hs

/-- **the fallback's own reference is taken from a live object**: at the step at which the fallback
    path increments the count of the candidate it has confirmed (`T::inc` in
    `HybridProtection::fallback`), the candidate has not been destroyed and its count is positive. -/
theorem C01_fallback_candidate_alive_partial (K N T : Nat) (hK : 0 < K) (cfg : Cfg)
    (progs : Nat → List (String × Op)) (sched : List (Nat × Bool))
    (he : EnvRun0 K N T (State.initial cfg progs) sched)
    (hf : (run (State.initial cfg progs) sched).sh.fault = none) (a : Nat) (ha : a ≠ 0)
    (t : Nat) (ht : t < T)
    (hlp : ((run (State.initial cfg progs) sched).th t).op.lp? = some (.fokInc a)) :
    1 ≤ ((run (State.initial cfg progs) sched).sh.heap a).cnt ∧
      ((run (State.initial cfg progs) sched).sh.heap a).live = true :=
  fallback_candidate_alive K N T hK cfg progs sched he hf a ha t ht hlp

/-- **no reference count is touched after destruction — every step, the fallback path included.**
    `C01_count_touched_only_while_alive_partial` without its exception: whatever step of whatever
    operation increments or decrements the count of a (non-null) object, the object is alive and
    its count positive — so the step raises no fault.  Partial only in the executions covered
    (`EnvRun0`: the program discipline, room in the pool, no successful hand-over). -/
theorem C01_every_count_touched_only_while_alive_partial (K N T : Nat) (hK : 0 < K) (cfg : Cfg)
    (progs : Nat → List (String × Op)) (sched : List (Nat × Bool))
    (he : EnvRun0 K N T (State.initial cfg progs) sched)
    (hf : (run (State.initial cfg progs) sched).sh.fault = none) (a : Nat) (ha : a ≠ 0)
    (t : Nat) (ht : t < T)
    (htouch : ((run (State.initial cfg progs) sched).th t).op.touch = some a) :
    1 ≤ ((run (State.initial cfg progs) sched).sh.heap a).cnt ∧
      ((run (State.initial cfg progs) sched).sh.heap a).live = true :=
  touched_object_alive_all K N T hK cfg progs sched he hf a ha t ht htouch

theorem C01_every_count_step_no_fault_partial (K N T : Nat) (hK : 0 < K) (cfg : Cfg)
    (progs : Nat → List (String × Op)) (sched : List (Nat × Bool))
    (he : EnvRun0 K N T (State.initial cfg progs) sched)
    (hf : (run (State.initial cfg progs) sched).sh.fault = none) (a : Nat) (ha : a ≠ 0)
    (t : Nat) (ht : t < T) (b : Bool)
    (htouch : ((run (State.initial cfg progs) sched).th t).op.touch = some a) :
    (microStep (run (State.initial cfg progs) sched) t b).1.sh.fault = none :=
  count_step_no_fault_all K N T hK cfg progs sched he hf a ha t ht b htouch

/-- **C01 on the machine, for the executions of the ledger: no fault is ever raised.**  Along every
    execution — any number of threads below `T`, any programs over registers and containers below
    `N`, any schedule, any wrap modulus — that keeps the program discipline (registers are not
    raced on, containers are created on fresh cells), has room in the pool, links at most `K` nodes
    and in which no hand-over succeeds, the fault flag of the machine stays clear: no use-after-free
    (no count operation and no dereference on a destroyed object), no double free, no assertion or
    `expect` of the crate, no stuck state.  The proof composes everything above: a step that touches
    a count touches a live object (`C01_every_count_touched_only_while_alive_partial`, null is never
    counted: `Inv/NonNull`); a dereference through a guard finds its value alive
    (`C01_guard_deref_no_fault_partial`, `C06_closure_sees_live_value_partial`); every other step can
    raise nothing but an assertion (`Inv/FaultFree`), and no assertion fires (`C13`).  Partial only
    in the executions covered: hand-overs of the helping protocol are excluded (`NoEnv`). -/
theorem C01_no_fault_ever_partial (K N T : Nat) (hK : 0 < K) (cfg : Cfg)
    (progs : Nat → List (String × Op)) (sched : List (Nat × Bool))
    (he : EnvRun0 K N T (State.initial cfg progs) sched) :
    (run (State.initial cfg progs) sched).sh.fault = none :=
  env_run_fault_free K N T hK cfg progs sched he

/-- … in particular no use-after-free: the statement of C01 (`fault ≠ uaf`) for these executions -/
theorem C01_no_use_after_free_partial (K N T : Nat) (hK : 0 < K) (cfg : Cfg)
    (progs : Nat → List (String × Op)) (sched : List (Nat × Bool))
    (he : EnvRun0 K N T (State.initial cfg progs) sched) (what : String) (a : Nat) :
    (run (State.initial cfg progs) sched).sh.fault ≠ some (.uaf what a) := by
  rw [env_run_fault_free K N T hK cfg progs sched he]; intro h; cases h

/-- … and the next step of any thread, whatever it does, raises none either -/
theorem C01_next_step_no_fault_partial (K N T : Nat) (hK : 0 < K) (cfg : Cfg)
    (progs : Nat → List (String × Op)) (sched : List (Nat × Bool))
    (he : EnvRun0 K N T (State.initial cfg progs) sched) (t : Nat) (ht : t < T) (b : Bool)
    (hok : EnvOK0 K N (run (State.initial cfg progs) sched) t b) :
    (microStep (run (State.initial cfg progs) sched) t b).1.sh.fault = none :=
  env_step_no_fault K N T hK cfg progs sched he (env_run_fault_free K N T hK cfg progs sched he) t ht b
    (fun txt o rest hp => (hok.next txt o rest hp).1)

/-- non-vacuity of `C01_no_fault_ever_partial` and of everything stated for `EnvRun0`: the
    assumptions are met by concrete executions of any length (`Inv/EnvEx`: `envRun0B` is an
    executable, sound check of `EnvRun0`) — here the 93 steps of `hazSchedH2`: a reader on the
    fallback path publishes its candidate, a concurrent writer replaces the content of the
    container, walks the list, finds the reader's window closed, pays the debt in the helping slot;
    the reader's own pay-off fails and it gives its extra reference back; both threads exit.
    (`Inv/EnvEx` also checks a 503-step round-robin execution of three threads on the default
    strategy — `exM`, `schedM`: `load`, `rcu`, `store`, `compare_and_swap`, `load_full`, `swap`.) -/
example : EnvRun0 2 4 2 hazExH hazSchedH2 ∧ ((run hazExH hazSchedH2).th 0).op = .finished ∧
    ((run hazExH hazSchedH2).th 1).op = .finished ∧ ((run hazExH hazSchedH2).sh.heap 1).cnt = 1 :=
  ⟨envRun0_of_B ⟨_, _, [], rfl⟩ (by decide +kernel), by decide +kernel, by decide +kernel, by decide +kernel⟩

/-- non-vacuity of the helping-slot theorems: the concrete execution `hazSchedH` of `hazExH`
    (Inv/HazH4) is tame and fault-free, leaves no envelope, and ends with thread 0 about to take
    its own reference to value 1 (`fokInc 1`), which the helping slot of its node names and which is
    in no container any more; thread 1, which took it out, is walking and has not reached the list -/
example : TameRun2 4 2 hazExH hazSchedH ∧ ((run hazExH hazSchedH).th 0).op.lp? = some (.fokInc 1) ∧
    ((run hazExH hazSchedH).th 0).op.touch = some 1 ∧
    ((run hazExH hazSchedH).sh.nodes 0).hslot = .ptr 1 ∧ (run hazExH hazSchedH).sh.cells 0 = some 2 ∧
    (run hazExH hazSchedH).sh.fault = none ∧ ((run hazExH hazSchedH).th 1).op.walkC? = some (1, .inc) :=
  ⟨tameRun2_of_B (by decide +kernel), by decide +kernel, by decide +kernel, by decide +kernel, by decide +kernel,
   by decide +kernel, by decide +kernel⟩

/-- non-vacuity: a thread about to drop a handle to object 1 is at a touching step -/
example : (OpSt.droph 1).touch = some 1 ∧ (OpSt.droph 1).lp? ≠ some (.fokInc 1) ∧
    (OpSt.swapPay 0 0 1 true .inc).touch = some 1 ∧ (OpSt.load 0 0 (.a3 1 0)).touch = none :=
  ⟨rfl, by simp [OpSt.lp?], rfl, rfl⟩

/-- non-vacuity of the hazard theorems: the concrete execution `hazSched` of `hazEx` (Inv/Haz6) is
    tame and fault-free and ends with thread 0 resting on a borrowed guard of value 1 that is in no
    container any more, thread 1 at the start of its walk for it; `hazSchedD` of `hazExD`
    (Inv/HazD4) ends with thread 0 resting on a borrowed guard of value 1 whose container thread 1
    has begun to drop -/
example : TameRun 4 hazEx hazSched ∧ ((run hazEx hazSched).th 0).op = .idle ∧
    ((run hazEx hazSched).sh.nodes 0).fast 0 = .ptr 1 ∧ (run hazEx hazSched).sh.cells 0 = some 2 :=
  ⟨tameRun_of_B (by decide +kernel), by decide +kernel, by decide +kernel, by decide +kernel⟩
example : TameRun2 4 2 hazExD hazSchedD ∧ ((run hazExD hazSchedD).th 0).op = .idle ∧
    ((run hazExD hazSchedD).sh.nodes 0).fast 0 = .ptr 1 ∧ (run hazExD hazSchedD).ctaken 0 = true :=
  ⟨tameRun2_of_B (by decide +kernel), by decide +kernel, by decide +kernel, by decide +kernel⟩

/-!
What is left of C01 on the machine: the composition with executions in which a hand-over
*succeeds* (a writer's replacement reaches the reader through the envelope: `NoEnv` is an assumption
of `EnvRun0`).  There the protection of the reader's candidate goes through the generation in the
control word and holds only up to a wrap of the generation counter during one stalled help, as the
crate's documentation says; the ledger (`Inv/Acct*`) does not account for envelopes either.
-/

end C01
