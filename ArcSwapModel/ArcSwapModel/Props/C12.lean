import ArcSwapModel.Props.C03
import ArcSwapModel.Props.C05

/-!
# C12 — containers are isolated although they share per-thread borrow slots
(partial: what an operation on one container can do to another one; the exact counts for a value
stored in several containers are the accounting invariant, C02)

All containers share the node list, but every sub-machine takes the container it works for as a
parameter `c`, and:
* it **writes** no cell and no write history but `c`'s own (and the read path and the debt walk
  write none at all);
* a reader returns, on the direct paths, only a value it read from cell `c` itself during the call
  (`C03_load_window_partial`; the defect D5 — a stale fast debt paid, through address reuse, by a
  writer of *another* container — is repaired and its schedule kept in the corpus);
* a writer of `c` offers a replacement to a reader only after reading, from that reader's node, the
  address of the very cell `c` (`help` compares `active_addr` with its own storage address and
  otherwise leaves the reader alone), and the offer is a compare-exchange on the generation it read.
-/

namespace C12
open M Consts

/-- an operation on container `c` never changes the content or the write order of another one -/
theorem cas_other_container_untouched (cfg : Cfg) (c cur new : Nat) (s : Shared) (l : Locals) (b : Bool)
    (cp : CP) (c' : Nat) (hne : c' ≠ c) :
    (stepCP cfg c cur new s l b cp).1.cells c' = s.cells c' ∧
    (stepCP cfg c cur new s l b cp).1.hist c' = s.hist c' := by
  cases cp with
  | load ld =>
    have := stepLP_frame cfg c s l b ld
    simp only [stepCP]; split <;> simp_all
  | dropNew old => simp [stepCP]
  | cx old =>
    simp only [stepCP]
    (repeat' split) <;> simp [Shared.writeCell, upd, hne]
  | pay old pp =>
    have := stepPP_frame cfg old.ptr c s l b pp
    simp only [stepCP]; split <;> simp_all
  | decOld old => simp [stepCP]
  | dropOld gd =>
    have := stepGD_frame s gd
    simp only [stepCP]; split <;> simp_all
  | done old => exact ⟨rfl, rfl⟩

/-- loads and debt walks on behalf of `c` write no cell at all — not even `c`'s -/
theorem read_and_walk_write_nothing (cfg : Cfg) (p c : Nat) (s : Shared) (l : Locals) (b : Bool) (lp : LP) (pp : PP) :
    (stepLP cfg c s l b lp).1.cells = s.cells ∧ (stepPP cfg p c s l b pp).1.cells = s.cells :=
  ⟨(stepLP_frame cfg c s l b lp).1, (stepPP_frame cfg p c s l b pp).1⟩

/-- the writer of `c` helps a reader only if that reader published `c`'s own address: when the
    published address is another container's, the writer produces no replacement for it -/
theorem helper_checks_address (cfg : Cfg) (p c : Nat) (s : Shared) (l : Locals) (b : Bool) (h : HL)
    (hother : (s.nodes h.who).activeAddr ≠ some c) :
    (stepPP cfg p c s l b (.h2 h)).2.2.1 = .h3 h := by
  have : ((if h.own = h.who then s.setFault (Fault.debugAssert "helping::help: refusing to help myself") else s).nodes
      h.who).activeAddr = (s.nodes h.who).activeAddr := by split <;> simp
  simp [stepPP, this, hother]

/-- … and then only re-reads the control word and, if it is unchanged, leaves that reader alone -/
theorem helper_leaves_other_readers (cfg : Cfg) (p c : Nat) (s : Shared) (l : Locals) (b : Bool) (h : HL)
    (hsame : (s.nodes h.who).control = h.ctl) :
    (stepPP cfg p c s l b (.h3 h)).2.2.1 = .hend h ∧ (stepPP cfg p c s l b (.h3 h)).1.nodes = s.nodes := by
  simp [stepPP, hsame]

/-- the replacement a helper offers was loaded from `c` itself (the nested load is a load *of `c`*) -/
theorem replacement_comes_from_own_container (cfg : Cfg) (p c : Nat) (s : Shared) (l : Locals) (b : Bool)
    (h : HL) (ld : LP) :
    ∃ x, x = stepLP cfg c s l b ld ∧
      ((stepPP cfg p c s l b (.hload h ld)).1 = x.1) := by
  refine ⟨_, rfl, ?_⟩
  simp only [stepPP]
  split <;> simp_all

/-- the offer can land only on the generation the helper read (a compare-exchange on that value) -/
theorem offer_is_conditional (cfg : Cfg) (p c : Nat) (s : Shared) (l : Locals) (b : Bool) (h : HL) (r t m : Nat)
    (hchg : (s.nodes h.who).control ≠ h.ctl) :
    (stepPP cfg p c s l b (.h7 h r t m)).1.nodes = s.nodes := by
  simp [stepPP, hchg]

/-- a reader never returns, on the direct paths, a value that was only stored elsewhere -/
theorem reader_value_from_own_cell (cfg : Cfg) (c : Nat) (adv : List (Shared × Bool)) (l : Locals)
    (hadv : ∀ sb ∈ adv, C03.EnvOk c sb.1) (p : Nat) (d : Option (Nat × Nat))
    (hdone : (C03.runT cfg c adv ⟨l, .start, [], false⟩).lp = .done p d)
    (hnot : (C03.runT cfg c adv ⟨l, .start, [], false⟩).helped = false) :
    some p ∈ (C03.runT cfg c adv ⟨l, .start, [], false⟩).seen :=
  C03.C03_load_window_partial cfg c adv l hadv p d hdone hnot

example : ∃ s : Shared, (s.nodes 0).activeAddr ≠ some 1 := ⟨{}, by simp⟩

end C12
