import ArcSwapModel.Kinds
import ArcSwapModel.Consts
import ArcSwapModel.Tie.RefCntInc
import ArcSwapModel.Tie.RefCntDec
import ArcSwapModel.Tie.RcArcIntoPtr
import ArcSwapModel.Tie.RcArcAsPtr
import ArcSwapModel.Tie.RcArcFromPtr
import ArcSwapModel.Tie.RcRcIntoPtr
import ArcSwapModel.Tie.RcRcAsPtr
import ArcSwapModel.Tie.RcRcFromPtr
import ArcSwapModel.Tie.RcOptIntoPtr
import ArcSwapModel.Tie.RcOptAsPtr
import ArcSwapModel.Tie.RcOptFromPtr
import ArcSwapModel.Tie.WeakAsPtr
import ArcSwapModel.Tie.WeakIntoPtr
import ArcSwapModel.Tie.WeakFromPtr
import ArcSwapModel.Tie.RcWeakAsPtr
import ArcSwapModel.Tie.RcWeakIntoPtr
import ArcSwapModel.Tie.RcWeakFromPtr

/-!
# C15 — pointer-kind laws

For every kind (any base, any depth of `Option`), every well-formed value and every count state.
`Kinds` is a model of std's counts (assumed; validated by running the real impls); the theorems are
about what the crate's impls — transcribed in `Kinds`, tied to the source by the imported
skeleton obligations — make of them.
-/

namespace C15
open Kinds

/-- the inputs `from_ptr` accepts: a plain `Arc`/`Rc` is never built from null -/
def acceptsRaw (k : Kind) (p : Raw) : Prop := p ≠ none ∨ 0 < k.opts ∨ k.base.isWeak = true

/-- **Round trip**: converting to a raw pointer and back touches no count and yields a value with the
    same target. -/
theorem C15_roundtrip (k : Kind) (v : PV) (s : St) (_h : v.wf k = true) :
    (intoPtr k v s).2 = s ∧ (fromPtr k (intoPtr k v s).1).target = v.target := by
  cases v with
  | nones lvl => by_cases h0 : k.opts = 0 <;> simp [intoPtr, fromPtr, PV.target, h0]
  | full t =>
    cases t with
    | none => by_cases h0 : k.opts = 0 <;> simp [intoPtr, fromPtr, PV.target, h0]
    | some n => simp [intoPtr, fromPtr, PV.target]

/-- … and the round trip is the identity, except that an inner `None` (or a dangling `Weak` under
    an `Option`) comes back as the outermost `None`: both denote nothing and both are the null
    pointer — the documented limitation of nested `Option`s, stated rather than hidden. -/
theorem C15_roundtrip_exact (k : Kind) (v : PV) (s : St) (h : v.wf k = true) :
    fromPtr k (intoPtr k v s).1 =
      match v with
      | .nones _ => .nones 0
      | .full none => if k.opts = 0 then .full none else .nones 0
      | .full (some n) => .full (some n) := by
  cases v with
  | nones lvl =>
    simp [PV.wf] at h
    simp [intoPtr, fromPtr]; omega
  | full t => cases t <;> simp [intoPtr, fromPtr]

/-- the result of the round trip is again a well-formed value of the kind -/
theorem C15_roundtrip_wf (k : Kind) (v : PV) (s : St) (h : v.wf k = true) :
    (fromPtr k (intoPtr k v s).1).wf k = true := by
  cases v with
  | nones lvl =>
    simp [PV.wf] at h
    have : k.opts ≠ 0 := by omega
    simp [intoPtr, fromPtr, PV.wf, this]; omega
  | full t =>
    cases t with
    | none =>
      simp [PV.wf] at h
      simp only [intoPtr, fromPtr]
      split <;> simp [PV.wf, h]; omega
    | some n => simp [intoPtr, fromPtr, PV.wf]

/-- **Borrowing** the raw pointer gives the address conversion would give, and touches no count. -/
theorem C15_as_ptr (k : Kind) (v : PV) (s : St) :
    (asPtr k v s).1 = (intoPtr k v s).1 ∧ (asPtr k v s).2 = s := by
  cases v <;> simp [asPtr, intoPtr]

/-- **Increment** adds exactly one reference to the target — strong for `Arc`/`Rc`, weak for the
    `Weak` kinds — nothing else changes, and it returns the target's address. -/
theorem C15_inc (k : Kind) (n : Nat) (s : St) :
    let r := inc k (.full (some n)) s
    r.1 = some n ∧
    (k.base.isWeak = false → r.2.strong n = s.strong n + 1 ∧ r.2.weak = s.weak ∧
        ∀ m, m ≠ n → r.2.strong m = s.strong m) ∧
    (k.base.isWeak = true → r.2.weak n = s.weak n + 1 ∧ r.2.strong = s.strong ∧
        ∀ m, m ≠ n → r.2.weak m = s.weak m) := by
  simp only [inc, intoPtr, cloneV, cloneBase]
  refine ⟨trivial, ?_, ?_⟩
  · intro hw; simp [hw, updN]; intro m hm; simp [hm]
  · intro hw; simp [hw, updN]; intro m hm; simp [hm]

/-- **Decrement** removes exactly one. -/
theorem C15_dec (k : Kind) (n : Nat) (s : St) :
    let s' := dec k (some n) s
    (k.base.isWeak = false → s'.strong n = s.strong n - 1 ∧ s'.weak = s.weak ∧
        ∀ m, m ≠ n → s'.strong m = s.strong m) ∧
    (k.base.isWeak = true → s'.weak n = s.weak n - 1 ∧ s'.strong = s.strong ∧
        ∀ m, m ≠ n → s'.weak m = s.weak m) := by
  simp only [dec, fromPtr, dropV, dropBase]
  refine ⟨?_, ?_⟩
  · intro hw; simp [hw, updN]; intro m hm; simp [hm]
  · intro hw; simp [hw, updN]; intro m hm; simp [hm]

/-- increment followed by decrement of the returned pointer is the identity on the counts -/
theorem C15_inc_dec (k : Kind) (v : PV) (s : St) (h : v.wf k = true) :
    dec k (inc k v s).1 (inc k v s).2 = s := by
  cases v with
  | nones lvl =>
    simp [PV.wf] at h
    have : k.opts ≠ 0 := by omega
    simp [inc, dec, intoPtr, cloneV, fromPtr, dropV, this]
  | full t =>
    cases t with
    | none =>
      simp only [inc, dec, intoPtr, cloneV, cloneBase, fromPtr]
      split <;> simp [dropV, dropBase]
    | some n =>
      simp only [inc, dec, intoPtr, cloneV, cloneBase, fromPtr, dropV, dropBase]
      cases hb : k.base.isWeak
      · simp only [Bool.false_eq_true, ↓reduceIte, updN]
        show ({ s with strong := _ } : St) = s
        cases s with | mk st wk =>
        congr 1; funext j; by_cases hj : j = n <;> simp [hj, updN]
      · simp only [↓reduceIte, updN]
        show ({ s with weak := _ } : St) = s
        cases s with | mk st wk =>
        congr 1; funext j; by_cases hj : j = n <;> simp [hj, updN]

/-- **The empty cases** (`None` at any depth, a dangling `Weak`) are the null pointer, null maps
    back to an empty value, and nothing is ever counted or dereferenced for them. -/
theorem C15_empty (k : Kind) (v : PV) (s : St) (hv : v.target = none) (hwf : v.wf k = true) :
    (intoPtr k v s).1 = none ∧ (asPtr k v s).1 = none ∧ (inc k v s) = (none, s) ∧ dec k none s = s ∧
    (fromPtr k none).target = none := by
  cases v with
  | nones lvl =>
    simp [intoPtr, asPtr, inc, cloneV, dec, fromPtr, PV.target]
    split <;> simp [dropV, dropBase]
  | full t =>
    cases t with
    | none =>
      simp [intoPtr, asPtr, inc, cloneV, cloneBase, dec, fromPtr, PV.target]
      split <;> simp [dropV, dropBase]
    | some n => simp [PV.target] at hv

/-- **A container of `Weak` does not keep its target alive**: no trait method of a weak kind ever
    changes a strong count, so the strong count can reach zero (the value is dropped) while the
    pointer is stored. -/
theorem C15_weak_not_owner (k : Kind) (hw : k.base.isWeak = true) (v : PV) (p : Raw) (s : St) :
    (intoPtr k v s).2.strong = s.strong ∧ (asPtr k v s).2.strong = s.strong ∧
    (inc k v s).2.strong = s.strong ∧ (dec k p s).strong = s.strong := by
  refine ⟨?_, ?_, ?_, ?_⟩
  · cases v <;> rfl
  · cases v <;> rfl
  · cases v with
    | nones l => rfl
    | full t => cases t <;> simp [inc, intoPtr, cloneV, cloneBase, hw]
  · cases p with
    | none => simp only [dec, fromPtr]; split <;> simp [dropV, dropBase]
    | some n => simp [dec, fromPtr, dropV, dropBase, hw]

/-- the sentinel `Debt::NONE` can be neither null nor the address of a counted allocation -/
theorem C15_sentinel : Consts.debtNone % 2 = 1 ∧ Consts.debtNone ≠ 0 ∧ Consts.debtNone < 4096 :=
  Consts.debtNone_ok

/-- non-vacuity: a shared `Option<Arc>` and a dangling `Option<Weak>` are well-formed values -/
example : (PV.full (some 1)).wf ⟨.arc, 1⟩ = true ∧ (PV.full none).wf ⟨.weakArc, 1⟩ = true ∧
    (PV.nones 1).wf ⟨.rc, 2⟩ = true := by decide

end C15
