import ArcSwapModel.M.Frame
import ArcSwapModel.Tie.HybridCas
import ArcSwapModel.Tie.RwCas
import ArcSwapModel.Tie.RwLoad
import ArcSwapModel.Tie.HybridLoad
import ArcSwapModel.Tie.HybridWaitForReaders
import ArcSwapModel.Tie.HybridDrop
import ArcSwapModel.Tie.LibCas
import ArcSwapModel.Tie.AsRawRef
import ArcSwapModel.Tie.AsRawRefGuard
import ArcSwapModel.Tie.AsRawGuard
import ArcSwapModel.Tie.AsRawMutPtr
import ArcSwapModel.Tie.AsRawConstPtr
import ArcSwapModel.Tie.DebtPayAll
import ArcSwapModel.Tie.Sites
import ArcSwapModel.Inv.CasCur

/-!
# C05 — compare_and_swap replaces iff the stored pointer equals `current`

A call-level theorem about `stepCP` (the loop of `CaS::compare_and_swap`: load; compare;
`compare_exchange_weak`; on success pay the debts of the replaced pointer and drop one of the two
references; on failure drop the guard and retry), against an adversary that rewrites the shared
state before every step of the caller — every interleaving with other writers, including A-B-A
between the internal load and the exchange, spurious failures, `current == new`, `current` not
stored, `current` null.

All accepted forms of `current` (`&T`, `&Guard`, `Guard`, `*const`, `*mut`) reduce to the raw
pointer (`T::as_ptr(self)` / `*self`): their five `as_raw` bodies are tied by skeleton obligations
and the machine takes the address.
-/

namespace C05
open M

structure CS where
  l : Locals
  cp : CP
  /-- number of steps of this call that wrote the cell -/
  wrote : Nat
  /-- content of the cell just before / just after that write, recorded at the writing step -/
  before : Option Nat
  after : Option Nat

def isDone : CP → Bool
  | .done _ => true
  | _ => false

/-- does this step write the cell? (exactly the successful exchange) -/
def writes (c cur : Nat) (sb : Shared × Bool) : CP → Bool
  | .cx _ => !sb.2 && sb.1.cells c == some cur
  | _ => false

def stepT (cfg : Cfg) (c cur new : Nat) (sb : Shared × Bool) (r : CS) : CS :=
  let x := stepCP cfg c cur new sb.1 r.l sb.2 r.cp
  if writes c cur sb r.cp then
    { l := x.2.1, cp := x.2.2.1, wrote := r.wrote + 1, before := sb.1.cells c, after := x.1.cells c }
  else { l := x.2.1, cp := x.2.2.1, wrote := r.wrote, before := r.before, after := r.after }

def runT (cfg : Cfg) (c cur new : Nat) : List (Shared × Bool) → CS → CS
  | [], r => r
  | sb :: rest, r => if isDone r.cp then r else runT cfg c cur new rest (stepT cfg c cur new sb r)

/-- outside its nested load and debt walk (which never write a cell of their own: see
    `stepLP`/`stepPP`, whose only cell accesses are reads), a step of the call leaves the cell alone
    unless it is the successful exchange -/
theorem cell_unchanged_unless_writes (cfg : Cfg) (c cur new : Nat) (s : Shared) (l : Locals) (b : Bool)
    (cp : CP) (h : writes c cur (s, b) cp = false) (hl : ∀ ld, cp ≠ .load ld) (hp : ∀ o pp, cp ≠ .pay o pp) :
    (stepCP cfg c cur new s l b cp).1.cells = s.cells := by
  cases cp with
  | load ld => exact absurd rfl (hl ld)
  | pay o pp => exact absurd rfl (hp o pp)
  | dropNew old => simp [stepCP]
  | cx old =>
    simp only [stepCP]
    cases hq : s.cells c with
    | none => simp
    | some q =>
      simp only [writes, hq] at h
      simp only
      split
      · rename_i hc
        simp only [Bool.and_eq_true, Bool.not_eq_true', decide_eq_true_eq] at hc
        obtain ⟨h1, h2⟩ := hc; subst h2; simp [h1] at h
      · split <;> rfl
  | decOld old => simp [stepCP]
  | dropOld gd =>
    simp only [stepCP]
    have := stepGD_cells s gd
    split <;> simp_all
  | done old => rfl

/-- the bookkeeping invariant of one call -/
def K (cur new : Nat) (r : CS) : Prop :=
  match r.cp with
  | .load _ => r.wrote = 0
  | .dropOld _ => r.wrote = 0
  | .cx old => r.wrote = 0 ∧ old.ptr = cur
  | .dropNew old => r.wrote = 0 ∧ old.ptr ≠ cur
  | .pay old _ => r.wrote = 1 ∧ old.ptr = cur ∧ r.before = some cur ∧ r.after = some new
  | .decOld old => r.wrote = 1 ∧ old.ptr = cur ∧ r.before = some cur ∧ r.after = some new
  | .done old => (r.wrote = 1 ∧ old.ptr = cur ∧ r.before = some cur ∧ r.after = some new) ∨
                 (r.wrote = 0 ∧ old.ptr ≠ cur)

theorem K_step (cfg : Cfg) (c cur new : Nat) (sb : Shared × Bool) (r : CS) (h : K cur new r) :
    K cur new (stepT cfg c cur new sb r) := by
  obtain ⟨s, b⟩ := sb
  obtain ⟨l, cp, wrote, before, after⟩ := r
  cases cp with
  | load ld =>
    simp only [K] at h
    simp only [stepT, writes, stepCP, Bool.false_eq_true, ↓reduceIte]
    split
    · rename_i s' l' p d evs heq
      simp only
      split
      · rename_i hne
        split <;> simp only [K] <;> first | exact Or.inr ⟨h, hne⟩ | exact ⟨h, hne⟩
      · rename_i heq2
        simp only [K]; exact ⟨h, by simpa using heq2⟩
    · simp only [K]; exact h
  | dropNew old =>
    simp only [K] at h
    simp only [stepT, writes, stepCP, Bool.false_eq_true, ↓reduceIte, K]
    exact Or.inr h
  | cx old =>
    simp only [K] at h
    obtain ⟨hw, ho⟩ := h
    simp only [stepT, writes, stepCP]
    cases hcell : s.cells c with
    | none =>
      simp only [hcell]
      simp only [beq_iff_eq, Bool.and_eq_true, Bool.not_eq_true', reduceCtorEq, and_false,
        Bool.false_eq_true, ↓reduceIte, K]
      exact ⟨hw, ho⟩
    | some q =>
      by_cases hok : (!b && q = cur) = true
      · have hq : q = cur := by simp at hok; exact hok.2
        have hb : b = false := by simp at hok; exact hok.1
        subst hq; subst hb
        simp only [hcell, Bool.not_false, Bool.true_and, beq_self_eq_true, ↓reduceIte, decide_true,
          Bool.and_self, K]
        refine ⟨by omega, ho, trivial, ?_⟩
        simp [Shared.writeCell, upd]
      · have hw' : (!b && (some q == some cur)) = false := by
          simp at hok ⊢; intro hb; exact hok hb
        simp only [hcell, hw', Bool.false_eq_true, ↓reduceIte]
        have : ¬ ((!b && decide (q = cur)) = true) := by simpa using hok
        simp only [this, ↓reduceIte]
        by_cases hg : GD.ofGuard old = GD.done <;> simp only [hg, ↓reduceIte, K] <;> exact hw
  | pay old pp =>
    simp only [K] at h
    simp only [stepT, writes, stepCP, Bool.false_eq_true, ↓reduceIte]
    split
    · simp only; split <;> simp only [K] <;> first | exact Or.inl h | exact h
    · simp only [K]; exact h
  | decOld old =>
    simp only [K] at h
    simp only [stepT, writes, stepCP, Bool.false_eq_true, ↓reduceIte, K]
    exact Or.inl h
  | dropOld gd =>
    simp only [K] at h
    simp only [stepT, writes, stepCP, Bool.false_eq_true, ↓reduceIte]
    split <;> simp only [K] <;> exact h
  | done old =>
    simp only [stepT, writes, stepCP, Bool.false_eq_true, ↓reduceIte]
    exact h

theorem K_run (cfg : Cfg) (c cur new : Nat) : ∀ (adv : List (Shared × Bool)) (r : CS),
    K cur new r → K cur new (runT cfg c cur new adv r) := by
  intro adv
  induction adv with
  | nil => intro r h; exact h
  | cons sb rest ih =>
    intro r h
    simp only [runT]
    split
    · exact h
    · exact ih _ (K_step cfg c cur new sb r h)

/-- **C05**: when the call returns `old`,
    * `old` is pointer-equal to `current` **iff** this call wrote the cell, and it wrote it exactly
      once, at a step at which the cell held `current`, installing `new` (so the effect is `swap`'s
      and the value returned is the one stored immediately before);
    * otherwise the call wrote nothing (the container is unchanged by it) and the caller can tell by
      `old ≠ current`. -/
theorem C05_iff (cfg : Cfg) (c cur new : Nat) (adv : List (Shared × Bool)) (l : Locals) (old : Guard)
    (h : (runT cfg c cur new adv ⟨l, .load .start, 0, none, none⟩).cp = .done old) :
    let r := runT cfg c cur new adv ⟨l, .load .start, 0, none, none⟩
    (old.ptr = cur ↔ r.wrote = 1) ∧ r.wrote ≤ 1 ∧
    (r.wrote = 1 → r.before = some cur ∧ r.after = some new) ∧
    (old.ptr ≠ cur → r.wrote = 0) := by
  have hk := K_run cfg c cur new adv ⟨l, .load .start, 0, none, none⟩ (by simp [K])
  generalize runT cfg c cur new adv ⟨l, .load .start, 0, none, none⟩ = R at *
  simp only [K, h] at hk
  simp only
  rcases hk with ⟨h1, h2, h3, h4⟩ | ⟨h1, h2⟩
  · exact ⟨⟨fun _ => h1, fun _ => h2⟩, by omega, fun _ => ⟨h3, h4⟩, fun hne => absurd h2 hne⟩
  · exact ⟨⟨fun he => absurd he h2, fun hw => by omega⟩, by omega, fun hw => by omega, fun _ => h1⟩

/-- **the comparison is a comparison of objects (partial)**: what `current` denotes — given as a
    handle — is counted and alive in every state of the call, so its address is not re-allocated
    between the caller's look at it and the exchange (`C06_counted_object_keeps_identity`): the
    pointer found equal at the exchange is the object `current` denoted.  Along every execution
    that satisfies the ledger's assumptions and has raised no fault. -/
theorem C05_current_handle_alive_during_call_partial (K N T : Nat) (hK : 0 < K) (cfg : Cfg)
    (progs : Nat → List (String × Op)) (sched : List (Nat × Bool))
    (he : EnvRun0 K N T (State.initial cfg progs) sched)
    (hf : (run (State.initial cfg progs) sched).sh.fault = none)
    (t c hc : Nat) (keep : Option Guard) (curPtr new g : Nat) (cp : CP) (hp : curPtr ≠ 0)
    (hop : ((run (State.initial cfg progs) sched).th t).op = .cas c (.h hc) keep curPtr new g cp) :
    1 ≤ ((run (State.initial cfg progs) sched).sh.heap curPtr).cnt ∧
      ((run (State.initial cfg progs) sched).sh.heap curPtr).live = true :=
  cas_current_handle_counted K N T hK cfg progs sched he hf t c hc keep curPtr new g cp hp hop

/-- the same for `current` given as a guard (borrowed or not, paid or not) -/
theorem C05_current_guard_alive_during_call_partial (K N T : Nat) (hK : 0 < K) (cfg : Cfg)
    (progs : Nat → List (String × Op)) (sched : List (Nat × Bool))
    (he : EnvRun0 K N T (State.initial cfg progs) sched)
    (hf : (run (State.initial cfg progs) sched).sh.fault = none)
    (t c gc : Nat) (cg : Guard) (new g : Nat) (cp : CP) (hp : cg.ptr ≠ 0)
    (hop : ((run (State.initial cfg progs) sched).th t).op = .cas c (.g gc) (some cg) cg.ptr new g cp) :
    1 ≤ ((run (State.initial cfg progs) sched).sh.heap cg.ptr).cnt ∧
      ((run (State.initial cfg progs) sched).sh.heap cg.ptr).live = true :=
  cas_current_guard_counted K N T hK cfg progs sched he hf t c gc cg new g cp hp hop

end C05
