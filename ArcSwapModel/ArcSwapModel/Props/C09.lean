import ArcSwapModel.M.Frame
import ArcSwapModel.Inv.ListInv
import ArcSwapModel.Inv.Solo2
import ArcSwapModel.Props.C08
import ArcSwapModel.Tie.DebtPayAll
import ArcSwapModel.Tie.HelpingHelp
import ArcSwapModel.Tie.ListTraverse
import ArcSwapModel.Tie.ListNodeGet
import ArcSwapModel.Tie.ListCheckCooldown
import ArcSwapModel.Tie.ListHelp
import ArcSwapModel.Tie.HybridCas
import ArcSwapModel.Tie.LibRcu
import ArcSwapModel.Tie.LibSwap
import ArcSwapModel.Tie.LibDrop
import ArcSwapModel.Tie.LibIntoInner
import ArcSwapModel.Tie.HybridDrop
import ArcSwapModel.Tie.Sites

/-!
# C09 — writers and guards never block
(partial: no state waits, every retry is caused by another thread's progress, and the writer's walk
running alone ends within `25·nodes + 4` own steps when no reader is inside its fallback window —
see the end for what is not composed)

The crate has exactly four retry loops outside the (wait-free) read path: the writer's helping loop
(`Slots::help`), the `LIST_HEAD` compare-exchange loop of `Node::get`, the loop of
`compare_and_swap` and the loop of `rcu`.  Proved here, for **every** shared state (so from any
reachable state, with the other threads frozen anywhere — mid-load, between `F2` and `F5`, inside
another writer's walk, holding any number of guards):

* no state of any sub-machine is a waiting state: a step always moves the program counter, except
  for a spuriously failing weak compare-exchange;
* each loop goes round again only if the word it has just read differs from what it read before —
  i.e. only because another thread made progress in between (or the weak exchange failed
  spuriously).  With all other threads suspended no such change can happen.

The walk itself visits each node of the list snapshot once (`rel n` moves to `next n`).
-/

namespace C09
open M Consts

/-- **helping loop**: the offer fails only if the control word is no longer the generation read -/
theorem help_retry_means_interference (cfg : Cfg) (p c : Nat) (s : Shared) (l : Locals) (b : Bool)
    (h : HL) (r t m : Nat) :
    ((s.nodes h.who).control = h.ctl → (stepPP cfg p c s l b (.h7 h r t m)).2.2.1 = .h8 h t) ∧
    ((stepPP cfg p c s l b (.h7 h r t m)).2.2.1 ≠ .h8 h t → (s.nodes h.who).control ≠ h.ctl) := by
  constructor
  · intro he; simp [stepPP, he]
  · intro hne he; apply hne; simp [stepPP, he]

/-- **helping loop, other container**: re-reading the control word loops only if it changed -/
theorem help_recheck_means_interference (cfg : Cfg) (p c : Nat) (s : Shared) (l : Locals) (b : Bool) (h : HL) :
    (s.nodes h.who).control = h.ctl → (stepPP cfg p c s l b (.h3 h)).2.2.1 = .hend h := by
  intro he; simp [stepPP, he]

/-- **`LIST_HEAD` loop**: linking a new node fails only if the head moved (or spuriously) -/
theorem head_retry_means_interference (s : Shared) (b : Bool) (k : Nat) (h : Option Nat) :
    b = false → s.head = h → (stepNG s b (.allocCas (some k) h)).2.1 = .done k := by
  intro hb hh; subst hb
  simp only [stepNG, setNode_head, hh]
  simp

/-- **`compare_and_swap` loop**: the exchange fails only if the cell no longer holds `current`
    (or spuriously); then, and only then, the call goes round again -/
theorem cas_retry_means_interference (cfg : Cfg) (c cur new : Nat) (s : Shared) (l : Locals) (old : Guard) :
    s.cells c = some cur → ∃ pp, (stepCP cfg c cur new s l false (.cx old)).2.2.1 = .pay old pp := by
  intro he; exact ⟨.start, by simp [stepCP, he]⟩

/-- **`rcu` loop**: another attempt is made only if `compare_and_swap` returned a pointer different
    from the one passed to the closure — by `C05_iff`, only if the cell had been changed by someone
    else before the exchange -/
theorem rcu_retry_means_interference (cfg : Cfg) (c : Nat) (s : Shared) (l : Locals) (b : Bool) (tries : Nat)
    (cur : Guard) (a : Nat) (cp : CP) (prev : Guard)
    (hcp : (stepCP cfg c cur.ptr a s l b cp).2.2.1 = .done prev) (hsame : prev.ptr = cur.ptr) :
    ∀ prev' gd, (stepRP cfg c s l b tries (.cas cur a cp)).2.2.1 ≠ .dropCurLoop prev' gd ∧
      (stepRP cfg c s l b tries (.cas cur a cp)).2.2.1 ≠ .attempt prev' := by
  intro prev' gd
  simp only [stepRP]
  generalize stepCP cfg c cur.ptr a s l b cp = x at *
  obtain ⟨s', l', cp', evs⟩ := x
  simp only at hcp; subst hcp
  simp only [hsame, ↓reduceIte]
  constructor <;> (repeat' split) <;> simp

/-- **the walk**: after a node has been dealt with the writer moves on to its successor; it never
    stays, whatever the slots contain and whoever holds them -/
theorem walk_moves_on (cfg : Cfg) (p c : Nat) (s : Shared) (l : Locals) (b : Bool) (n : Nat) :
    (stepPP cfg p c s l b (.rel n)).2.2.1 =
      (match (s.nodes n).next with | some m => .res m | none => .fin) := by
  simp only [stepPP]; cases (s.nodes n).next <;> rfl

/-- no guard-drop or promotion state waits: each is at most three steps (pay, maybe one count) -/
theorem guard_ops_bounded (s : Shared) (gd : GD) (gi : GI) :
    (gd ≠ .done → ∀ p n i, (stepGD s gd).2.1 ≠ .pay p n i) ∧ C08.fuelGI (stepGI s gi).2.1 ≤ C08.fuelGI gi := by
  constructor
  · intro _ p n i
    cases gd <;> simp only [stepGD] <;> (repeat' split) <;> simp
  · cases gi with
    | inc p n i => simp [stepGI, C08.fuelGI]
    | pay p n i =>
      simp only [stepGI]
      split
      · simp [C08.fuelGI]
      · split <;> simp [C08.fuelGI]
    | dec p => simp [stepGI, C08.fuelGI]
    | done => simp [stepGI, C08.fuelGI]

/-- a slot pay-off never repeats: the walker's position strictly advances within a node -/
theorem slot_advances (cfg : Cfg) (p c : Nat) (s : Shared) (l : Locals) (b : Bool) (n j : Nat) :
    (stepPP cfg p c s l b (.slot n j)).2.2.1 = PP.nextSlot n j ∨
    (stepPP cfg p c s l b (.slot n j)).2.2.1 = .slotInc n j := by
  simp only [stepPP]
  (repeat' split) <;> simp

/-- **the walk's road is finite and only ever shortens**: in every reachable state the nodes form a
    chain `L` without repetition; from any node on it, following `next` runs through the strictly
    shorter suffix behind it to the end; and whatever anybody does next, the chain only grows at
    the front — behind a walker, never ahead of it. -/
theorem C09_walk_road_finite {st : State} (h : Reachable st) :
    ∃ L, ListInv st L ∧ L.Nodup ∧ L.length ≤ st.sh.nNodes ∧
      (∀ n, n ∈ L → ∃ L1 L2, L = L1 ++ n :: L2 ∧ chainFrom (nextOf st.sh) (st.sh.nodes n).next L2) ∧
      (∀ sched, ∃ pre, ListInv (run st sched) (pre ++ L)) := by
  obtain ⟨L, hL⟩ := ListInv.reachable h
  exact ⟨L, hL, chainFrom_nodup hL.1, hL.length_le, fun n hn => chainFrom_next hL.1 n hn,
    fun sched => hL.run (OwnInv.reachable h) sched⟩

/-- **the writer's walk, running alone, ends — a bound for lists of any length.**  In every
    reachable state, a `store`/`swap` that has just exchanged the pointer and starts its walk, with
    every other thread frozen wherever it is and no reader inside its fallback window (all control
    words idle), reaches the end of the walk within `25 · nNodes + 4` of its own steps. -/
theorem C09_walk_bound_reachable {st : State} (h : Reachable st) (t c out old : Nat) (isStore : Bool)
    (hop : (st.th t).op = .swapPay c out old isStore .start) (hnode : (st.th t).loc.node.isSome = true)
    (hq : ∀ m, (st.sh.nodes m).control = .idle) :
    ∃ k, k ≤ 25 * st.sh.nNodes + 4 ∧ ((solo st t k).th t).op = .swapPay c out old isStore .fin :=
  walk_bound_reachable h t c out old isStore hop hnode hq

/-- the same from any shared state whose list is a chain `L` of quiet nodes: `25 · |L| + 4` -/
theorem C09_walk_bound_from_start (st : State) (t c out old : Nat) (isStore : Bool) (L : List Nat)
    (hop : (st.th t).op = .swapPay c out old isStore .start) (hroad : Road st.sh st.sh.head L)
    (hnode : (st.th t).loc.node.isSome = true) :
    ∃ k, k ≤ 25 * L.length + 4 ∧ ((solo st t k).th t).op = .swapPay c out old isStore .fin :=
  walk_bound_from_start st t c out old isStore L hop hroad hnode

/-- **every walk ends alone — `swap`, `store`, `compare_and_swap`, `rcu`, `into_inner`, container
    drop**: in every reachable state a thread at the start of the debt walk of any of these
    operations, with every other thread frozen wherever it is and no reader inside its fallback
    window, reaches the end of the walk within `25 · nNodes + 4` of its own steps -/
theorem C09_every_walk_bound_reachable {st : State} (h : Reachable st) (t a : Nat)
    (hop : (st.th t).op.walkC? = some (a, .start)) (hnode : (st.th t).loc.node.isSome = true)
    (hq : ∀ m, (st.sh.nodes m).control = .idle) :
    ∃ k, k ≤ 25 * st.sh.nNodes + 4 ∧ ((solo st t k).th t).op.walkC? = some (a, .fin) :=
  walkC_bound_reachable h t a hop hnode hq

/-- non-vacuity: the walks the theorem is about -/
example : (OpSt.dropc 0 1 .start).walkC? = some (1, .start) ∧ (OpSt.cinto 0 0 1 .start).walkC? = some (1, .start) ∧
    (OpSt.swapPay 0 0 1 true .start).walkC? = some (1, .start) ∧
    (OpSt.cas 0 .null none 0 2 0 (.pay { ptr := 1, debt := none } .start)).walkC? = some (1, .start) :=
  ⟨rfl, rfl, rfl, rfl⟩

/-!
Not composed into the bound: a walk that meets a reader inside its fallback window (the walker then
helps: a nested load and a hand-over attempt — bounded too, but the helping loop goes round again
when the reader moves, `help_retry_means_interference`), and the retry loops of
`compare_and_swap` and `rcu` around their walk (each retry is caused by interference: above).  The harness checks the bound directly: from
intermediate states sampled by the scheduler, all threads but one are frozen and that one must
finish its operation within `60 + 40·(nodes+1)` steps (`solo*` families).
-/

end C09
