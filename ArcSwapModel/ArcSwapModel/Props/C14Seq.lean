import ArcSwapModel.Inv.SeqRun

/-!
# C14, on the hybrid machine: sequential executions

`Props/C14.lean` proves the accounting law of the sequential specification `Spec` and decides by
differential execution that the three strategies implement it.  Here, on the hand-written machine
`M` of the hybrid strategy itself, for executions of a single thread: they satisfy the assumptions
of the ledger *without* assuming anything about the helping protocol (a hand-over needs two
threads), hence raise no fault, and between operations every value's strong count plus the debt
slots naming it equals the number of containers, handles and guards denoting it — `Spec`'s
accounting law (`C14_accounting`), with a borrowed guard counting as an owner
(`C14_guard_is_an_owner`).  What is still decided by execution only: that `M`'s *results* (the
identities returned by each call) are `Spec`'s.
-/

namespace C14Seq
open M Consts

/-- **no sequential execution of the hybrid strategy raises a fault**: for every program of one
    thread over registers and containers below `N` that keeps the program discipline (output
    registers free, containers created on fresh cells), with room in the pool and at most `K` nodes,
    every step count, every pattern of spurious failures, every wrap modulus — no use-after-free,
    no double free, no assertion, no stuck state -/
theorem C14_hybrid_sequential_no_fault_partial (K N : Nat) (hK : 0 < K) (cfg : Cfg)
    (progs : Nat → List (String × Op)) (bs : List Bool) (h : SeqRun K N (State.initial cfg progs) bs) :
    (run (State.initial cfg progs) (seqSched bs)).sh.fault = none :=
  seq_run_fault_free K N hK cfg progs bs h

/-- **`Spec`'s accounting law holds of the hybrid machine between operations**: strong count + debt
    slots naming the value = containers + handles + guards denoting it -/
theorem C14_hybrid_sequential_counts_partial (K N : Nat) (hK : 0 < K) (cfg : Cfg)
    (progs : Nat → List (String × Op)) (bs : List Bool) (h : SeqRun K N (State.initial cfg progs) bs)
    (hidle : ((run (State.initial cfg progs) (seqSched bs)).th 0).op = .idle ∨
      ((run (State.initial cfg progs) (seqSched bs)).th 0).op = .finished)
    (a : Nat) (ha : a ≠ 0) :
    ((run (State.initial cfg progs) (seqSched bs)).sh.heap a).cnt +
        occ K (run (State.initial cfg progs) (seqSched bs)).sh.nodes a =
      (run (State.initial cfg progs) (seqSched bs)).sh.regs N a :=
  seq_between_ops_counts K N hK cfg progs bs h hidle a ha

/-- … and when no guard in a register still borrows (every guard owns its reference), no debt slot of
    any node names a value and every strong count is exactly the number of owners — what `Spec`
    says of counts at all times -/
theorem C14_hybrid_sequential_at_rest_partial (K N : Nat) (hK : 0 < K) (cfg : Cfg)
    (progs : Nat → List (String × Op)) (bs : List Bool) (h : SeqRun K N (State.initial cfg progs) bs)
    (hidle : ∀ t, ((run (State.initial cfg progs) (seqSched bs)).th t).op = .idle ∨
      ((run (State.initial cfg progs) (seqSched bs)).th t).op = .finished)
    (hg : ∀ g gd, (run (State.initial cfg progs) (seqSched bs)).sh.greg g = some gd → gd.debt = none) :
    (∀ n i a, ((run (State.initial cfg progs) (seqSched bs)).sh.nodes n).fast i ≠ .ptr a ∧
        ((run (State.initial cfg progs) (seqSched bs)).sh.nodes n).hslot ≠ .ptr a) ∧
      ∀ a, a ≠ 0 → ((run (State.initial cfg progs) (seqSched bs)).sh.heap a).cnt =
        (run (State.initial cfg progs) (seqSched bs)).sh.regs N a :=
  C02_at_rest K N 1 hK cfg progs _ (seqRun_env K N hK cfg progs bs h) (seq_run_fault_free K N hK cfg progs bs h) hidle hg

/-- a single thread never hands a replacement over to itself: no control word ever holds an
    envelope, so the assumptions of the ledger hold (`EnvRun0`) -/
theorem C14_hybrid_sequential_meets_ledger_assumptions (K N : Nat) (hK : 0 < K) (cfg : Cfg)
    (progs : Nat → List (String × Op)) (bs : List Bool) (h : SeqRun K N (State.initial cfg progs) bs) :
    EnvRun0 K N 1 (State.initial cfg progs) (seqSched bs) ∧
      NoEnv (run (State.initial cfg progs) (seqSched bs)).sh :=
  ⟨seqRun_env K N hK cfg progs bs h, seq_run_noEnv K N hK cfg progs bs h⟩

/-- non-vacuity: the program `seqEx` (two values, a container, a borrowed guard held across a store,
    a full load, `compare_and_swap`, `rcu`, a promotion, releases, `into_inner`), run to its end
    (150 steps), keeps the discipline with one node and four registers; at the end the thread has
    exited, value 2 is owned by handle `h2` alone and values 1 and 3 have been destroyed -/
example : SeqRun 1 4 seqEx (List.replicate 150 false) ∧
    ((run seqEx (seqSched (List.replicate 150 false))).th 0).op = .finished ∧
    (run seqEx (seqSched (List.replicate 150 false))).sh.hreg 2 = some 2 ∧
    ((run seqEx (seqSched (List.replicate 150 false))).sh.heap 2).cnt = 1 ∧
    ((run seqEx (seqSched (List.replicate 150 false))).sh.heap 1).live = false ∧
    ((run seqEx (seqSched (List.replicate 150 false))).sh.heap 3).live = false :=
  ⟨seqRun_of_B (by decide +kernel), by decide +kernel, by decide +kernel, by decide +kernel, by decide +kernel,
   by decide +kernel⟩

end C14Seq
