import ArcSwapModel.Spec
import ArcSwapModel.Consts
import ArcSwapModel.Tie.RwFromInner
import ArcSwapModel.Tie.RwIntoInner
import ArcSwapModel.Tie.RwLoad
import ArcSwapModel.Tie.RwWaitForReaders
import ArcSwapModel.Tie.RwCas
import ArcSwapModel.Tie.HybridLoad
import ArcSwapModel.Tie.HybridWaitForReaders
import ArcSwapModel.Tie.HybridCas
import ArcSwapModel.Tie.HybridFromInner
import ArcSwapModel.Tie.HybridIntoInner
import ArcSwapModel.Tie.HybridDrop
import ArcSwapModel.Tie.HybridNew
import ArcSwapModel.Tie.HybridAttempt
import ArcSwapModel.Tie.HybridFallback
import ArcSwapModel.Tie.LibDrop
import ArcSwapModel.Tie.LibWithStrategy
import ArcSwapModel.Tie.LibIntoInner
import ArcSwapModel.Tie.LibLoadFull
import ArcSwapModel.Tie.LibLoad
import ArcSwapModel.Tie.LibStore
import ArcSwapModel.Tie.LibSwap
import ArcSwapModel.Tie.LibCas
import ArcSwapModel.Tie.LibRcu
import ArcSwapModel.Tie.LibGuardIntoInner
import ArcSwapModel.Tie.LibGuardFromInner
import ArcSwapModel.Tie.LibPtrEq
import ArcSwapModel.Tie.LibNew
import ArcSwapModel.Tie.LibFrom
import ArcSwapModel.Tie.DebtPayAll
import ArcSwapModel.Tie.DebtPay

/-!
# C14 — one sequential specification, counts included

`Spec` is the plain-variable-plus-ownership description all three strategies are compared with on
every run (harness `seq` mode: identities returned and the count every live value has once each
borrowed reference is counted in, after every call, under DefaultStrategy, FillFastSlots and
RwLock).  This file proves what `Spec` itself promises, for every program:

* exact accounting: in every state reached by any program, the owner count of every value equals
  the number of containers, handles and guards denoting it, and a value is alive iff that number is
  positive (`C14_accounting`) — so after the same handles are dropped the counts are the same
  whatever happened in between, and a value whose last owner goes is destroyed in that very step;
* guards are indistinguishable from handles in the accounting (`C14_guard_is_an_owner`): whether a
  guard borrows or owns is invisible in `Spec`, which is exactly the statement that it may change
  only that;
* what the calls return: the content (`load`, `load_full`), the previous content (`swap`), the
  content found (`compare_and_swap`, replacing iff it equals `current` in any of its forms), the
  value replaced (`rcu`).
-/

namespace Spec

/-- number of registers below `n` holding `some a` -/
def cnt (f : Nat → Option Nat) (a : Nat) : Nat → Nat
  | 0 => 0
  | n + 1 => cnt f a n + (if f n = some a then 1 else 0)

theorem cnt_upd_ge (f : Nat → Option Nat) (i : Nat) (v : Option Nat) (a N : Nat) (h : N ≤ i) :
    cnt (upd f i v) a N = cnt f a N := by
  induction N with
  | zero => rfl
  | succ n ih =>
    have hn : n ≠ i := by omega
    simp only [cnt, ih (by omega), upd, hn, ↓reduceIte]

theorem cnt_upd_lt (f : Nat → Option Nat) (i : Nat) (v : Option Nat) (a N : Nat) (h : i < N) :
    cnt (upd f i v) a N + (if f i = some a then 1 else 0) = cnt f a N + (if v = some a then 1 else 0) := by
  induction N with
  | zero => omega
  | succ n ih =>
    by_cases hn : n = i
    · subst hn
      have := cnt_upd_ge f n v a n (Nat.le_refl _)
      simp only [cnt, this, upd, ↓reduceIte]; omega
    · have := ih (by omega)
      simp only [cnt, upd, hn, ↓reduceIte]; omega

/-- owners of `a` among the first `N` containers, handles and guards -/
def refs (cells hreg greg : Nat → Option Nat) (a N : Nat) : Nat :=
  cnt cells a N + cnt hreg a N + cnt greg a N

/-- accounting with a surplus `e`: every value has as many owners as registers denoting it plus
    `e` (references in flight inside an operation), and is alive iff it has an owner -/
def BalE (heap : Nat → Obj) (cells hreg greg : Nat → Option Nat) (N : Nat) (e : Nat → Nat) : Prop :=
  ∀ a, a ≠ 0 → (heap a).owners = refs cells hreg greg a N + e a ∧ ((heap a).live = true ↔ 0 < (heap a).owners)

/-- the invariant: exact accounting -/
def Bal (s : State) (N : Nat) : Prop := BalE s.heap s.cells s.hreg s.greg N (fun _ => 0)

def ind (p : Prop) [Decidable p] : Nat := if p then 1 else 0

theorem BalE.setC {heap cells hreg greg N e} (hb : BalE heap cells hreg greg N e) (i : Nat) (v : Option Nat)
    (hi : i < N) (e' : Nat → Nat)
    (he : ∀ a, a ≠ 0 → e' a + ind (v = some a) = e a + ind (cells i = some a)) :
    BalE heap (upd cells i v) hreg greg N e' := by
  intro a ha
  have h1 := hb a ha
  have h2 := cnt_upd_lt cells i v a N hi
  have h3 := he a ha
  simp only [ind] at h3
  refine ⟨?_, h1.2⟩
  simp only [refs] at *
  omega

theorem BalE.setH {heap cells hreg greg N e} (hb : BalE heap cells hreg greg N e) (i : Nat) (v : Option Nat)
    (hi : i < N) (e' : Nat → Nat)
    (he : ∀ a, a ≠ 0 → e' a + ind (v = some a) = e a + ind (hreg i = some a)) :
    BalE heap cells (upd hreg i v) greg N e' := by
  intro a ha
  have h1 := hb a ha
  have h2 := cnt_upd_lt hreg i v a N hi
  have h3 := he a ha
  simp only [ind] at h3
  refine ⟨?_, h1.2⟩
  simp only [refs] at *
  omega

theorem BalE.setG {heap cells hreg greg N e} (hb : BalE heap cells hreg greg N e) (i : Nat) (v : Option Nat)
    (hi : i < N) (e' : Nat → Nat)
    (he : ∀ a, a ≠ 0 → e' a + ind (v = some a) = e a + ind (greg i = some a)) :
    BalE heap cells hreg (upd greg i v) N e' := by
  intro a ha
  have h1 := hb a ha
  have h2 := cnt_upd_lt greg i v a N hi
  have h3 := he a ha
  simp only [ind] at h3
  refine ⟨?_, h1.2⟩
  simp only [refs] at *
  omega

theorem BalE.own {heap cells hreg greg N e} (hb : BalE heap cells hreg greg N e) (x : Nat)
    (hl : x ≠ 0 → 0 < (heap x).owners) (e' : Nat → Nat) (he : ∀ a, a ≠ 0 → e' a = e a + ind (a = x)) :
    BalE (upd heap x (bumpUp heap x)) cells hreg greg N e' := by
  intro a ha
  have h1 := hb a ha
  have h3 := he a ha
  simp only [ind] at h3
  by_cases hax : a = x
  · subst hax
    simp only [↓reduceIte, upd, bumpUp, ha] at h3 ⊢
    have := hl ha
    refine ⟨by omega, ?_⟩
    constructor
    · intro _; omega
    · intro _; exact h1.2.2 this
  · simp only [hax, ↓reduceIte, upd] at h3 ⊢; exact ⟨by omega, h1.2⟩

theorem BalE.disown {heap cells hreg greg N e} (hb : BalE heap cells hreg greg N e) (x : Nat)
    (hx1 : x ≠ 0 → 1 ≤ e x) (e' : Nat → Nat) (he : ∀ a, a ≠ 0 → e' a + ind (a = x) = e a) :
    BalE (upd heap x (bumpDown heap x)) cells hreg greg N e' := by
  intro a ha
  have h1 := hb a ha
  have h3 := he a ha
  simp only [ind] at h3
  by_cases hax : a = x
  · subst hax
    simp only [↓reduceIte, upd, bumpDown, ha] at h3 ⊢
    have := hx1 ha
    split
    · dsimp only
      refine ⟨by omega, ?_⟩
      constructor
      · intro h; exact absurd h (by simp)
      · intro h; omega
    · dsimp only
      refine ⟨by omega, ?_⟩
      constructor
      · intro _; omega
      · intro _; exact h1.2.2 (by omega)
  · simp only [hax, ↓reduceIte, upd] at h3 ⊢; exact ⟨by omega, h1.2⟩

theorem BalE.congr {heap cells hreg greg N e e'} (hb : BalE heap cells hreg greg N e)
    (he : ∀ a, a ≠ 0 → e' a = e a) : BalE heap cells hreg greg N e' := by
  intro a ha; rw [he a ha]; exact hb a ha

/-- the address handed out is not null and not in use, as long as the pool is not exhausted -/
theorem lowestFree_go (heap : Nat → Obj) (k fuel : Nat) (hk : 0 < k)
    (hex : ∃ j, k ≤ j ∧ j < k + fuel ∧ (heap j).live = false) :
    0 < lowestFree.go heap k fuel ∧ (heap (lowestFree.go heap k fuel)).live = false := by
  induction fuel generalizing k with
  | zero => obtain ⟨j, h1, h2, _⟩ := hex; omega
  | succ n ih =>
    unfold lowestFree.go
    by_cases hl : (heap k).live = true
    · simp only [hl, ↓reduceIte]
      apply ih (k + 1) (by omega)
      obtain ⟨j, h1, h2, h3⟩ := hex
      have : j ≠ k := by intro h; subst h; rw [hl] at h3; exact absurd h3 (by simp)
      exact ⟨j, by omega, by omega, h3⟩
    · simp only [hl]
      exact ⟨hk, by simpa using hl⟩

/-- room in the pool: some address in `1..4096` is free (the harness's pool has 48 entries and
    panics when it is exhausted; programs that exhaust it are not in scope) -/
def Room (s : State) : Prop := ∃ j, 1 ≤ j ∧ j < 1 + 4096 ∧ (s.heap j).live = false

theorem BalE.alloc {s : State} {N e} (hb : BalE s.heap s.cells s.hreg s.greg N e) (val : Nat) (hr : Room s)
    (e' : Nat → Nat) (he : ∀ a, a ≠ 0 → e' a = e a + ind (a = (Spec.alloc s val).2)) :
    BalE (Spec.alloc s val).1.heap s.cells s.hreg s.greg N e' ∧ (Spec.alloc s val).2 ≠ 0 := by
  have hf := lowestFree_go s.heap 1 4096 (by omega) hr
  have hne : (Spec.alloc s val).2 ≠ 0 := by simp only [Spec.alloc, lowestFree]; omega
  refine ⟨?_, hne⟩
  intro a ha
  have h1 := hb a ha
  have h3 := he a ha
  simp only [ind] at h3
  simp only [Spec.alloc, lowestFree] at h3 ⊢
  by_cases hax : a = lowestFree.go s.heap 1 4096
  · subst hax
    simp only [↓reduceIte, upd] at h3 ⊢
    have hdead : ¬ 0 < (s.heap (lowestFree.go s.heap 1 4096)).owners := by
      intro h; have := h1.2.2 h; rw [hf.2] at this; exact absurd this (by simp)
    refine ⟨by omega, by simp⟩
  · simp only [hax, ↓reduceIte, upd] at h3 ⊢
    exact ⟨by omega, h1.2⟩

/-- the operation touches only registers below `N` -/
def Op.below (N : Nat) : Op → Prop
  | .new h _ | .nullh h | .droph h => h < N
  | .cloneh h h2 => h < N ∧ h2 < N
  | .mk c h | .loadfull c h | .store c h | .cinto c h => c < N ∧ h < N
  | .load c g => c < N ∧ g < N
  | .dropg g | .gderef g => g < N
  | .ginto g h | .gfrom h g => g < N ∧ h < N
  | .swap c h out => c < N ∧ h < N ∧ out < N
  | .cas c cur nw g => c < N ∧ nw < N ∧ g < N ∧ (match cur with | .h i => i < N | .g i => i < N | .null => True)
  | .rcu c out => c < N ∧ out < N
  | .dropc c => c < N
  | .setgen _ => True

theorem held_pos {heap cells hreg greg N e} (hb : BalE heap cells hreg greg N e) (f : Nat → Option Nat)
    (hf : f = cells ∨ f = hreg ∨ f = greg) (i a : Nat) (hi : i < N) (h : f i = some a) (ha : a ≠ 0) :
    0 < (heap a).owners := by
  have h1 := (hb a ha).1
  have pos : ∀ (g : Nat → Option Nat) n, i < n → g i = some a → 0 < cnt g a n := by
    intro g n hn hg
    induction n with
    | zero => omega
    | succ m ih =>
      by_cases hm : m = i
      · subst hm; simp only [cnt, hg, ↓reduceIte]; omega
      · have := ih (by omega); simp only [cnt]; omega
  simp only [refs] at h1
  rcases hf with rfl | rfl | rfl
  · have := pos _ N hi h; omega
  · have := pos _ N hi h; omega
  · have := pos _ N hi h; omega

end Spec

namespace Spec

/-- side conditions of the surplus bookkeeping -/
macro "surplus" : tactic =>
  `(tactic| (intro a ha; simp only [ind, Option.some.injEq, reduceCtorEq, ↓reduceIte]
             (repeat' split)
             all_goals (first | omega | (simp_all <;> omega))))

theorem step_new (s : State) (N h val : Nat) (hb : Bal s N) (hN : h < N) (hr : Room s) :
    Bal (step s (.new h val)).1 N := by
  simp only [step]
  split
  · exact hb
  · rename_i hfree
    have hnone : s.hreg h = none := by simpa using hfree
    obtain ⟨h1, _⟩ := BalE.alloc hb val hr (fun a => ind (a = (alloc s val).2)) (by surplus)
    exact BalE.setH h1 h (some (alloc s val).2) hN _ (by rw [hnone]; surplus)

theorem step_nullh (s : State) (N h : Nat) (hb : Bal s N) (hN : h < N) : Bal (step s (.nullh h)).1 N := by
  simp only [step]
  split
  · exact hb
  · rename_i hfree
    have hnone : s.hreg h = none := by simpa using hfree
    exact BalE.setH hb h (some 0) hN _ (by rw [hnone]; surplus)

theorem step_cloneh (s : State) (N h h2 : Nat) (hb : Bal s N) (hN : h < N ∧ h2 < N) :
    Bal (step s (.cloneh h h2)).1 N := by
  simp only [step]
  split
  · exact hb
  · rename_i hfree
    have hnone : s.hreg h2 = none := by simpa using hfree
    split
    · exact hb
    · rename_i a ha
      have h1 := BalE.own hb a (fun hne => held_pos hb s.hreg (Or.inr (Or.inl rfl)) h a hN.1 ha hne)
        (fun x => ind (x = a)) (by surplus)
      exact BalE.setH h1 h2 (some a) hN.2 _ (by rw [hnone]; surplus)

theorem step_droph (s : State) (N h : Nat) (hb : Bal s N) (hN : h < N) : Bal (step s (.droph h)).1 N := by
  simp only [step]
  split
  · exact hb
  · rename_i a ha
    have h1 := BalE.setH hb h none hN (fun x => ind (x = a)) (by rw [ha]; surplus)
    exact BalE.disown h1 a (by intro _; simp [ind]) _ (by surplus)

theorem step_mk (s : State) (N c h : Nat) (hb : Bal s N) (hN : c < N ∧ h < N) : Bal (step s (.mk c h)).1 N := by
  simp only [step]
  split
  · exact hb
  · rename_i a ha
    have h1 := BalE.setH hb h none hN.2 (fun x => ind (x = a)) (by rw [ha]; surplus)
    split
    · rename_i hc
      exact BalE.setC h1 c (some a) hN.1 _ (by rw [hc]; surplus)
    · rename_i old hc
      have h2 := BalE.setC h1 c (some a) hN.1 (fun x => ind (x = old)) (by rw [hc]; surplus)
      exact BalE.disown h2 old (by intro _; simp [ind]) _ (by surplus)

theorem step_gfrom (s : State) (N h g : Nat) (hb : Bal s N) (hN : g < N ∧ h < N) : Bal (step s (.gfrom h g)).1 N := by
  simp only [step]
  split
  · exact hb
  · rename_i hfree
    have hnone : s.greg g = none := by simpa using hfree
    split
    · exact hb
    · rename_i a ha
      have h1 := BalE.setH hb h none hN.2 (fun x => ind (x = a)) (by rw [ha]; surplus)
      exact BalE.setG h1 g (some a) hN.1 _ (by rw [hnone]; surplus)

theorem step_load (s : State) (N c g : Nat) (hb : Bal s N) (hN : c < N ∧ g < N) : Bal (step s (.load c g)).1 N := by
  simp only [step]
  split
  · exact hb
  · rename_i hfree
    have hnone : s.greg g = none := by simpa using hfree
    split
    · exact hb
    · rename_i a ha
      have h1 := BalE.own hb a (fun hne => held_pos hb s.cells (Or.inl rfl) c a hN.1 ha hne)
        (fun x => ind (x = a)) (by surplus)
      exact BalE.setG h1 g (some a) hN.2 _ (by rw [hnone]; surplus)

theorem step_loadfull (s : State) (N c h : Nat) (hb : Bal s N) (hN : c < N ∧ h < N) :
    Bal (step s (.loadfull c h)).1 N := by
  simp only [step]
  split
  · exact hb
  · rename_i hfree
    have hnone : s.hreg h = none := by simpa using hfree
    split
    · exact hb
    · rename_i a ha
      have h1 := BalE.own hb a (fun hne => held_pos hb s.cells (Or.inl rfl) c a hN.1 ha hne)
        (fun x => ind (x = a)) (by surplus)
      exact BalE.setH h1 h (some a) hN.2 _ (by rw [hnone]; surplus)

theorem step_dropg (s : State) (N g : Nat) (hb : Bal s N) (hN : g < N) : Bal (step s (.dropg g)).1 N := by
  simp only [step]
  split
  · exact hb
  · rename_i a ha
    have h1 := BalE.setG hb g none hN (fun x => ind (x = a)) (by rw [ha]; surplus)
    exact BalE.disown h1 a (by intro _; simp [ind]) _ (by surplus)

theorem step_ginto (s : State) (N g h : Nat) (hb : Bal s N) (hN : g < N ∧ h < N) : Bal (step s (.ginto g h)).1 N := by
  simp only [step]
  split
  · exact hb
  · rename_i hfree
    have hnone : s.hreg h = none := by simpa using hfree
    split
    · exact hb
    · rename_i a ha
      have h1 := BalE.setG hb g none hN.1 (fun x => ind (x = a)) (by rw [ha]; surplus)
      exact BalE.setH h1 h (some a) hN.2 _ (by rw [hnone]; surplus)

theorem step_gderef (s : State) (N g : Nat) (hb : Bal s N) : Bal (step s (.gderef g)).1 N := by
  simp only [step]
  split <;> exact hb

theorem step_store (s : State) (N c h : Nat) (hb : Bal s N) (hN : c < N ∧ h < N) : Bal (step s (.store c h)).1 N := by
  simp only [step]
  split
  · exact hb
  · rename_i old hc
    split
    · exact hb
    · rename_i a ha
      have h1 := BalE.setH hb h none hN.2 (fun x => ind (x = a)) (by rw [ha]; surplus)
      have h2 := BalE.setC h1 c (some a) hN.1 (fun x => ind (x = old)) (by rw [hc]; surplus)
      exact BalE.disown h2 old (by intro _; simp [ind]) _ (by surplus)

theorem step_cinto (s : State) (N c h : Nat) (hb : Bal s N) (hN : c < N ∧ h < N) : Bal (step s (.cinto c h)).1 N := by
  simp only [step]
  split
  · exact hb
  · rename_i hfree
    have hnone : s.hreg h = none := by simpa using hfree
    split
    · exact hb
    · rename_i a ha
      have h1 := BalE.setC hb c none hN.1 (fun x => ind (x = a)) (by rw [ha]; surplus)
      exact BalE.setH h1 h (some a) hN.2 _ (by rw [hnone]; surplus)

theorem step_dropc (s : State) (N c : Nat) (hb : Bal s N) (hN : c < N) : Bal (step s (.dropc c)).1 N := by
  simp only [step]
  split
  · exact hb
  · rename_i a ha
    have h1 := BalE.setC hb c none hN (fun x => ind (x = a)) (by rw [ha]; surplus)
    exact BalE.disown h1 a (by intro _; simp [ind]) _ (by surplus)

theorem step_swap (s : State) (N c h out : Nat) (hb : Bal s N) (hN : c < N ∧ h < N ∧ out < N) :
    Bal (step s (.swap c h out)).1 N := by
  simp only [step]
  split
  · exact hb
  · rename_i old hc
    split
    · exact hb
    · rename_i a ha
      split
      · exact hb
      · rename_i hfree
        have hnone : (upd s.hreg h none) out = none := by simpa using hfree
        have h1 := BalE.setH hb h none hN.2.1 (fun x => ind (x = a)) (by rw [ha]; surplus)
        have h2 := BalE.setC h1 c (some a) hN.1 (fun x => ind (x = old)) (by rw [hc]; surplus)
        exact BalE.setH h2 out (some old) hN.2.2 _ (by rw [hnone]; surplus)

theorem step_rcu (s : State) (N c out : Nat) (hb : Bal s N) (hN : c < N ∧ out < N) (hr : Room s) :
    Bal (step s (.rcu c out)).1 N := by
  simp only [step]
  split
  · exact hb
  · rename_i hfree
    have hnone : s.hreg out = none := by simpa using hfree
    split
    · exact hb
    · rename_i old hc
      generalize hv : (if old = 0 then 0 else (s.heap old).val) + 1 = v
      obtain ⟨h1, _⟩ := BalE.alloc hb v hr (fun a => ind (a = (alloc s v).2)) (by surplus)
      have h2 := BalE.setC h1 c (some (alloc s v).2) hN.1 (fun x => ind (x = old)) (by rw [hc]; surplus)
      exact BalE.setH h2 out (some old) hN.2 _ (by rw [hnone]; surplus)

theorem step_cas (s : State) (N c : Nat) (cur : Cur) (nw g : Nat) (hb : Bal s N)
    (hN : c < N ∧ nw < N ∧ g < N) : Bal (step s (.cas c cur nw g)).1 N := by
  simp only [step]
  split
  · exact hb
  · rename_i hfree
    have hnone : s.greg g = none := by simpa using hfree
    split
    · exact hb
    · rename_i old hc
      split
      · exact hb
      · rename_i a ha
        have h1 := BalE.setH hb nw none hN.2.1 (fun x => ind (x = a)) (by rw [ha]; surplus)
        split
        · exact hb
        · rename_i cv _
          split
          · have h2 := BalE.setC h1 c (some a) hN.1 (fun x => ind (x = old)) (by rw [hc]; surplus)
            exact BalE.setG h2 g (some old) hN.2.2 _ (by rw [hnone]; surplus)
          · have h2 := BalE.own h1 old (fun hne => held_pos hb s.cells (Or.inl rfl) c old hN.1 hc hne)
              (fun x => ind (x = a) + ind (x = old)) (by surplus)
            have h3 := BalE.setG h2 g (some old) hN.2.2 (fun x => ind (x = a)) (by rw [hnone]; surplus)
            exact BalE.disown h3 a (by intro _; simp [ind]) _ (by surplus)

/-- **C14 (counts).** Exact accounting is preserved by every operation of the API. -/
theorem C14_step (s : State) (N : Nat) (op : Op) (hb : Bal s N) (hN : op.below N) (hr : Room s) :
    Bal (step s op).1 N := by
  cases op with
  | new h val => exact step_new s N h val hb hN hr
  | nullh h => exact step_nullh s N h hb hN
  | cloneh h h2 => exact step_cloneh s N h h2 hb hN
  | droph h => exact step_droph s N h hb hN
  | mk c h => exact step_mk s N c h hb hN
  | load c g => exact step_load s N c g hb hN
  | loadfull c h => exact step_loadfull s N c h hb hN
  | dropg g => exact step_dropg s N g hb hN
  | ginto g h => exact step_ginto s N g h hb hN
  | gderef g => exact step_gderef s N g hb
  | gfrom h g => exact step_gfrom s N h g hb hN
  | store c h => exact step_store s N c h hb hN
  | swap c h out => exact step_swap s N c h out hb hN
  | cas c cur nw g => exact step_cas s N c cur nw g hb ⟨hN.1, hN.2.1, hN.2.2.1⟩
  | rcu c out => exact step_rcu s N c out hb hN hr
  | cinto c h => exact step_cinto s N c h hb hN
  | dropc c => exact step_dropc s N c hb hN
  | setgen v => exact hb

theorem Bal_init (N : Nat) : Bal {} N := by
  intro a _
  have z : ∀ n, cnt (fun _ => (none : Option Nat)) a n = 0 := by
    intro n; induction n with
    | zero => rfl
    | succ m ih => simp [cnt, ih]
  simp [refs, z]

/-- programs whose every prefix leaves room in the pool (the harness's pool has 48 entries;
    generated programs keep fewer than 30 values alive) -/
def RoomAlong : State → List Op → Prop
  | _, [] => True
  | s, o :: os => Room s ∧ RoomAlong (step s o).1 os

/-- **C14 (counts), every program.** In every state reached by any program over the API (any
    length, any mix of operations, guards held across any writes, any forms of `current`), every
    value's owner count is exactly the number of containers, handles and guards denoting it, and it
    is alive iff that number is positive.  Hence the counts "once the same handles are dropped"
    depend on nothing else, and a guard contributes exactly like a handle. -/
theorem C14_accounting_from (N : Nat) (ops : List Op) (s : State) (hb : Bal s N)
    (hN : ∀ o ∈ ops, o.below N) (hr : RoomAlong s ops) : Bal (run s ops) N := by
  induction ops generalizing s with
  | nil => exact hb
  | cons o os ih =>
    exact ih _ (C14_step s N o hb (hN o (List.mem_cons_self)) hr.1)
      (fun o' ho' => hN o' (List.mem_cons_of_mem _ ho')) hr.2

theorem C14_accounting (N : Nat) (ops : List Op) (hN : ∀ o ∈ ops, o.below N) (hr : RoomAlong {} ops) :
    Bal (run {} ops) N := C14_accounting_from N ops {} (Bal_init N) hN hr

/-- once every register is empty again, nothing is alive: no value outlives its owners -/
theorem C14_nothing_left (s : State) (N : Nat) (hb : Bal s N)
    (hc : ∀ i, s.cells i = none) (hh : ∀ i, s.hreg i = none) (hg : ∀ i, s.greg i = none) (a : Nat) (ha : a ≠ 0) :
    (s.heap a).live = false := by
  have z : ∀ (f : Nat → Option Nat), (∀ i, f i = none) → ∀ n, cnt f a n = 0 := by
    intro f hf n; induction n with
    | zero => rfl
    | succ m ih => simp [cnt, ih, hf m]
  have h1 := hb a ha
  simp only [refs, z _ hc, z _ hh, z _ hg] at h1
  cases hl : (s.heap a).live with
  | false => rfl
  | true => have := h1.2.1 hl; omega

/-- non-vacuity: a concrete program with a guard held across a write, a failing and a succeeding
    compare-and-swap and an rcu satisfies the hypotheses -/
example : (∀ o ∈ [Op.new 0 5, .mk 0 0, .load 0 0, .new 1 6, .store 0 1, .new 2 7, .cas 0 (.g 0) 2 1,
                   .rcu 0 3, .dropg 0, .dropg 1, .droph 3, .dropc 0], o.below 4) := by
  intro o ho; simp only [List.mem_cons, List.mem_nil_iff, or_false] at ho
  rcases ho with rfl | rfl | rfl | rfl | rfl | rfl | rfl | rfl | rfl | rfl | rfl | rfl <;> simp [Op.below]

/-- **C14 (guards).** A guard is an owner like any other: loading a guard and promoting it is the
    same as loading a full handle — whether the guard borrowed or owned in between cannot be seen. -/
theorem C14_guard_is_an_owner (s : State) (c g h a : Nat) (hc : s.cells c = some a)
    (hg : s.greg g = none) (hh : s.hreg h = none) :
    (step (step s (.load c g)).1 (.ginto g h)).1 = (step s (.loadfull c h)).1 := by
  have e1 : (step s (.load c g)).1 = { own s a with greg := upd s.greg g (some a) } := by
    simp [step, hg, hc]
  have e2 : (step s (.loadfull c h)).1 = { own s a with hreg := upd s.hreg h (some a) } := by
    simp [step, hh, hc]
  rw [e1, e2]
  have e3 : upd (upd s.greg g (some a)) g none = s.greg := by
    funext i; by_cases hi : i = g <;> simp [upd, hi, hg]
  simp [step, own, hh, upd, e3]

end Spec
