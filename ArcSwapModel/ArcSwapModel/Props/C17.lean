import ArcSwapModel.AccessM
import ArcSwapModel.Tie.AccDerefLoad
import ArcSwapModel.Tie.AccDyn1Load
import ArcSwapModel.Tie.AccDyn2Load
import ArcSwapModel.Tie.AccDyn3Load
import ArcSwapModel.Tie.AccArcSwapLoad
import ArcSwapModel.Tie.AccDirectArcDeref
import ArcSwapModel.Tie.AccDirectArcLoad
import ArcSwapModel.Tie.AccDirectRcDeref
import ArcSwapModel.Tie.AccDirectRcLoad
import ArcSwapModel.Tie.AccDynGuardDeref
import ArcSwapModel.Tie.AccDynAccessLoad
import ArcSwapModel.Tie.AccConvertLoad
import ArcSwapModel.Tie.AccMapGuardDeref
import ArcSwapModel.Tie.AccMapNew
import ArcSwapModel.Tie.AccMapLoad
import ArcSwapModel.Tie.AccConstantDeref
import ArcSwapModel.Tie.AccConstantLoad
import ArcSwapModel.Tie.LibMap
import ArcSwapModel.Tie.LibGuardDeref
import ArcSwapModel.Tie.LibLoad
import ArcSwapModel.Tie.AutoTraitsTable
import ArcSwapModel.AutoTraits

/-!
# C17 — Access/Map projections: one consistent snapshot per guard, fresh per load
-/

namespace C17
open AccessM

/-- **One snapshot**: whatever is stored after the guard was created (the later content `later` is
    not even an argument of `view`), a guard dereferences to the projection chain applied to the
    one value the container's `load` returned when it was created — for any chain depth, through
    pointers, `dyn` and `AccessConvert`. -/
theorem C17_one_snapshot (a : Acc) (cur : Val) : view (load cur a) = chain a cur := by
  induction a with
  | cell => rfl
  | map a p ih => simp [load, view, chain, ih]
  | ptr a ih => simpa [load, chain] using ih
  | dyn a ih => simpa [load, view, chain] using ih
  | convert a ih => simpa [load, chain] using ih
  | const v => rfl

/-- **Fresh per load**: a load performs exactly one load of the underlying container (none for a
    constant), so by C03 a load started after a completed store projects that store's value or a
    later one; here: the guard of a load made when the container holds `cur` projects `cur`. -/
theorem C17_single_load (a : Acc) : loads a ≤ 1 := by
  induction a <;> simp_all [loads]

theorem C17_fresh (a : Acc) (old cur : Val) : view (load cur a) = chain a cur ∧
    (loads a = 0 → view (load cur a) = view (load old a)) := by
  refine ⟨C17_one_snapshot a cur, ?_⟩
  induction a with
  | cell => simp [loads]
  | map a p ih => intro h; simp only [loads] at h; simp [load, view, ih h]
  | ptr a ih => intro h; simp only [loads] at h; simpa [load] using ih h
  | dyn a ih => intro h; simp only [loads] at h; simpa [load, view] using ih h
  | convert a ih => intro h; simp only [loads] at h; simpa [load] using ih h
  | const v => intro _; rfl

/-- **Static and dynamic dispatch agree.** -/
theorem C17_dispatch (a : Acc) (cur : Val) : view (load cur a) = view (load cur (static a)) := by
  rw [C17_one_snapshot, C17_one_snapshot]
  induction a with
  | cell => rfl
  | map a p ih => simp [static, chain, ih]
  | ptr a ih => simpa [static, chain] using ih
  | dyn a ih => simpa [static, chain] using ih
  | convert a ih => simpa [static, chain] using ih
  | const v => rfl

/-- **`Constant` always yields its own value.** -/
theorem C17_constant (v cur : Val) : view (load cur (.const v)) = v := rfl

/-- the guard keeps its snapshot: in the source, `MapGuard` *owns* the inner guard (field `guard: G`)
    next to the projection, and `DynGuard` owns the boxed guard — read off the struct table the
    current source gives (`Tie.AutoTraitsTable.table_tie`) -/
def fieldNames (name : String) : List String :=
  match AutoTraits.structDef name with
  | some sd => (sd.kid 3).kids.filterMap fun f => (f.kid 0).atom?
  | none => []

theorem mapguard_owns_guard : fieldNames "MapGuard" = ["guard", "projection", "_t"] ∧
    fieldNames "Map" = ["access", "projection", "_t"] ∧ fieldNames "DynGuard" = ["0"] := by decide

example : view (load (.node (.node (.leaf 1) (.leaf 2)) (.leaf 3)) (.dyn (.map (.ptr (.map .cell .fst)) .snd))) = .leaf 2 := by
  decide

end C17
