import ArcSwapModel.AutoTraits

/-!
# C19 — thread-safety markers follow the pointee

For every public wrapper, every supported pointer kind, every `Send`/`Sync` combination of the
pointee and every strategy (780 instantiations), over the struct table of the source
(`AutoTraits.Golden.table`, proved equal to what the current source gives by `table_tie`).
The quantifier over all pointee types is reduced to the two flags by parametricity of auto traits
(an assumption about rustc, validated per table cell against rustc itself by the correspondence).
-/

namespace C19
open AutoTraits

/-- (wrapper is Send, wrapper is Sync, stored pointer is Send, stored pointer is Sync) -/
def verdict (c : Case) : Bool × Bool × Bool × Bool :=
  (isSend c.ty, isSync c.ty, isSend c.kind, isSync c.kind)

/-- the whole table, evaluated once by the kernel -/
def verdicts : List (Case × (Bool × Bool × Bool × Bool)) := cases.map fun c => (c, verdict c)

/-- a wrapper is `Send` (`Sync`) only if the pointer it stores is -/
def sound (v : Bool × Bool × Bool × Bool) : Bool := (!v.1 || v.2.2.1) && (!v.2.1 || v.2.2.2)

/-- thread-safe pointers move and are shared freely through every wrapper (all other type
    parameters instantiated with `Send + Sync` types), `DynGuard` being the stated exception -/
def complete (c : Case) (v : Bool × Bool × Bool × Bool) : Bool :=
  c.w == .dynGuard || !(v.2.2.1 && v.2.2.2) || (v.1 && v.2.1)

/-- everything C19 says about one table cell -/
def cellOk (p : Case × (Bool × Bool × Bool × Bool)) : Bool :=
  let c := p.1; let v := p.2
  sound v && complete c v &&
  -- `DynGuard` is deliberately neither
  (c.w != .dynGuard || (!v.1 && !v.2.1)) &&
  -- `Rc`-based kinds never cross threads
  (!(c.pk == .rc || c.pk == .optRc) || (!v.1 && !v.2.1)) &&
  -- a pointee that is not both `Send` and `Sync` never crosses threads inside an `Arc`
  ((c.send && c.sync) || (!v.1 && !v.2.1))

theorem C19_table : verdicts.all cellOk = true := by decide +kernel

theorem C19_sound (c : Case) (h : c ∈ cases) :
    (isSend c.ty = true → isSend c.kind = true) ∧ (isSync c.ty = true → isSync c.kind = true) := by
  have hm : (c, verdict c) ∈ verdicts := List.mem_map.mpr ⟨c, h, rfl⟩
  have := List.all_eq_true.mp C19_table _ hm
  simp only [cellOk, sound, verdict, Bool.and_eq_true, Bool.or_eq_true, Bool.not_eq_true'] at this
  obtain ⟨⟨⟨⟨⟨h1, h2⟩, _⟩, _⟩, _⟩, _⟩ := this
  constructor
  · intro hs; rcases h1 with h1 | h1 <;> simp_all
  · intro hs; rcases h2 with h2 | h2 <;> simp_all

theorem C19_complete (c : Case) (h : c ∈ cases) (hw : c.w ≠ .dynGuard)
    (hk : isSend c.kind = true ∧ isSync c.kind = true) : isSend c.ty = true ∧ isSync c.ty = true := by
  have hm : (c, verdict c) ∈ verdicts := List.mem_map.mpr ⟨c, h, rfl⟩
  have := List.all_eq_true.mp C19_table _ hm
  simp only [cellOk, complete, verdict, Bool.and_eq_true, Bool.or_eq_true, Bool.not_eq_true',
    beq_iff_eq] at this
  obtain ⟨⟨⟨⟨_, h2⟩, _⟩, _⟩, _⟩ := this
  rcases h2 with (h2 | h2) | h2
  · exact absurd h2 hw
  · simp_all
  · exact h2

/-- the table is not vacuous: an `ArcSwap` of a `Send + Sync` pointee is accepted, one of a
    `Send`-only pointee is rejected -/
example : isSend (Case.ty ⟨.arcSwap, .arc, .default, true, true⟩) = true ∧
    isSend (Case.ty ⟨.arcSwap, .arc, .default, true, false⟩) = false := by decide +kernel

end C19
