import ArcSwapModel.SerdeM
import ArcSwapModel.Tie.SerdeSerialize
import ArcSwapModel.Tie.SerdeDeserialize
import ArcSwapModel.Tie.LibFrom
import ArcSwapModel.Tie.LibNew
import ArcSwapModel.Tie.LibWithStrategy
import ArcSwapModel.Tie.LibLoad

/-!
# C20 — serde support is transparent
-/

namespace C20
open SerdeM

theorem ser_length_pos (v : Val) : 0 < (ser v).length := by
  cases v <;> simp [ser]

/-- the deserializer inverts the serializer, with any continuation of the token stream -/
theorem de_ser (v : Val) : ∀ (rest : List Tok) (fuel : Nat), (ser v).length ≤ fuel →
    de fuel (ser v ++ rest) = some (v, rest) := by
  induction v with
  | u64 n => intro rest fuel h; cases fuel <;> simp_all [ser, de]
  | str s => intro rest fuel h; cases fuel <;> simp_all [ser, de]
  | unit => intro rest fuel h; cases fuel <;> simp_all [ser, de]
  | none => intro rest fuel h; cases fuel <;> simp_all [ser, de]
  | some v ih =>
    intro rest fuel h
    cases fuel with
    | zero => simp [ser] at h
    | succ f =>
      simp only [ser, List.length_cons] at h
      simp only [ser, List.cons_append, de]
      rw [ih rest f (by omega)]; rfl
  | pair a b iha ihb =>
    intro rest fuel h
    cases fuel with
    | zero => simp [ser] at h
    | succ f =>
      simp only [ser, List.length_cons, List.length_append, List.length_nil] at h
      simp only [ser, List.cons_append, List.append_assoc, de]
      rw [iha _ f (by omega)]
      simp only
      rw [ihb _ f (by omega)]
      simp

/-- **Transparency**: a container serializes to exactly what its currently stored value
    serializes to (`None` included: `[Tok.none]`), and serializing does not change it. -/
theorem C20_transparent (c : Container) :
    (serContainer c).1 = ser c.current ∧ (serContainer c).2 = c := ⟨rfl, rfl⟩

theorem C20_none (n : Nat) : (serContainer ⟨.none, n⟩).1 = [Tok.none] := rfl

/-- **Deserialization** yields a container holding exactly the deserialized value, with a single
    reference. -/
theorem C20_de_single_ref (fuel : Nat) (ts : List Tok) (c : Container) (r : List Tok)
    (h : deContainer fuel ts = some (c, r)) : c.strong = 1 ∧ de fuel ts = some (c.current, r) := by
  unfold deContainer at h
  cases hd : de fuel ts with
  | none => simp [hd] at h
  | some p =>
    obtain ⟨v, r'⟩ := p
    simp only [hd, Option.map_some, Option.some.injEq, Prod.mk.injEq] at h
    obtain ⟨h1, h2⟩ := h
    subst h1; subst h2; exact ⟨rfl, rfl⟩

/-- **Round trip** for every value (scalars, strings, options, nested structures): deserializing
    what a container serialized gives a container holding an equal value with one reference —
    the strategy occurs in neither body. -/
theorem C20_roundtrip (c : Container) :
    deContainer (ser c.current).length ((serContainer c).1) = some (⟨c.current, 1⟩, []) := by
  have := de_ser c.current [] (ser c.current).length (Nat.le_refl _)
  simp only [List.append_nil] at this
  simp [deContainer, serContainer, this]

example : de 10 (ser (.pair (.some (.u64 7)) (.pair (.str "x") .none))) =
    some (.pair (.some (.u64 7)) (.pair (.str "x") .none), []) := by decide

end C20
