import ArcSwapModel.M.Machine
import ArcSwapModel.Tie.HybridLoad
import ArcSwapModel.Tie.RwLoad
import ArcSwapModel.Tie.HybridAttempt
import ArcSwapModel.Tie.HybridFallback
import ArcSwapModel.Tie.HybridIntoInner
import ArcSwapModel.Tie.HybridNew
import ArcSwapModel.Tie.FastGetDebt
import ArcSwapModel.Tie.HelpingGetDebt
import ArcSwapModel.Tie.HelpingConfirm
import ArcSwapModel.Tie.HelpingHelp
import ArcSwapModel.Tie.ListNewFast
import ArcSwapModel.Tie.ListNewHelping
import ArcSwapModel.Tie.ListConfirmHelping
import ArcSwapModel.Tie.ListHelp
import ArcSwapModel.Tie.DebtPay
import ArcSwapModel.Tie.DebtPayAll
import ArcSwapModel.Tie.HybridWaitForReaders
import ArcSwapModel.Tie.LibLoad
import ArcSwapModel.Tie.LibLoadFull
import ArcSwapModel.Tie.LibSwap
import ArcSwapModel.Tie.Sites
import ArcSwapModel.Inv.Hist

/-!
# C03 — loads are linearizable (partial: the paths on which the reader itself reads the cell)

A load returns through one of five paths.  On four of them — fast slot confirmed (`A3` equal),
fallback confirmed (`F5` returned the reader's own generation; with or without a concurrent
payer) — the returned value is one **the reader itself read from this very cell during this very
call**; this is proved here for every behaviour of the rest of the system (an adversary rewrites
the shared state before every reader step).  Since a cell holds one address (the model's cell, as
`AtomicPtr`), "read from the cell at an instant of the call" *is* "was the stored value at some
instant between the call's start and its return", never a value of another container, never torn.

The fifth path (a writer handed over a replacement through an envelope) returns what the *helper's*
own load of the same cell returned (`Props/C03` states the protocol facts used: the helper reads
the reader's published cell address and generation before loading, and only the generation-tagged
control word is exchanged); that the helper's call window lies inside the reader's is a global
protocol invariant which is not proved yet — on that path, and for real-time order across threads
and per-thread monotonicity, the check relies on the tie, the trace correspondence and the
linearizability oracle of the harness (`C03_load_window` below is the full statement, kept visible).

After the D5 repair the path "fast slot paid by someone else" no longer returns a value.
-/

namespace C03
open M Consts

/-- the value a reader state carries towards its result -/
def carried : LP → Option Nat
  | .nfDbg p | .probe p _ | .pswap p _ | .a3 p _ => some p
  | .chDbg _ cand | .f4 _ cand | .f5 _ cand | .fokInc cand | .fokPay cand | .fokDec cand => some cand
  | .done p _ => some p
  | _ => none

def isHelped : LP → Bool
  | .fr1 .. | .fr2 .. | .frPay .. | .frDec .. => true
  | _ => false

structure RS where
  l : Locals
  lp : LP
  /-- content of the cell at each step this call has taken (newest first) -/
  seen : List (Option Nat)
  /-- the call went through the hand-over path -/
  helped : Bool

def isDone : LP → Bool
  | .done _ _ => true
  | _ => false

def stepT (cfg : Cfg) (c : Nat) (sb : Shared × Bool) (r : RS) : RS :=
  let x := stepLP cfg c sb.1 r.l sb.2 r.lp
  { l := x.2.1, lp := x.2.2.1, seen := sb.1.cells c :: r.seen, helped := r.helped || isHelped r.lp }

/-- the reader runs; before each of its steps the adversary supplies the whole shared state -/
def runT (cfg : Cfg) (c : Nat) : List (Shared × Bool) → RS → RS
  | [], r => r
  | sb :: rest, r => if isDone r.lp then r else runT cfg c rest (stepT cfg c sb r)

/-- what is carried was read from the cell during this call (or the call was helped) -/
def J (r : RS) : Prop :=
  r.helped = true ∨ isHelped r.lp = true ∨ ∀ v, carried r.lp = some v → some v ∈ r.seen

/-- the adversary keeps the container alive and envelopes holding pointers (clauses of the global
    invariant; the reader's own protocol keeps the thread's node set) -/
def EnvOk (c : Nat) (s : Shared) : Prop :=
  (s.cells c).isSome = true ∧ ∀ j, ∃ r, (s.nodes j).envelope = .ptr r

macro "jnone" : tactic =>
  `(tactic| (refine Or.inr (Or.inr ?_); intro v hv; exact absurd hv (by simp [carried])))
macro "jfresh" : tactic =>
  `(tactic| (refine Or.inr (Or.inr ?_); intro v hv; simp only [carried, Option.some.injEq] at hv; subst hv;
             exact List.mem_cons_self ..))

theorem J_step (cfg : Cfg) (c : Nat) (sb : Shared × Bool) (r : RS) (hj : J r) (henv : EnvOk c sb.1)
    (hn : r.l.node.isSome = true ∨ r.lp = .start ∨ ∃ ng, r.lp = .get ng) :
    J (stepT cfg c sb r) := by
  obtain ⟨s, b⟩ := sb
  obtain ⟨hc, he⟩ := henv
  obtain ⟨q, hq⟩ := Option.isSome_iff_exists.mp hc
  simp only at hq he
  rcases hj with hh | hh | hcar
  · exact Or.inl (by simp [stepT, hh])
  · exact Or.inl (by simp [stepT, hh])
  · obtain ⟨l, lp, seen, helped⟩ := r
    simp only at hcar hn
    have keep : ∀ lp' : LP, carried lp' = carried lp → ∀ l' h', J ⟨l', lp', some q :: seen, h'⟩ := by
      intro lp' hc' l' h'
      refine Or.inr (Or.inr ?_)
      intro v hv; rw [hc'] at hv; exact List.mem_cons_of_mem _ (hcar v hv)
    cases lp with
    | start =>
      simp only [stepT, stepLP, hq]
      cases l.node with
      | none => jnone
      | some n => simp only; split <;> jnone
    | get ng =>
      simp only [stepT, stepLP, hq]
      split
      · split <;> jnone
      · jnone
    | a1 => simp only [stepT, stepLP, hq]; jfresh
    | nfDbg p =>
      have hn' : l.node.isSome = true := by
        rcases hn with h | h | ⟨ng, h⟩
        · exact h
        · cases h
        · cases h
      obtain ⟨n, hn''⟩ := Option.isSome_iff_exists.mp hn'
      simp only [stepT, stepLP, hq, hn'']
      (apply keep; rfl)
    | probe p i =>
      simp only [stepT, stepLP, hq]
      split
      · (apply keep; rfl)
      · split
        · (apply keep; rfl)
        · jnone
    | pswap p idx => simp only [stepT, stepLP, hq]; (apply keep; rfl)
    | a3 p idx =>
      simp only [stepT, stepLP, hq]
      split
      · (apply keep; rfl)
      · jnone
    | a4 p idx =>
      simp only [stepT, stepLP, hq]
      split
      · jnone
      · split <;> jnone
    | a4dec p => simp only [stepT, stepLP, hq]; jnone
    | nhDbg =>
      have hn' : l.node.isSome = true := by
        rcases hn with h | h | ⟨ng, h⟩
        · exact h
        · cases h
        · cases h
      obtain ⟨n, hn''⟩ := Option.isSome_iff_exists.mp hn'
      simp only [stepT, stepLP, hq, hn'']
      split <;> jnone
    | cool cd =>
      simp only [stepT, stepLP, hq]
      split <;> jnone
    | reget ng =>
      simp only [stepT, stepLP, hq]
      split <;> jnone
    | f1 => simp only [stepT, stepLP, hq]; jnone
    | f2 g => simp only [stepT, stepLP, hq]; jnone
    | f3 g => simp only [stepT, stepLP, hq]; jfresh
    | chDbg g cand =>
      have hn' : l.node.isSome = true := by
        rcases hn with h | h | ⟨ng, h⟩
        · exact h
        · cases h
        · cases h
      obtain ⟨n, hn''⟩ := Option.isSome_iff_exists.mp hn'
      simp only [stepT, stepLP, hq, hn'']
      (apply keep; rfl)
    | f4 g cand => simp only [stepT, stepLP, hq]; (apply keep; rfl)
    | f5 g cand =>
      simp only [stepT, stepLP, hq]
      split
      · split <;> (apply keep; rfl)
      · split
        · exact Or.inr (Or.inl rfl)
        · (apply keep; rfl)
    | fokInc cand => simp only [stepT, stepLP, hq]; (apply keep; rfl)
    | fokPay cand =>
      simp only [stepT, stepLP, hq]
      split
      · (apply keep; rfl)
      · split <;> (apply keep; rfl)
    | fokDec cand => simp only [stepT, stepLP, hq]; (apply keep; rfl)
    | fr1 cand j => exact Or.inl (by simp [stepT, isHelped])
    | fr2 cand j r => exact Or.inl (by simp [stepT, isHelped])
    | frPay cand r => exact Or.inl (by simp [stepT, isHelped])
    | frDec cand r => exact Or.inl (by simp [stepT, isHelped])
    | done p d => simp only [stepT, stepLP, hq]; (apply keep; rfl)

/-- the thread's node, once set by `LocalNode::with`, stays set for the whole load (also across
    the move to another node at the wrap) -/
theorem node_some_step (cfg : Cfg) (c : Nat) (s : Shared) (l : Locals) (b : Bool) (lp : LP)
    (h : l.node.isSome = true) : (stepLP cfg c s l b lp).2.1.node.isSome = true := by
  cases lp <;> simp only [stepLP] <;> (try exact h) <;>
    (repeat' split) <;> (try exact h) <;> (try rfl) <;> simp_all

def NS (r : RS) : Prop := r.l.node.isSome = true ∨ r.lp = .start ∨ ∃ ng, r.lp = .get ng

theorem NS_step (cfg : Cfg) (c : Nat) (sb : Shared × Bool) (r : RS) (h : NS r) : NS (stepT cfg c sb r) := by
  obtain ⟨l, lp, seen, helped⟩ := r
  rcases h with h | h | ⟨ng, h⟩
  · exact Or.inl (node_some_step cfg c sb.1 l sb.2 lp h)
  · simp only at h; subst h
    simp only [stepT, stepLP, NS]
    cases hl : l.node with
    | none => exact Or.inr (Or.inr ⟨_, rfl⟩)
    | some n => left; simp [hl]
  · simp only at h; subst h
    simp only [stepT, stepLP, NS]
    split
    · left; rfl
    · right; right; exact ⟨_, rfl⟩

theorem run_inv (cfg : Cfg) (c : Nat) : ∀ (adv : List (Shared × Bool)) (r : RS),
    (∀ sb ∈ adv, EnvOk c sb.1) → J r → NS r → J (runT cfg c adv r) ∧ NS (runT cfg c adv r) := by
  intro adv
  induction adv with
  | nil => intro r _ hj hn; exact ⟨hj, hn⟩
  | cons sb rest ih =>
    intro r hadv hj hn
    simp only [runT]
    split
    · exact ⟨hj, hn⟩
    · exact ih _ (fun x hx => hadv x (List.mem_cons_of_mem _ hx))
        (J_step cfg c sb r hj (hadv sb (List.mem_cons_self ..)) hn) (NS_step cfg c sb r hn)

/-- **C03 (direct paths)**: whatever the rest of the system does, a load that was not handed a
    replacement returns a value that the reader itself read from this very cell at one of the steps
    of this very call. -/
theorem C03_direct_paths (cfg : Cfg) (c : Nat) (adv : List (Shared × Bool)) (l : Locals)
    (hadv : ∀ sb ∈ adv, EnvOk c sb.1) (p : Nat) (d : Option (Nat × Nat))
    (hdone : (runT cfg c adv ⟨l, .start, [], false⟩).lp = .done p d)
    (hnot : (runT cfg c adv ⟨l, .start, [], false⟩).helped = false) :
    some p ∈ (runT cfg c adv ⟨l, .start, [], false⟩).seen := by
  have h0 : J ⟨l, .start, [], false⟩ := Or.inr (Or.inr (fun v hv => by simp [carried] at hv))
  have := (run_inv cfg c adv ⟨l, .start, [], false⟩ hadv h0 (Or.inr (Or.inl rfl))).1
  rcases this with h | h | h
  · rw [hnot] at h; cases h
  · rw [hdone] at h; simp [isHelped] at h
  · exact h p (by rw [hdone]; rfl)

/-!
The full statement, not yet proved (it needs the global protocol invariant of the helping path):

    theorem C03_load_window : Reachable st → a `load` by `t` on `c`, invoked when `(hist c).length = i₀+1`
      and returning object `i`, satisfies ∃ k, i₀ ≤ k ∧ (hist c)[k] = i      -- for *every* path
    corollaries: never a foreign value, real-time order, per-thread monotonicity.

`C03_load_window_partial` below is that statement for the paths on which the reader itself reads
the cell; what is missing for the fifth path is "the window of the helper's load lies inside the
helped reader's call".
-/

theorem C03_load_window_partial (cfg : Cfg) (c : Nat) (adv : List (Shared × Bool)) (l : Locals)
    (hadv : ∀ sb ∈ adv, EnvOk c sb.1) (p : Nat) (d : Option (Nat × Nat))
    (hdone : (runT cfg c adv ⟨l, .start, [], false⟩).lp = .done p d)
    (hnot : (runT cfg c adv ⟨l, .start, [], false⟩).helped = false) :
    some p ∈ (runT cfg c adv ⟨l, .start, [], false⟩).seen :=
  C03_direct_paths cfg c adv l hadv p d hdone hnot

/-- non-vacuity: a fast-path load against a quiet environment returns what it read -/
example : ∃ s : Shared, EnvOk 0 s := by
  refine ⟨{ cells := fun _ => some 5, nodes := fun _ => { envelope := .ptr 0 } }, rfl, fun _ => ⟨0, rfl⟩⟩

/-- **what the cell holds is the latest write (partial)**: along every execution that satisfies the
    ledger's assumptions and has raised no fault, the pointer in a container denotes the object
    whose identity heads the container's history.  With `C03_load_window_partial` (a load returns a
    pointer it read from this very cell during this very call): the value a load returns was the
    stored value at the instant of that read; and since the history only grows at the front
    (`C04_history_grows_by_writes`), a load that starts after a write has returned reads that write
    or a later one. -/
theorem C03_cell_holds_latest_write_partial (K N T : Nat) (hK : 0 < K) (cfg : M.Cfg)
    (progs : Nat → List (String × M.Op)) (sched : List (Nat × Bool))
    (he : M.EnvRun0 K N T (M.State.initial cfg progs) sched)
    (hf : (M.run (M.State.initial cfg progs) sched).sh.fault = none) (c p : Nat)
    (hc : (M.run (M.State.initial cfg progs) sched).sh.cells c = some p) :
    ∃ rest, (M.run (M.State.initial cfg progs) sched).sh.hist c =
      (M.run (M.State.initial cfg progs) sched).sh.idOf p :: rest :=
  (M.cellHist_run K N T hK cfg progs sched he hf c p hc).2

end C03
