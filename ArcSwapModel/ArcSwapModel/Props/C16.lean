import Mathlib.Tactic.SplitIfs
import ArcSwapModel.CacheM
import ArcSwapModel.Tie.CacheNew
import ArcSwapModel.Tie.CacheLoad
import ArcSwapModel.Tie.CacheLoadNoRevalidate
import ArcSwapModel.Tie.CacheRevalidate
import ArcSwapModel.Tie.CacheMap
import ArcSwapModel.Tie.CacheMapCacheLoad
import ArcSwapModel.Tie.CacheAccessLoad
import ArcSwapModel.Tie.LibLoadFull
import ArcSwapModel.Tie.RwLoad
import ArcSwapModel.Tie.HybridLoad

/-!
# C16 — Cache returns a current-or-newer value and retains at most one old value

Over `CacheM`: one cache, an atomic cell with address reuse, and an arbitrary environment (stores
of new and of old values — A-B-A —, other owners coming and going: other caches, clones, mapped
caches), any interleaving of environment events with the two halves of `Cache::load`.
-/

namespace C16
open CacheM

/-- indicator of `a = b` -/
def ind (a b : Nat) : Nat := if a = b then 1 else 0

structure Inv (s : State) : Prop where
  /-- exact ownership: the cell, the cache, the environment — nothing else -/
  acct : ∀ i, s.owners i = ind s.cur i + ind s.cached i + s.others i
  /-- live objects have distinct addresses -/
  distinct : ∀ i j, i < s.n → j < s.n → 0 < s.owners i → 0 < s.owners j → s.addr i = s.addr j → i = j
  curLt : s.cur < s.n
  cachedLt : s.cached < s.n
  othersLt : ∀ i, s.n ≤ i → s.others i = 0
  headCur : s.hist.head? = some s.cur
  lastLe : 1 ≤ s.lastIdx ∧ s.lastIdx ≤ s.hist.length
  /-- the cached value was the current one when the history had length `lastIdx` -/
  lastIs : atLen s.hist s.lastIdx = some s.cached
  startLe : s.callStart ≤ s.hist.length
  /-- once the pointers compared equal, the returned value is from within the call -/
  sameFresh : s.pending = some false → s.callStart ≤ s.lastIdx

theorem atLen_cons (h : List Nat) (x k : Nat) (_hk1 : 1 ≤ k) (hk : k ≤ h.length) :
    atLen (x :: h) k = atLen h k := by
  unfold atLen
  simp only [List.length_cons]
  have : h.length + 1 - k = (h.length - k) + 1 := by omega
  rw [this, List.getElem?_cons_succ]

theorem atLen_full (h : List Nat) (x : Nat) : atLen (x :: h) (x :: h).length = some x := by
  simp [atLen]

theorem inv_init (a0 : Nat) : Inv (init a0) := by
  refine ⟨?_, ?_, by simp [init], by simp [init], ?_, by simp [init], by simp [init], by simp [init, atLen],
    by simp [init], by simp [init]⟩
  · intro i; show (if i = 0 then 2 else 0) = ind 0 i + ind 0 i + 0; simp only [ind]; split_ifs <;> omega
  · intro i j hi hj _ _ _; simp [init] at hi hj; omega
  · intro i hi; simp [init]

theorem cur_live (s : State) (h : Inv s) : 0 < s.owners s.cur := by
  have := h.acct s.cur; simp only [ind] at this; split_ifs at this <;> omega

theorem cached_live (s : State) (h : Inv s) : 0 < s.owners s.cached := by
  have := h.acct s.cached; simp only [ind] at this; split_ifs at this <;> omega

theorem owners_beyond (s : State) (h : Inv s) (i : Nat) (hi : s.n ≤ i) : s.owners i = 0 := by
  have := h.acct i; have := h.othersLt i hi; have := h.curLt; have := h.cachedLt
  simp only [ind] at *; split_ifs at * <;> omega

/-- moving the cell's reference to a live object `i` keeps live objects live-before -/
theorem install_live (s : State) (h : Inv s) (i x : Nat) (hlive : 0 < s.owners i)
    (hx : 0 < (install s i).owners x) : 0 < s.owners x := by
  have hc := cur_live s h
  simp only [install, upd] at hx
  generalize s.cur = c_ at *
  generalize s.owners = ow_ at *
  split_ifs at hx <;> subst_vars <;> omega

theorem inv_install_core (s : State) (i : Nat) (h : Inv s) (hi : i < s.n)
    (hdist : ∀ a b, a < s.n → b < s.n → 0 < (install s i).owners a → 0 < (install s i).owners b →
      s.addr a = s.addr b → a = b) :
    Inv (install s i) := by
  refine ⟨?_, hdist, hi, h.cachedLt, h.othersLt, by simp [install], ?_, ?_, ?_, ?_⟩
  · intro j
    have hj := h.acct j; have hcur := h.acct s.cur; have hii := h.acct i
    simp only [install] at *
    generalize s.cur = c_ at *
    generalize s.cached = d_ at *
    generalize s.owners = ow_ at *
    generalize s.others = ot_ at *
    simp only [ind, upd] at *
    split_ifs at * <;> subst_vars <;> omega
  · have := h.lastLe; simp only [install, List.length_cons]; omega
  · have := h.lastLe
    simp only [install]
    rw [atLen_cons _ _ _ this.1 this.2]; exact h.lastIs
  · have := h.startLe; simp only [install, List.length_cons]; omega
  · exact h.sameFresh

theorem inv_install (s : State) (i : Nat) (h : Inv s) (hi : i < s.n) (hlive : 0 < s.owners i) :
    Inv (install s i) :=
  inv_install_core s i h hi fun a b ha hb hoa hob hab =>
    h.distinct a b ha hb (install_live s h i a hlive hoa) (install_live s h i b hlive hob) hab

/-- allocation of a fresh object (not yet owned by anyone) at a free address -/
theorem inv_alloc (s : State) (a : Nat) (h : Inv s) (hfree : addrFree s a) :
    Inv { s with n := s.n + 1, addr := upd s.addr s.n a, owners := upd s.owners s.n 0 } := by
  have hown_n := owners_beyond s h s.n (Nat.le_refl _)
  refine ⟨?_, ?_, by show s.cur < s.n + 1; have := h.curLt; omega,
    by show s.cached < s.n + 1; have := h.cachedLt; omega, ?_, h.headCur, h.lastLe, h.lastIs, h.startLe, h.sameFresh⟩
  · intro i
    show upd s.owners s.n 0 i = ind s.cur i + ind s.cached i + s.others i
    by_cases hi : i = s.n
    · subst hi; rw [upd_same]; have := h.acct s.n; omega
    · rw [upd_other _ _ _ _ hi]; exact h.acct i
  · intro i j hi hj hoi hoj hij
    show i = j
    have hi' : i < s.n + 1 := hi
    have hj' : j < s.n + 1 := hj
    have hoi' : 0 < upd s.owners s.n 0 i := hoi
    have hoj' : 0 < upd s.owners s.n 0 j := hoj
    have hij' : upd s.addr s.n a i = upd s.addr s.n a j := hij
    by_cases h1 : i = s.n
    · subst h1; rw [upd_same] at hoi'; omega
    · by_cases h2 : j = s.n
      · subst h2; rw [upd_same] at hoj'; omega
      · rw [upd_other _ _ _ _ h1] at hoi' hij'
        rw [upd_other _ _ _ _ h2] at hoj' hij'
        exact h.distinct i j (by omega) (by omega) hoi' hoj' hij'
  · intro i hi; exact h.othersLt i (by have : s.n + 1 ≤ i := hi; omega)

/-- the invariant is preserved by every step -/
theorem inv_step {s s' : State} {e : Ev} {r : Option Nat} (h : Inv s) (st : Step s e s' r) : Inv s' := by
  cases st with
  | storeNew a hfree =>
    -- allocate (nobody owns it yet), then install: `install` needs the target live only for
    -- `distinct`, which here follows from the address being free
    let s1 : State := { s with n := s.n + 1, addr := upd s.addr s.n a, owners := upd s.owners s.n 0 }
    have h1 : Inv s1 := inv_alloc s a h hfree
    have hc1 := cur_live s1 h1
    refine inv_install_core s1 s.n h1 (by show s.n < s.n + 1; omega) ?_
    · intro x y hx hy hox hoy hxy
      -- live after the install: either the new object, or live before (with its old address)
      have live : ∀ z, z ≠ s.n → 0 < (install s1 s.n).owners z → 0 < s.owners z ∧ z < s.n ∧ s1.addr z = s.addr z := by
        intro z hz hz'
        have hzl : 0 < s1.owners z := by
          have hne : s1.cur ≠ s.n := by have : s.cur < s.n := h.curLt; show s.cur ≠ s.n; omega
          simp only [install, upd] at hz'
          generalize s1.cur = c_ at *
          generalize s1.owners = ow_ at *
          split_ifs at hz' <;> subst_vars <;> omega
        have hzo : s1.owners z = s.owners z := by show upd s.owners s.n 0 z = _; rw [upd_other _ _ _ _ hz]
        have hza : s1.addr z = s.addr z := by show upd s.addr s.n a z = _; rw [upd_other _ _ _ _ hz]
        refine ⟨by omega, ?_, hza⟩
        by_cases hlt : z < s.n
        · exact hlt
        · have := owners_beyond s h z (by omega); omega
      have hnew : s1.addr s.n = a := by show upd s.addr s.n a s.n = a; rw [upd_same]
      by_cases hx1 : x = s.n
      · by_cases hy1 : y = s.n
        · omega
        · exfalso
          obtain ⟨l1, l2, l3⟩ := live y hy1 hoy
          rw [hx1, hnew, l3] at hxy
          exact hfree y l2 l1 hxy.symm
      · by_cases hy1 : y = s.n
        · exfalso
          obtain ⟨l1, l2, l3⟩ := live x hx1 hox
          rw [hy1, hnew, l3] at hxy
          exact hfree x l2 l1 hxy
        · obtain ⟨l1, l2, l3⟩ := live x hx1 hox
          obtain ⟨m1, m2, m3⟩ := live y hy1 hoy
          rw [l3, m3] at hxy
          exact h.distinct x y l2 m2 l1 m1 hxy
  | storeOld i hi ho =>
    have : 0 < s.owners i := by have := h.acct i; omega
    exact inv_install s i h hi this
  | envInc i hi ho =>
    refine ⟨?_, ?_, h.curLt, h.cachedLt, ?_, h.headCur, h.lastLe, h.lastIs, h.startLe, h.sameFresh⟩
    · intro j
      show upd s.owners i (s.owners i + 1) j = ind s.cur j + ind s.cached j + upd s.others i (s.others i + 1) j
      by_cases hj : j = i
      · subst hj; rw [upd_same, upd_same]; have := h.acct j; omega
      · rw [upd_other _ _ _ _ hj, upd_other _ _ _ _ hj]; exact h.acct j
    · intro a b ha hb hoa hob hab
      have key : ∀ x, 0 < upd s.owners i (s.owners i + 1) x → 0 < s.owners x := by
        intro x hx; by_cases hx1 : x = i
        · subst hx1; exact ho
        · rwa [upd_other _ _ _ _ hx1] at hx
      exact h.distinct a b ha hb (key a hoa) (key b hob) hab
    · intro j hj
      have hj' : s.n ≤ j := hj
      have : j ≠ i := by omega
      show upd s.others i (s.others i + 1) j = 0
      rw [upd_other _ _ _ _ this]; exact h.othersLt j hj'
  | envDec i hi ho =>
    refine ⟨?_, ?_, h.curLt, h.cachedLt, ?_, h.headCur, h.lastLe, h.lastIs, h.startLe, h.sameFresh⟩
    · intro j
      show upd s.owners i (s.owners i - 1) j = ind s.cur j + ind s.cached j + upd s.others i (s.others i - 1) j
      by_cases hj : j = i
      · subst hj; rw [upd_same, upd_same]; have := h.acct j; omega
      · rw [upd_other _ _ _ _ hj, upd_other _ _ _ _ hj]; exact h.acct j
    · intro a b ha hb hoa hob hab
      have key : ∀ x, 0 < upd s.owners i (s.owners i - 1) x → 0 < s.owners x := by
        intro x hx; by_cases hx1 : x = i
        · subst hx1; rw [upd_same] at hx; omega
        · rwa [upd_other _ _ _ _ hx1] at hx
      exact h.distinct a b ha hb (key a hoa) (key b hob) hab
    · intro j hj
      have hj' : s.n ≤ j := hj
      have : j ≠ i := by omega
      show upd s.others i (s.others i - 1) j = 0
      rw [upd_other _ _ _ _ this]; exact h.othersLt j hj'
  | peekSame hp haddr =>
    -- equal addresses of two live objects: the cached object *is* the current one
    have heq : s.cached = s.cur := h.distinct _ _ h.cachedLt h.curLt (cached_live s h) (cur_live s h) haddr
    have hne : s.hist ≠ [] := by
      intro h0; have := h.headCur; simp [h0] at this
    refine ⟨h.acct, h.distinct, h.curLt, h.cachedLt, h.othersLt, h.headCur, ?_, ?_, Nat.le_refl _, fun _ => Nat.le_refl _⟩
    · have : 0 < s.hist.length := List.length_pos_iff.mpr hne
      exact ⟨this, Nat.le_refl _⟩
    · show atLen s.hist s.hist.length = some s.cached
      cases hh : s.hist with
      | nil => exact absurd hh hne
      | cons x t =>
        have := h.headCur; rw [hh] at this; simp at this
        rw [atLen_full, heq, this]
  | peekDiff hp haddr =>
    exact ⟨h.acct, h.distinct, h.curLt, h.cachedLt, h.othersLt, h.headCur, h.lastLe, h.lastIs, Nat.le_refl _,
      fun hh => by simp at hh⟩
  | finishSame hp =>
    exact ⟨h.acct, h.distinct, h.curLt, h.cachedLt, h.othersLt, h.headCur, h.lastLe, h.lastIs, h.startLe,
      fun hh => by simp at hh⟩
  | finishReload hp =>
    have hne : s.hist ≠ [] := by
      intro h0; have := h.headCur; simp [h0] at this
    have hul := cur_live s h
    have hcl := cached_live s h
    refine ⟨?_, ?_, h.curLt, h.curLt, h.othersLt, h.headCur, ?_, ?_, h.startLe, fun hh => by simp at hh⟩
    · intro j
      have hj := h.acct j; have hcur := h.acct s.cur; have hca := h.acct s.cached
      show upd (upd s.owners s.cur (s.owners s.cur + 1)) s.cached
          (upd s.owners s.cur (s.owners s.cur + 1) s.cached - 1) j = ind s.cur j + ind s.cur j + s.others j
      generalize s.cur = c_ at *
      generalize s.cached = d_ at *
      generalize s.owners = ow_ at *
      generalize s.others = ot_ at *
      simp only [ind, upd] at *
      split_ifs at * <;> subst_vars <;> omega
    · intro a b ha hb hoa hob hab
      have key : ∀ x, 0 < upd (upd s.owners s.cur (s.owners s.cur + 1)) s.cached
          (upd s.owners s.cur (s.owners s.cur + 1) s.cached - 1) x → 0 < s.owners x := by
        intro x hx
        simp only [upd] at hx
        generalize s.cur = c_ at *
        generalize s.cached = d_ at *
        generalize s.owners = ow_ at *
        split_ifs at hx <;> subst_vars <;> omega
      exact h.distinct a b ha hb (key a hoa) (key b hob) hab
    · have : 0 < s.hist.length := List.length_pos_iff.mpr hne
      exact ⟨this, Nat.le_refl _⟩
    · show atLen s.hist s.hist.length = some s.cur
      cases hh : s.hist with
      | nil => exact absurd hh hne
      | cons x t =>
        have := h.headCur; rw [hh] at this; simp at this
        rw [atLen_full, this]

theorem inv_reachable {a0 : Nat} {s : State} (h : Reachable a0 s) : Inv s := by
  induction h with
  | init => exact inv_init a0
  | step _ st ih => exact inv_step ih st

/-! ## The property -/

theorem atLen_mem (h : List Nat) (k x : Nat) (hx : atLen h k = some x) : x ∈ h := by
  unfold atLen at hx; exact List.mem_of_getElem? hx

/-- **Never a value that was not stored; current-or-newer than the previous one; fresh.**
    The value a `Cache::load` returns was the cell's content at the instant the history had length
    `lastIdx'` — an instant inside this call (`callStart ≤ lastIdx'`: every store that completed
    before the call is at or before it), and not before the instant of the value returned by the
    previous load (`lastIdx ≤ lastIdx'`). -/
theorem C16_load {a0 : Nat} {s s' : State} {r : Nat} (hr : Reachable a0 s)
    (st : Step s .finish s' (some r)) :
    r ∈ s'.hist ∧ atLen s'.hist s'.lastIdx = some r ∧ s.lastIdx ≤ s'.lastIdx ∧ s.callStart ≤ s'.lastIdx := by
  have h := inv_reachable hr
  have h' := inv_step h st
  cases st with
  | finishSame hp =>
    exact ⟨atLen_mem _ _ _ h.lastIs, h.lastIs, Nat.le_refl _, h.sameFresh hp⟩
  | finishReload hp =>
    have := h'.lastIs
    exact ⟨atLen_mem _ _ _ this, this, h.lastLe.2, h.startLe⟩

/-- the instant of the last returned value never moves backwards, whatever happens -/
theorem C16_monotone {a0 : Nat} {s s' : State} {e : Ev} {r : Option Nat} (hr : Reachable a0 s)
    (st : Step s e s' r) : s.lastIdx ≤ s'.lastIdx := by
  have h := inv_reachable hr
  cases st <;> first
    | exact Nat.le_refl _
    | exact h.lastLe.2

/-- **Exactly one reference**, to the value it last returned; the previous one is released in the
    load that observes the change (the accounting holds in *every* reachable state, in particular
    right after `finish`). -/
theorem C16_one_ref {a0 : Nat} {s : State} (hr : Reachable a0 s) (i : Nat) :
    s.owners i = ind s.cur i + ind s.cached i + s.others i :=
  (inv_reachable hr).acct i

/-- A-B-A and address reuse: when the peeked address equals the cached one, the cached object is
    the very object the cell holds (not another object at a recycled address). -/
theorem C16_same_address_same_object {a0 : Nat} {s : State} (hr : Reachable a0 s)
    (h : s.addr s.cached = s.addr s.cur) : s.cached = s.cur := by
  have hi := inv_reachable hr
  have hcl : 0 < s.owners s.cached := by have := hi.acct s.cached; simp [ind] at this; omega
  have hul : 0 < s.owners s.cur := by have := hi.acct s.cur; simp [ind] at this; omega
  exact hi.distinct _ _ hi.cachedLt hi.curLt hcl hul h

/-- `MapCache::load` is `(self.projection)(self.inner.load())`: the projection of exactly that value -/
def mapCacheLoad {α β : Type} (proj : α → β) (inner : α) : β := proj inner
theorem C16_mapped {α β : Type} (proj : α → β) (v : α) : mapCacheLoad proj v = proj v := rfl

/-- non-vacuity: a history with a store is reachable -/
example : ∃ s, Reachable 7 s ∧ s.hist.length = 2 := by
  refine ⟨_, Reachable.step Reachable.init (Step.storeNew _ 9 ?_), ?_⟩
  · intro i hi _; have : i = 0 := by simp [init] at hi; omega
    subst this; simp [init]
  · simp [install, init]

end C16
