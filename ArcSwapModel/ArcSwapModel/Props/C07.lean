import ArcSwapModel.WM
import ArcSwapModel.Tie.Sites
import ArcSwapModel.Tie.HybridAttempt
import ArcSwapModel.Tie.HybridFallback
import ArcSwapModel.Tie.HybridCas
import ArcSwapModel.Tie.HybridDrop
import ArcSwapModel.Tie.HelpingConfirm
import ArcSwapModel.Tie.HelpingHelp
import ArcSwapModel.Tie.HelpingGetDebt
import ArcSwapModel.Tie.FastGetDebt
import ArcSwapModel.Tie.DebtPay
import ArcSwapModel.Tie.DebtPayAll
import ArcSwapModel.Tie.LibSwap
import ArcSwapModel.Tie.LibStore
import ArcSwapModel.Tie.RwLoad
import ArcSwapModel.Tie.RwCas

/-!
# C07 — publication: what was written before a store is visible, race-free, to whoever obtains the value

Stated over `WM` (release/acquire views with stale reads): every theorem holds for **whichever**
message each access happens to read (any stale one the thread may still read), for any thread
views and any number of threads — the environment is universally quantified.  The orderings are
parameters of the general theorems (`…_general`) and are then instantiated with the orderings
`rs2lean` read from the current source at exactly the call sites concerned (`…_src`): weakening
one of the orderings the argument needs makes the corresponding `decide` fail.

Event numbering: the initialisation of the pointee at address `p` is event `p`; the accesses a
thread made through a handle are whatever events its view contains.

Paths a pointer travels (the property's list):
* direct load, fast path — `fast_path_publication`;
* confirmed debt on the fallback path — `fallback_publication`;
* helper hand-over envelope — `helper_publishes` (writer side), `handover_publication` (reader side:
  it cannot read an older content of the envelope, and knows the replacement's initialisation);
* returned previous value (`swap`, successful `compare_and_swap`) — `previous_value_publication`;
* every message a writer leaves in a container is well-published — `store_publishes`;
* lock-based strategy — `rw_publication`;
* towards destruction: what a reader did through a borrowed pointer is released by the pay-back
  and learnt by any writer whose walk reads that slot afterwards (through any chain of later
  read-modify-writes), `walk_learns_reader_accesses`; the reference count hand-off itself is the
  `RefCnt` implementation's (Arc: Release decrement, Acquire before destruction) —
  `count_chain` shows that protocol carries every releaser's view to the destroyer.
-/

namespace C07
open WM Extract

/-- a message in a container cell is well-published: acquiring it gives the initialisation of the
    pointee it names -/
def CellOK (m : Msg) : Prop := m.val ≠ 0 → m.view.ev m.val

/-! ## Writers: every value put into a container is published -/

/-- `swap` / `store` / successful `compare_and_swap`: a read-modify-write with a release ordering
    by a thread that knows the new value's initialisation leaves a well-published message -/
theorem store_publishes_general (o : Ord) (V : View) (m : Msg) (new : Nat)
    (hk : new ≠ 0 → V.ev new) (hr : canRead V m) (h : isRel o = true) :
    CellOK (rmwMsg o V m new) := by
  intro hne
  exact (rmw_release_carries o V m new h hr).1 new (hk hne)

/-- the value a read-modify-write takes out (returned previous value) is known to the caller if
    the ordering acquires -/
theorem previous_value_general (o : Ord) (V : View) (m : Msg) (hm : CellOK m) (h : isAcq o = true)
    (hne : m.val ≠ 0) : (afterRead o V m).ev m.val :=
  (acquire_learns o V m h).1 _ (hm hne)

/-! ## Readers -/

/-- the fast path of `load`: first read (`o0`), publication of the debt (a swap on the thread's
    own slot, `oS`), confirming read (`o1`); succeeds iff both reads gave the same pointer -/
def fastPath (o0 oS o1 : Ord) (V : View) (m0 ms m1 : Msg) : Option (Nat × View) :=
  let V0 := afterRead o0 V m0
  let V1 := afterRead oS V0 ms
  let V2 := afterRead o1 V1 m1
  if m1.val = m0.val then some (m0.val, V2) else none

/-- whatever the first read returned and however stale either read is: if the confirming read
    acquires, the pointer the fast path hands out is known to the reader (this is why the second
    read, not the first, carries the ordering — address reuse between the two is harmless) -/
theorem fast_path_general (o0 oS o1 : Ord) (V : View) (m0 ms m1 : Msg) (p : Nat) (V' : View)
    (hm1 : CellOK m1) (h : isAcq o1 = true) (hres : fastPath o0 oS o1 V m0 ms m1 = some (p, V')) (hp : p ≠ 0) :
    V'.ev p := by
  unfold fastPath at hres
  by_cases heq : m1.val = m0.val
  · simp only [heq, ↓reduceIte, Option.some.injEq, Prod.mk.injEq] at hres
    obtain ⟨rfl, rfl⟩ := hres
    have := (acquire_learns o1 (afterRead oS (afterRead o0 V m0) ms) m1 h).1 m1.val (hm1 (heq ▸ hp))
    rw [heq] at this; exact this
  · simp [heq] at hres

/-- the fallback path when nobody helped: candidate read (`oC`), debt published in the helping slot
    (`oS`), control word swapped back (`oW`) and found to be the reader's own generation: the
    candidate is what the load returns -/
def fallbackOwn (oC oS oW : Ord) (V : View) (mc ms mw : Msg) : Nat × View :=
  (mc.val, afterRead oW (afterRead oS (afterRead oC V mc) ms) mw)

/-- the candidate read itself must acquire: nothing else on this path synchronises with whoever
    stored the candidate (the two swaps are on the reader's own node) -/
theorem fallback_general (oC oS oW : Ord) (V : View) (mc ms mw : Msg) (hmc : CellOK mc)
    (h : isAcq oC = true) (hp : mc.val ≠ 0) : (fallbackOwn oC oS oW V mc ms mw).2.ev mc.val := by
  unfold fallbackOwn
  have h1 := (acquire_learns oC V mc h).1 _ (hmc hp)
  exact (afterRead_mono oW _ mw).1 _ ((afterRead_mono oS _ ms).1 _ h1)

/-! ## Hand-over through the envelope -/

/-- what the control word's message promises when it names envelope `e`: the writer's store of the
    replacement `r` into `e` (at timestamp `te`) and the initialisation of `r` are released with it -/
def CtlOK (mw : Msg) (e te r : Nat) : Prop := te ≤ mw.view.ts e ∧ (r ≠ 0 → mw.view.ev r)

/-- writer side: it knows `r` (it loaded it itself), writes it into its envelope at `te`, then
    compare-exchanges the reader's control word (reading the reader's generation message `mg`) to
    the envelope's address with a release ordering -/
theorem helper_publishes_general (oCs : Ord) (Vw : View) (e te r tag : Nat) (mg : Msg)
    (hk : r ≠ 0 → Vw.ev r) (hr : canRead ⟨Vw.ev, fun l => if l = e then te else Vw.ts l⟩ mg)
    (h : isRel oCs = true) :
    CtlOK (rmwMsg oCs ⟨Vw.ev, fun l => if l = e then te else Vw.ts l⟩ mg tag) e te r := by
  have hc := rmw_release_carries oCs ⟨Vw.ev, fun l => if l = e then te else Vw.ts l⟩ mg tag h hr
  refine ⟨?_, fun hne => hc.1 r (hk hne)⟩
  have := hc.2 e
  simpa using this

/-- reader side: it swaps the control word (`oW`) and finds an envelope address; then it reads the
    envelope (`oE`).  With an acquiring swap it cannot read a content of the envelope older than
    the writer's store, and it knows the replacement's initialisation — even if the envelope read
    itself were relaxed. -/
theorem handover_general (oW oE : Ord) (V : View) (mw me : Msg) (e te r : Nat)
    (hctl : CtlOK mw e te r) (h : isAcq oW = true) (hloc : me.loc = e)
    (hread : canRead (afterRead oW V mw) me)
    (hlatest : ∀ m' : Msg, m'.loc = e → te ≤ m'.ts → m'.val = r) :
    me.val = r ∧ (r ≠ 0 → (afterRead oE (afterRead oW V mw) me).ev r) := by
  have hle := acquire_learns oW V mw h
  have hts : te ≤ me.ts := by
    have h1 := hle.2 e
    unfold canRead at hread
    rw [hloc] at hread
    exact Nat.le_trans (Nat.le_trans hctl.1 h1) hread
  refine ⟨hlatest me hloc hts, fun hne => ?_⟩
  exact (afterRead_mono oE _ me).1 r (hle.1 r (hctl.2 hne))

/-! ## Towards destruction: accesses through a borrowed pointer -/

/-- `m` is `m0` or follows it through read-modify-writes only (a release sequence) -/
inductive RmwChain (m0 : Msg) : Msg → Prop
  | head : RmwChain m0 m0
  | rmw (o : Ord) (V : View) (m : Msg) (v : Nat) : RmwChain m0 m → RmwChain m0 (rmwMsg o V m v)

theorem chain_carries {m0 m : Msg} (h : RmwChain m0 m) : m0.view.le m.view := by
  induction h with
  | head => exact le_refl _
  | rmw o V m v _ ih => exact le_trans ih (rmw_continues o V m v)

/-- the reader gives the debt back with a releasing compare-exchange (`oP`, reading `ms`); a writer
    whose walk later reads that slot — the reader's message or any later one reached through
    read-modify-writes only (debt slots are only ever swapped or compare-exchanged) — with an
    acquiring ordering (`oR`: success or failure ordering of its compare-exchange) knows
    everything the reader did before giving the debt back -/
theorem walk_learns_general (oP oR : Ord) (Vr Vw : View) (ms mseen : Msg) (none_ : Nat)
    (hrel : isRel oP = true) (hacq : isAcq oR = true) (hr : canRead Vr ms)
    (hchain : RmwChain (rmwMsg oP Vr ms none_) mseen) :
    Vr.le (afterRead oR Vw mseen) :=
  le_trans (rmw_release_carries oP Vr ms none_ hrel hr)
    (le_trans (chain_carries hchain) (acquire_learns oR Vw mseen hacq))

/-- the reference-count protocol (`RefCnt` implementation: Release decrements, Acquire before the
    destructor): whoever acquires a message of the count location learns the view of every thread
    that decremented before with a release -/
theorem count_chain (oD oA : Ord) (Vd Vlast : View) (md mseen : Msg) (v : Nat)
    (hrel : isRel oD = true) (hacq : isAcq oA = true) (hr : canRead Vd md)
    (hchain : RmwChain (rmwMsg oD Vd md v) mseen) :
    Vd.le (afterRead oA Vlast mseen) :=
  le_trans (rmw_release_carries oD Vd md v hrel hr)
    (le_trans (chain_carries hchain) (acquire_learns oA Vlast mseen hacq))

/-! ## Instantiation with the orderings of the current source -/

/-- the `k`-th ordering argument of the `idx`-th atomic call site of a function of the crate -/
def srcOrd (file fn : String) (idx k : Nat) : Ord :=
  match (fnSites file fn)[idx]? with
  | some s => s.ords.getD k .relaxed
  | none => .relaxed

def oSwap := srcOrd "lib.rs" "ArcSwapAny<T,S>::swap" 0 0
def oCasOk := srcOrd "strategy/hybrid.rs" "<HybridStrategy<Cfg> as CaS<T>>::compare_and_swap" 0 0
def oFirst := srcOrd "strategy/hybrid.rs" "HybridProtection<T>::attempt" 0 0
def oConfirm := srcOrd "strategy/hybrid.rs" "HybridProtection<T>::attempt" 1 0
def oFastSlot := srcOrd "debt/fast.rs" "Slots::get_debt" 1 0
def oCandidate := srcOrd "strategy/hybrid.rs" "HybridProtection<T>::fallback" 0 0
def oHelpSlot := srcOrd "debt/helping.rs" "Slots::confirm" 0 0
def oCtlSwap := srcOrd "debt/helping.rs" "Slots::confirm" 1 0
def oEnvLoad := srcOrd "debt/helping.rs" "Slots::confirm" 2 0
def oCtlCas := srcOrd "debt/helping.rs" "Slots::help" 7 0
def oPayOk := srcOrd "debt/mod.rs" "Debt::pay" 0 0
def oPayFail := srcOrd "debt/mod.rs" "Debt::pay" 0 1
def oRwLoad := srcOrd "strategy/rw_lock.rs" "<RwLock<()> as InnerStrategy<T>>::load" 0 0
def oRwCas := srcOrd "strategy/rw_lock.rs" "<RwLock<()> as CaS<T>>::compare_and_swap" 0 0

/-- the orderings the publication argument needs, read off the current source -/
theorem orderings_of_the_source :
    isRel oSwap = true ∧ isAcq oSwap = true ∧ isRel oCasOk = true ∧ isAcq oCasOk = true ∧
    isAcq oConfirm = true ∧ isAcq oCandidate = true ∧ isAcq oCtlSwap = true ∧ isRel oCtlCas = true ∧
    isRel oPayOk = true ∧ isAcq oPayOk = true ∧ isAcq oPayFail = true ∧
    isAcq oRwLoad = true ∧ isRel oRwCas = true ∧ isAcq oRwCas = true := by decide

theorem C07_store_publishes (V : View) (m : Msg) (new : Nat) (hk : new ≠ 0 → V.ev new) (hr : canRead V m) :
    CellOK (rmwMsg oSwap V m new) ∧ CellOK (rmwMsg oCasOk V m new) ∧ CellOK (rmwMsg oRwCas V m new) :=
  ⟨store_publishes_general _ V m new hk hr orderings_of_the_source.1,
   store_publishes_general _ V m new hk hr orderings_of_the_source.2.2.1,
   store_publishes_general _ V m new hk hr orderings_of_the_source.2.2.2.2.2.2.2.2.2.2.2.2.1⟩

theorem C07_previous_value (V : View) (m : Msg) (hm : CellOK m) (hne : m.val ≠ 0) :
    (afterRead oSwap V m).ev m.val ∧ (afterRead oCasOk V m).ev m.val ∧ (afterRead oRwCas V m).ev m.val :=
  ⟨previous_value_general _ V m hm orderings_of_the_source.2.1 hne,
   previous_value_general _ V m hm orderings_of_the_source.2.2.2.1 hne,
   previous_value_general _ V m hm orderings_of_the_source.2.2.2.2.2.2.2.2.2.2.2.2.2 hne⟩

theorem C07_fast_path (V : View) (m0 ms m1 : Msg) (p : Nat) (V' : View) (hm1 : CellOK m1)
    (hres : fastPath oFirst oFastSlot oConfirm V m0 ms m1 = some (p, V')) (hp : p ≠ 0) : V'.ev p :=
  fast_path_general _ _ _ V m0 ms m1 p V' hm1 orderings_of_the_source.2.2.2.2.1 hres hp

theorem C07_fallback (V : View) (mc ms mw : Msg) (hmc : CellOK mc) (hp : mc.val ≠ 0) :
    (fallbackOwn oCandidate oHelpSlot oCtlSwap V mc ms mw).2.ev mc.val :=
  fallback_general _ _ _ V mc ms mw hmc orderings_of_the_source.2.2.2.2.2.1 hp

theorem C07_helper_publishes (Vw : View) (e te r tag : Nat) (mg : Msg) (hk : r ≠ 0 → Vw.ev r)
    (hr : canRead ⟨Vw.ev, fun l => if l = e then te else Vw.ts l⟩ mg) :
    CtlOK (rmwMsg oCtlCas ⟨Vw.ev, fun l => if l = e then te else Vw.ts l⟩ mg tag) e te r :=
  helper_publishes_general _ Vw e te r tag mg hk hr orderings_of_the_source.2.2.2.2.2.2.2.1

theorem C07_handover (V : View) (mw me : Msg) (e te r : Nat) (hctl : CtlOK mw e te r) (hloc : me.loc = e)
    (hread : canRead (afterRead oCtlSwap V mw) me)
    (hlatest : ∀ m' : Msg, m'.loc = e → te ≤ m'.ts → m'.val = r) :
    me.val = r ∧ (r ≠ 0 → (afterRead oEnvLoad (afterRead oCtlSwap V mw) me).ev r) :=
  handover_general _ _ V mw me e te r hctl orderings_of_the_source.2.2.2.2.2.2.1 hloc hread hlatest

theorem C07_rw_publication (V : View) (m : Msg) (hm : CellOK m) (hne : m.val ≠ 0) :
    (afterRead oRwLoad V m).ev m.val :=
  previous_value_general _ V m hm orderings_of_the_source.2.2.2.2.2.2.2.2.2.2.2.1 hne

/-- a reader's accesses happen-before everything a writer does after its walk read the slot the
    reader had released (success or failure of the writer's compare-exchange alike) -/
theorem C07_walk_learns_reader_accesses (Vr Vw : View) (ms mseen : Msg) (none_ : Nat) (hr : canRead Vr ms)
    (hchain : RmwChain (rmwMsg oPayOk Vr ms none_) mseen) :
    Vr.le (afterRead oPayOk Vw mseen) ∧ Vr.le (afterRead oPayFail Vw mseen) :=
  ⟨walk_learns_general _ _ Vr Vw ms mseen none_ orderings_of_the_source.2.2.2.2.2.2.2.2.1
      orderings_of_the_source.2.2.2.2.2.2.2.2.2.1 hr hchain,
   walk_learns_general _ _ Vr Vw ms mseen none_ orderings_of_the_source.2.2.2.2.2.2.2.2.1
      orderings_of_the_source.2.2.2.2.2.2.2.2.2.2.1 hr hchain⟩

/-- debt slots are only ever swapped or compare-exchanged (never plainly stored to), which is what
    keeps the release sequence of a pay-back unbroken: no `store` among the sites on debt slots -/
theorem debt_slots_never_stored :
    ((fnSites "debt/fast.rs" "Slots::get_debt").all (fun s => s.op != "store")) = true ∧
    ((fnSites "debt/mod.rs" "Debt::pay").all (fun s => s.op != "store")) = true ∧
    (((fnSites "debt/helping.rs" "Slots::confirm").take 1).all (fun s => s.op != "store")) = true := by decide

/-! ## Non-vacuity: the hypotheses are satisfiable and the orderings matter -/

/-- with a relaxed confirming read the conclusion of the fast path fails: a concrete reader that
    knows nothing reads a well-published message twice and still does not know the pointee -/
example : ∃ (V : View) (m : Msg), CellOK m ∧
    fastPath .relaxed .seqCst .relaxed V m ⟨7, 0, 3, View.bot⟩ m = some (m.val, afterRead .relaxed (afterRead .seqCst (afterRead .relaxed V m) ⟨7, 0, 3, View.bot⟩) m)
    ∧ m.val ≠ 0 ∧ ¬ (afterRead .relaxed (afterRead .seqCst (afterRead .relaxed V m) ⟨7, 0, 3, View.bot⟩) m).ev m.val := by
  refine ⟨View.bot, ⟨1, 1, 5, ⟨fun e => e = 5, fun _ => 0⟩⟩, ?_, ?_, by decide, ?_⟩
  · intro _; rfl
  · simp [fastPath]
  · simp [afterRead, isAcq, View.join, View.bot]

end C07
