import ArcSwapModel.M.Frame
import ArcSwapModel.Tie.LibSwap
import ArcSwapModel.Tie.LibStore
import ArcSwapModel.Tie.LibIntoInner
import ArcSwapModel.Tie.LibDrop
import ArcSwapModel.Tie.LibWithStrategy
import ArcSwapModel.Tie.HybridCas
import ArcSwapModel.Tie.HybridWaitForReaders
import ArcSwapModel.Tie.RwWaitForReaders
import ArcSwapModel.Tie.DebtPayAll
import ArcSwapModel.Tie.DebtPay
import ArcSwapModel.Tie.Sites
import ArcSwapModel.Inv.Hist

/-!
# C04 — writes are totally ordered; each replaced value is handed back exactly once
(partial: the order and the value handed back; "exactly once" is the ownership accounting of C02)

In `M` every successful write to a container is **one** step on its cell — the exchange of `swap`
(`lib.rs:swap#0`, `SeqCst`) or the successful `compare_exchange_weak` of `compare_and_swap` — and
each such step extends the ghost history `hist c` by exactly the identity installed.  So `hist c`
*is* the total order of the writes.  Proved here, for every state and every schedule (these are
facts about single steps, in any state):

* `C04_swap_step`: the exchange installs the new value and takes out exactly the value written by
  its immediate predecessor in that order (the previous content of the cell);
* `C04_swap_returns`: that value is what the call returns (`store` drops it instead);
* `C04_only_writes_write`: no other step of any sub-machine (loads, the debt walk, helping, guard
  drops and promotions, the node list) changes any cell or history.

Global (end of the file, `Inv/Hist.lean`): along every execution the container holds the object
whose identity is the head of its history, and the history only grows at the front by the identity
of the value written — so what a `swap` takes out is exactly what its immediate predecessor in the
order of writes put in.  Not one statement yet: every value put into a container comes out exactly
once (it is the accounting of C02: `C02_global_ledger_env`, `C02_at_rest_counts`); that the
returned handle owns a full reference independent of the container is `C01_handle_value_alive`.
-/

namespace C04
open M

/-- the step of `swap`/`store` on the cell -/
theorem C04_swap_step (st : State) (t : Nat) (spur : Bool) (c a out old : Nat) (isStore : Bool)
    (hop : (st.th t).op = .swapSw c a out isStore) (hc : st.sh.cells c = some old) :
    let st' := (microStep st t spur).1
    st'.sh.cells c = some a ∧
    st'.sh.hist c = st.sh.idOf a :: st.sh.hist c ∧
    (st'.th t).op = .swapPay c out old isStore .start ∧
    (∀ c', c' ≠ c → st'.sh.cells c' = st.sh.cells c' ∧ st'.sh.hist c' = st.sh.hist c') := by
  simp only [microStep, hop, hc]
  refine ⟨by simp [Shared.writeCell], by simp [Shared.writeCell], by simp, ?_⟩
  intro c' hne
  simp [Shared.writeCell, upd, hne]

/-- when the debt walk of a `swap` is over, the call returns the value its exchange took out -/
theorem C04_swap_returns (st : State) (t : Nat) (spur : Bool) (c out old : Nat) (pp : PP)
    (hop : (st.th t).op = .swapPay c out old false pp)
    (hdone : (stepPP st.cfg old c st.sh (st.th t).loc spur pp).2.2.1 = .done) :
    let st' := (microStep st t spur).1
    st'.sh.hreg out = some old ∧ (st'.th t).op = .idle := by
  simp only [microStep, hop]
  generalize hx : stepPP st.cfg old c st.sh (st.th t).loc spur pp = x at *
  obtain ⟨s', l', pp', evs⟩ := x
  simp only at hdone
  subst hdone
  simp [upd]

/-- `store` is `drop(swap(..))`: after the walk, the replaced value's reference is released -/
theorem C04_store_drops (st : State) (t : Nat) (spur : Bool) (c out old : Nat) (pp : PP) (hold : old ≠ 0)
    (hop : (st.th t).op = .swapPay c out old true pp)
    (hdone : (stepPP st.cfg old c st.sh (st.th t).loc spur pp).2.2.1 = .done) :
    ((microStep st t spur).1.th t).op = .swapDrop c old := by
  simp only [microStep, hop]
  generalize hx : stepPP st.cfg old c st.sh (st.th t).loc spur pp = x at *
  obtain ⟨s', l', pp', evs⟩ := x
  simp only at hdone
  subst hdone
  simp [hold, upd]

/-- no step of the read path, the debt walk, helping, guard drop/promotion or the node list
    writes any cell or extends any history -/
theorem C04_only_writes_write (cfg : Cfg) (p c : Nat) (s : Shared) (l : Locals) (b : Bool) :
    (∀ lp, (stepLP cfg c s l b lp).1.cells = s.cells ∧ (stepLP cfg c s l b lp).1.hist = s.hist) ∧
    (∀ pp, (stepPP cfg p c s l b pp).1.cells = s.cells ∧ (stepPP cfg p c s l b pp).1.hist = s.hist) ∧
    (∀ gd, (stepGD s gd).1.cells = s.cells ∧ (stepGD s gd).1.hist = s.hist) ∧
    (∀ gi, (stepGI s gi).1.cells = s.cells ∧ (stepGI s gi).1.hist = s.hist) :=
  ⟨stepLP_frame cfg c s l b, stepPP_frame cfg p c s l b, stepGD_frame s, stepGI_frame s⟩

/-- the exchange of `compare_and_swap` is the only other writing step, and it too appends exactly
    the installed identity -/
theorem C04_cas_write (cfg : Cfg) (c cur new : Nat) (s : Shared) (l : Locals) (old : Guard)
    (hc : s.cells c = some cur) :
    let s' := (stepCP cfg c cur new s l false (.cx old)).1
    s'.cells c = some new ∧ s'.hist c = s.idOf new :: s.hist c := by
  simp [stepCP, hc, Shared.writeCell]

example : ∃ st : State, (st.th 0).op = .swapSw 0 5 1 false ∧ st.sh.cells 0 = some 3 :=
  ⟨{ sh := { cells := fun _ => some 3 }, th := fun _ => { op := .swapSw 0 5 1 false } }, rfl, rfl⟩

/-! ## The order of writes -/

/-- **one step and the history**: a step leaves a container and its history alone, or writes it
    (the history grows at the front by the identity of the value written, and the container held
    something before), or creates it, or ends it -/
theorem C04_history_grows_by_writes (st : State) (t : Nat) (b : Bool) (c : Nat) :
    CellStep st.sh (microStep st t b).1.sh c :=
  microStep_cell_hist st t b c

/-- **the container holds the latest write (partial)**: along every execution that satisfies the
    ledger's assumptions and has raised no fault, a container holds the object whose identity is
    the head of its history -/
theorem C04_container_holds_latest_write_partial (K N T : Nat) (hK : 0 < K) (cfg : Cfg)
    (progs : Nat → List (String × Op)) (sched : List (Nat × Bool))
    (he : EnvRun0 K N T (State.initial cfg progs) sched)
    (hf : (run (State.initial cfg progs) sched).sh.fault = none) (c p : Nat)
    (hc : (run (State.initial cfg progs) sched).sh.cells c = some p) :
    ∃ rest, (run (State.initial cfg progs) sched).sh.hist c = (run (State.initial cfg progs) sched).sh.idOf p :: rest :=
  (cellHist_run K N T hK cfg progs sched he hf c p hc).2

/-- **`swap` returns exactly the value written by its immediate predecessor (partial)**: at the
    exchange of a `swap`/`store`, the value taken out is the object whose identity heads the
    history (the last write before this one), and afterwards the history is this write on top of
    it -/
theorem C04_swap_takes_out_predecessor_partial (K N T : Nat) (hK : 0 < K) (cfg : Cfg)
    (progs : Nat → List (String × Op)) (sched : List (Nat × Bool))
    (he : EnvRun0 K N T (State.initial cfg progs) sched)
    (hf : (run (State.initial cfg progs) sched).sh.fault = none)
    (t : Nat) (b : Bool) (c a out old : Nat) (isStore : Bool)
    (hop : ((run (State.initial cfg progs) sched).th t).op = .swapSw c a out isStore)
    (hc : (run (State.initial cfg progs) sched).sh.cells c = some old) :
    ∃ rest, (run (State.initial cfg progs) sched).sh.hist c = (run (State.initial cfg progs) sched).sh.idOf old :: rest ∧
      (microStep (run (State.initial cfg progs) sched) t b).1.sh.hist c =
        (run (State.initial cfg progs) sched).sh.idOf a :: (run (State.initial cfg progs) sched).sh.idOf old :: rest ∧
      ((microStep (run (State.initial cfg progs) sched) t b).1.th t).op = .swapPay c out old isStore .start := by
  obtain ⟨rest, hr⟩ := (cellHist_run K N T hK cfg progs sched he hf c old hc).2
  have h := C04_swap_step _ t b c a out old isStore hop hc
  exact ⟨rest, hr, by rw [h.2.1, hr], h.2.2.1⟩

end C04
