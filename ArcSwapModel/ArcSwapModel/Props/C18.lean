import ArcSwapModel.Props.C06
import ArcSwapModel.Props.C02

/-!
# C18 — panics in user code leave the container consistent
(partial: the rcu closure; destructor panics are checked by fault injection in the harness)

User code runs inside the library at: the `rcu` closure (every attempt), projections (which run
outside any library state: `MapGuard::deref`), and a pointee destructor inside a `dec` the library
performs.  The machine does not model unwinding; what is proved is what unwinding relies on for the
closure: **whenever the closure runs, this `rcu` call has written nothing yet** — in the first
attempt and in every retry after contention — so a panic there, which makes the call unwind (dropping
the guard `cur`, an ordinary guard drop), leaves every cell as other threads made it.
-/

namespace C18
open M

/-- `rcu` is about to call the closure (or is inside it) exactly in the state `attempt` -/
def inClosure : RP → Bool
  | .attempt _ => true
  | _ => false

/-- **A panic in the rcu closure changes nothing**: at every instant at which the closure runs — on
    any attempt, whatever other threads did in between — the call has performed no write to the
    container. -/
theorem C18_rcu_closure_runs_before_any_write (cfg : Cfg) (c : Nat) (adv : List (Shared × Bool)) (l : Locals)
    (h : inClosure (C06.runT cfg c adv ⟨l, .load .start, 0, 0, none, none, none⟩).rp = true) :
    (C06.runT cfg c adv ⟨l, .load .start, 0, 0, none, none, none⟩).wrote = 0 := by
  have hk := C06.KR_run cfg c adv ⟨l, .load .start, 0, 0, none, none, none⟩ (by simp [C06.KR])
  generalize C06.runT cfg c adv ⟨l, .load .start, 0, 0, none, none, none⟩ = R at *
  obtain ⟨l', rp, tries, wrote, before, after, la⟩ := R
  cases rp <;> simp [inClosure] at h
  simpa [C06.KR] using hk

/-- what the unwinding then releases is the guard `cur` — an ordinary guard drop, which gives back
    exactly what the guard held (`C10.drop_exact`, `C10.drop_owned_exact`) — and, on a retry, nothing
    else: the previous attempt's rejected value was already released inside `compare_and_swap`
    (`dropNew`) before it returned. -/
theorem C18_rejected_value_released_before_retry (cfg : Cfg) (c cur new : Nat) (s : Shared) (l : Locals)
    (b : Bool) (old : Guard) (hnew : new ≠ 0) :
    (stepCP cfg c cur new s l b (.dropNew old)).2.2.1 = .done old ∧
    (stepCP cfg c cur new s l b (.dropNew old)).1 = (decObj s new).1 := by
  simp [stepCP]

/-- a pointee destructor can run inside the library only in a step that releases the last
    reference; that step completes the destruction (the object is dead afterwards) whether or not the
    destructor panics — the count is already 0 -/
theorem C18_destruction_is_one_step (s : Shared) (a : Nat) (h : (s.heap a).live = true) (hc : (s.heap a).cnt = 1) :
    ((decObj s a).1.heap a).live = false :=
  (C02.destroyed_in_the_last_dec s a h hc).1

end C18
