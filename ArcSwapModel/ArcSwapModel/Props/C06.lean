import ArcSwapModel.Props.C05
import ArcSwapModel.Tie.LibRcu
import ArcSwapModel.Tie.LibPtrEq
import ArcSwapModel.Tie.LibGuardIntoInner
import ArcSwapModel.Tie.LibLoad
import ArcSwapModel.Inv.RcuVal2

/-!
# C06 — rcu is an atomic read-modify-write (partial: the commit; see the end for what is missing)

`rcu` is the program the source says it is: `cur = load(); loop { new = f(&cur);
prev = compare_and_swap(&*cur, new); if ptr_eq(&*cur, &*prev) { return into_inner(prev) } else
{ cur = prev } }`.  The closure here allocates a fresh value whose content is `content(cur) + 1`.

Call-level theorem against an adversary that rewrites the shared state before every step of the
caller (any interleaving with other rcu/swap/store/cas callers and readers): when `rcu` returns
`res`, the call wrote the cell **exactly once**, at a step at which the cell held `res` — the very
pointer that was passed to the closure in that attempt — and what it installed is the value that
attempt's closure allocated from it.  Every other attempt wrote nothing.
-/

namespace C06
open M

structure RS where
  l : Locals
  rp : RP
  tries : Nat
  wrote : Nat
  before : Option Nat
  after : Option Nat
  /-- the last closure call: (pointer passed to `f`, address of `f`'s result, content of the result) -/
  lastAlloc : Option (Nat × Nat × Nat)

def isDone : RP → Bool
  | .done _ => true
  | _ => false

def writesR (c : Nat) (sb : Shared × Bool) : RP → Bool
  | .cas cur _ cp => C05.writes c cur.ptr sb cp
  | _ => false

def stepT (cfg : Cfg) (c : Nat) (sb : Shared × Bool) (r : RS) : RS :=
  let x := stepRP cfg c sb.1 r.l sb.2 r.tries r.rp
  let la := match r.rp, x.2.2.1 with
    | .attempt cur, .cas _ a _ => some (cur.ptr, a, (if cur.ptr = 0 then 0 else (sb.1.heap cur.ptr).val) + 1)
    | _, _ => r.lastAlloc
  if writesR c sb r.rp then
    { l := x.2.1, rp := x.2.2.1, tries := x.2.2.2.1, wrote := r.wrote + 1, before := sb.1.cells c,
      after := x.1.cells c, lastAlloc := la }
  else
    { l := x.2.1, rp := x.2.2.1, tries := x.2.2.2.1, wrote := r.wrote, before := r.before, after := r.after,
      lastAlloc := la }

def runT (cfg : Cfg) (c : Nat) : List (Shared × Bool) → RS → RS
  | [], r => r
  | sb :: rest, r => if isDone r.rp then r else runT cfg c rest (stepT cfg c sb r)

/-- bookkeeping invariant of one `rcu` call -/
def KR (r : RS) : Prop :=
  match r.rp with
  | .load _ => r.wrote = 0
  | .attempt _ => r.wrote = 0
  | .dropCurLoop _ _ => r.wrote = 0
  | .cas cur a cp =>
    (∃ v, r.lastAlloc = some (cur.ptr, a, v)) ∧
    C05.K cur.ptr a ⟨r.l, cp, r.wrote, r.before, r.after⟩
  | .intoPrev cur prev _ =>
    r.wrote = 1 ∧ prev.ptr = cur.ptr ∧ ∃ a v, r.lastAlloc = some (cur.ptr, a, v) ∧ r.before = some cur.ptr ∧ r.after = some a
  | .dropCur res _ => r.wrote = 1 ∧ ∃ a v, r.lastAlloc = some (res, a, v) ∧ r.before = some res ∧ r.after = some a
  | .done res => r.wrote = 1 ∧ ∃ a v, r.lastAlloc = some (res, a, v) ∧ r.before = some res ∧ r.after = some a

theorem KR_step (cfg : Cfg) (c : Nat) (sb : Shared × Bool) (r : RS) (h : KR r) : KR (stepT cfg c sb r) := by
  obtain ⟨s, b⟩ := sb
  obtain ⟨l, rp, tries, wrote, before, after, la⟩ := r
  cases rp with
  | load ld =>
    simp only [KR] at h
    simp only [stepT, writesR, stepRP, Bool.false_eq_true, ↓reduceIte]
    split <;> simp only [KR] <;> exact h
  | attempt cur =>
    simp only [KR] at h
    simp only [stepT, writesR, stepRP, Bool.false_eq_true, ↓reduceIte, KR, C05.K]
    exact ⟨⟨_, rfl⟩, h⟩
  | cas cur a cp =>
    simp only [KR] at h
    obtain ⟨⟨v, hla⟩, hk⟩ := h
    -- the nested call obeys C05's bookkeeping
    have hk' := C05.K_step cfg c cur.ptr a (s, b) ⟨l, cp, wrote, before, after⟩ hk
    simp only [C05.stepT] at hk'
    simp only [stepT, writesR, stepRP]
    generalize hx : stepCP cfg c cur.ptr a s l b cp = x at *
    obtain ⟨s', l', cp', evs⟩ := x
    by_cases hw : C05.writes c cur.ptr (s, b) cp = true
    · simp only [hw, ↓reduceIte] at hk' ⊢
      cases cp' with
      | done prev =>
        simp only [C05.K] at hk'
        rcases hk' with ⟨h1, h2, h3, h4⟩ | ⟨h1, h2⟩
        · simp only [h2, ↓reduceIte]
          split
          · split <;> simp only [KR] <;> exact ⟨h1, a, v, hla, h3, h4⟩
          · simp only [KR]; exact ⟨h1, h2, a, v, hla, h3, h4⟩
        · omega
      | _ => simp only [KR]; exact ⟨⟨v, hla⟩, hk'⟩
    · have hw' : C05.writes c cur.ptr (s, b) cp = false := by simpa using hw
      simp only [hw', Bool.false_eq_true, ↓reduceIte] at hk' ⊢
      cases cp' with
      | done prev =>
        simp only [C05.K] at hk'
        rcases hk' with ⟨h1, h2, h3, h4⟩ | ⟨h1, h2⟩
        · simp only [h2, ↓reduceIte]
          split
          · split <;> simp only [KR] <;> exact ⟨h1, a, v, hla, h3, h4⟩
          · simp only [KR]; exact ⟨h1, h2, a, v, hla, h3, h4⟩
        · simp only [h2, ↓reduceIte]
          split <;> simp only [KR] <;> exact h1
      | _ => simp only [KR]; exact ⟨⟨v, hla⟩, hk'⟩
  | intoPrev cur prev gi =>
    simp only [KR] at h
    obtain ⟨h1, h2, a, v, h3, h4, h5⟩ := h
    simp only [stepT, writesR, stepRP, Bool.false_eq_true, ↓reduceIte]
    split
    · simp only; split <;> simp only [KR] <;> exact ⟨h1, a, v, by rw [h3, h2], by rw [h4, h2], h5⟩
    · simp only [KR]; exact ⟨h1, h2, a, v, h3, h4, h5⟩
  | dropCur res gd =>
    simp only [KR] at h
    simp only [stepT, writesR, stepRP, Bool.false_eq_true, ↓reduceIte]
    split <;> simp only [KR] <;> exact h
  | dropCurLoop prev gd =>
    simp only [KR] at h
    simp only [stepT, writesR, stepRP, Bool.false_eq_true, ↓reduceIte]
    split <;> simp only [KR] <;> exact h
  | done res =>
    simp only [stepT, writesR, stepRP, Bool.false_eq_true, ↓reduceIte]
    exact h

theorem KR_run (cfg : Cfg) (c : Nat) : ∀ (adv : List (Shared × Bool)) (r : RS), KR r → KR (runT cfg c adv r) := by
  intro adv
  induction adv with
  | nil => intro r h; exact h
  | cons sb rest ih =>
    intro r h
    simp only [runT]
    split
    · exact h
    · exact ih _ (KR_step cfg c sb r h)

/-- **C06 (commit)**: a returning `rcu` wrote the cell exactly once, on top of exactly the pointer
    `res` it had passed to the closure in that attempt (the cell held `res` at the writing step),
    installing that attempt's result `a` (whose content `v` is `f` of the content read through the
    guard in that attempt); and it returns `res`, the value it replaced. -/
theorem C06_commit (cfg : Cfg) (c : Nat) (adv : List (Shared × Bool)) (l : Locals) (res : Nat)
    (h : (runT cfg c adv ⟨l, .load .start, 0, 0, none, none, none⟩).rp = .done res) :
    let r := runT cfg c adv ⟨l, .load .start, 0, 0, none, none, none⟩
    r.wrote = 1 ∧ ∃ a v, r.lastAlloc = some (res, a, v) ∧ r.before = some res ∧ r.after = some a := by
  have hk := KR_run cfg c adv ⟨l, .load .start, 0, 0, none, none, none⟩ (by simp [KR])
  generalize runT cfg c adv ⟨l, .load .start, 0, 0, none, none, none⟩ = R at *
  simpa only [KR, h] using hk

/-- **the closure is handed a live value (partial)**: at the step at which `rcu` evaluates the
    closure on the value it loaded, that value has not been destroyed, whatever the other threads
    have done since the load (replaced it, dropped the old one, consumed or dropped the container)
    — along every execution that satisfies the ledger's assumptions and has raised no fault; so
    the pointer still denotes the object that was loaded (its address has not been reused) -/
theorem C06_closure_sees_live_value_partial (K N T : Nat) (hK : 0 < K) (cfg : Cfg) (progs : Nat → List (String × Op))
    (sched : List (Nat × Bool)) (he : EnvRun0 K N T (State.initial cfg progs) sched)
    (hf : (run (State.initial cfg progs) sched).sh.fault = none)
    (t : Nat) (ht : t < T) (c out tries : Nat) (cur : Guard) (hp : cur.ptr ≠ 0)
    (hop : ((run (State.initial cfg progs) sched).th t).op = .rcu c out tries (.attempt cur)) :
    ((run (State.initial cfg progs) sched).sh.heap cur.ptr).live = true :=
  rcu_closure_value_alive K N T hK cfg progs sched he hf t ht c out tries cur hp hop

/-- … and evaluating it raises no fault -/
theorem C06_closure_step_no_fault_partial (K N T : Nat) (hK : 0 < K) (cfg : Cfg) (progs : Nat → List (String × Op))
    (sched : List (Nat × Bool)) (he : EnvRun0 K N T (State.initial cfg progs) sched)
    (hf : (run (State.initial cfg progs) sched).sh.fault = none)
    (t : Nat) (ht : t < T) (b : Bool) (c out tries : Nat) (cur : Guard)
    (hop : ((run (State.initial cfg progs) sched).th t).op = .rcu c out tries (.attempt cur)) :
    (microStep (run (State.initial cfg progs) sched) t b).1.sh.fault = none :=
  rcu_attempt_no_fault K N T hK cfg progs sched he hf t ht b c out tries cur hop

/-- **an object keeps its identity and content while it is counted**: the allocator hands out only
    addresses whose count is zero, so no step changes the `id` or the content of an object with a
    positive count — pointer equality is object identity for as long as a guard or handle keeps the
    object alive -/
theorem C06_counted_object_keeps_identity (st : State) (t : Nat) (b : Bool) (a : Nat)
    (hroom : ∀ v, (st.sh.heap (alloc st.sh v).2.1).cnt = 0) (hc : 1 ≤ (st.sh.heap a).cnt) :
    ((microStep st t b).1.sh.heap a).id = (st.sh.heap a).id ∧
      ((microStep st t b).1.sh.heap a).val = (st.sh.heap a).val :=
  counted_keeps_identity st t b a hroom hc

/-- **`rcu` installs `f(v)` on top of the very `v` it gave to `f` (partial)**: with the closure
    `|v| v + 1`, at the step at which an `rcu` exchanges the pointer (the container holds the
    address the closure was given), the container afterwards holds the allocated object and its
    content is the replaced content plus one — the replaced object is the one the closure saw, kept
    alive (hence never re-allocated) by the guard from the load to the exchange.  So completed
    `rcu` increments compose like sequential ones: each adds exactly one to what it replaces.
    Along every execution that satisfies the ledger's assumptions and has raised no fault. -/
theorem C06_exchange_adds_one_partial (K N T : Nat) (hK : 0 < K) (cfg : Cfg) (progs : Nat → List (String × Op))
    (sched : List (Nat × Bool)) (he : EnvRun0 K N T (State.initial cfg progs) sched)
    (hf : (run (State.initial cfg progs) sched).sh.fault = none)
    (t c out tries : Nat) (cur : Guard) (a : Nat) (old : Guard)
    (hop : ((run (State.initial cfg progs) sched).th t).op = .rcu c out tries (.cas cur a (.cx old)))
    (hq : (run (State.initial cfg progs) sched).sh.cells c = some cur.ptr) :
    (microStep (run (State.initial cfg progs) sched) t false).1.sh.cells c = some a ∧
      valOf (microStep (run (State.initial cfg progs) sched) t false).1.sh a =
        valOf (run (State.initial cfg progs) sched).sh cur.ptr + 1 :=
  rcu_exchange_adds_one K N T hK cfg progs sched he hf t c out tries cur a old hop hq

/-- the invariant behind it, for every state between the closure and the exchange -/
theorem C06_result_is_f_of_loaded_partial (K N T : Nat) (hK : 0 < K) (cfg : Cfg) (progs : Nat → List (String × Op))
    (sched : List (Nat × Bool)) (he : EnvRun0 K N T (State.initial cfg progs) sched)
    (hf : (run (State.initial cfg progs) sched).sh.fault = none) :
    RcuVal2 (run (State.initial cfg progs) sched) :=
  rcuVal_run K N T hK cfg progs sched he hf

/-!
Not proved: that the results of discarded attempts are destroyed (it is the ownership accounting of
C02: the rejected `new` is released by `dropNew`, a step whose count operation is covered by
`C01_count_step_no_fault_partial`), and the fold over a whole execution as one statement about
`hist` (each exchange adds one — above — and nothing else writes the container: C04).  The harness
checks both on every execution (content installed = content replaced + 1; no leak at quiescence).
-/

end C06
