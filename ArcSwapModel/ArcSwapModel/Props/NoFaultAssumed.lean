import ArcSwapModel.Props.C03
import ArcSwapModel.Props.C04
import ArcSwapModel.Props.C05
import ArcSwapModel.Props.C06
import ArcSwapModel.Props.C10Live
import ArcSwapModel.Inv.FaultFree

/-!
# The global theorems of C03, C04, C05, C06 and C10 without the premise "no fault has been raised"

The theorems of `Props/C04 … C10Live` that speak about whole executions carry two premises: the
execution satisfies the ledger's assumptions (`EnvRun0`) and its end state has raised no fault.
`env_run_fault_free` (`Inv/FaultFree.lean`) proves the second from the first, so each of them holds
from the ledger's assumptions alone.  Stated here, one by one, with the same conclusions.
-/

namespace C03

/-- the pointer in a container denotes the object whose identity heads the container's history of
    writes — from the ledger's assumptions alone -/
theorem C03_cell_holds_latest_write_no_fault_assumed_partial (K N T : Nat) (hK : 0 < K) (cfg : M.Cfg)
    (progs : Nat → List (String × M.Op)) (sched : List (Nat × Bool))
    (he : M.EnvRun0 K N T (M.State.initial cfg progs) sched) (c p : Nat)
    (hc : (M.run (M.State.initial cfg progs) sched).sh.cells c = some p) :
    ∃ rest, (M.run (M.State.initial cfg progs) sched).sh.hist c =
      (M.run (M.State.initial cfg progs) sched).sh.idOf p :: rest :=
  C03_cell_holds_latest_write_partial K N T hK cfg progs sched he
    (M.env_run_fault_free K N T hK cfg progs sched he) c p hc

end C03

namespace C04
open M Consts

/-- the container holds the latest write — from the ledger's assumptions alone -/
theorem C04_container_holds_latest_write_no_fault_assumed_partial (K N T : Nat) (hK : 0 < K) (cfg : Cfg)
    (progs : Nat → List (String × Op)) (sched : List (Nat × Bool))
    (he : EnvRun0 K N T (State.initial cfg progs) sched) (c p : Nat)
    (hc : (run (State.initial cfg progs) sched).sh.cells c = some p) :
    ∃ rest, (run (State.initial cfg progs) sched).sh.hist c = (run (State.initial cfg progs) sched).sh.idOf p :: rest :=
  C04_container_holds_latest_write_partial K N T hK cfg progs sched he
    (env_run_fault_free K N T hK cfg progs sched he) c p hc

/-- `swap` takes out what its immediate predecessor put in — from the ledger's assumptions alone -/
theorem C04_swap_takes_out_predecessor_no_fault_assumed_partial (K N T : Nat) (hK : 0 < K) (cfg : Cfg)
    (progs : Nat → List (String × Op)) (sched : List (Nat × Bool))
    (he : EnvRun0 K N T (State.initial cfg progs) sched)
    (t : Nat) (b : Bool) (c a out old : Nat) (isStore : Bool)
    (hop : ((run (State.initial cfg progs) sched).th t).op = .swapSw c a out isStore)
    (hc : (run (State.initial cfg progs) sched).sh.cells c = some old) :
    ∃ rest, (run (State.initial cfg progs) sched).sh.hist c = (run (State.initial cfg progs) sched).sh.idOf old :: rest ∧
      (microStep (run (State.initial cfg progs) sched) t b).1.sh.hist c =
        (run (State.initial cfg progs) sched).sh.idOf a :: (run (State.initial cfg progs) sched).sh.idOf old :: rest ∧
      ((microStep (run (State.initial cfg progs) sched) t b).1.th t).op = .swapPay c out old isStore .start :=
  C04_swap_takes_out_predecessor_partial K N T hK cfg progs sched he
    (env_run_fault_free K N T hK cfg progs sched he) t b c a out old isStore hop hc

end C04

namespace C05
open M Consts

/-- `current` given as a handle denotes a live, counted object in every state of the call -/
theorem C05_current_handle_alive_no_fault_assumed_partial (K N T : Nat) (hK : 0 < K) (cfg : Cfg)
    (progs : Nat → List (String × Op)) (sched : List (Nat × Bool))
    (he : EnvRun0 K N T (State.initial cfg progs) sched)
    (t c hc : Nat) (keep : Option Guard) (curPtr new g : Nat) (cp : CP) (hp : curPtr ≠ 0)
    (hop : ((run (State.initial cfg progs) sched).th t).op = .cas c (.h hc) keep curPtr new g cp) :
    1 ≤ ((run (State.initial cfg progs) sched).sh.heap curPtr).cnt ∧
      ((run (State.initial cfg progs) sched).sh.heap curPtr).live = true :=
  C05_current_handle_alive_during_call_partial K N T hK cfg progs sched he
    (env_run_fault_free K N T hK cfg progs sched he) t c hc keep curPtr new g cp hp hop

/-- the same for `current` given as a guard -/
theorem C05_current_guard_alive_no_fault_assumed_partial (K N T : Nat) (hK : 0 < K) (cfg : Cfg)
    (progs : Nat → List (String × Op)) (sched : List (Nat × Bool))
    (he : EnvRun0 K N T (State.initial cfg progs) sched)
    (t c gc : Nat) (cg : Guard) (new g : Nat) (cp : CP) (hp : cg.ptr ≠ 0)
    (hop : ((run (State.initial cfg progs) sched).th t).op = .cas c (.g gc) (some cg) cg.ptr new g cp) :
    1 ≤ ((run (State.initial cfg progs) sched).sh.heap cg.ptr).cnt ∧
      ((run (State.initial cfg progs) sched).sh.heap cg.ptr).live = true :=
  C05_current_guard_alive_during_call_partial K N T hK cfg progs sched he
    (env_run_fault_free K N T hK cfg progs sched he) t c gc cg new g cp hp hop

end C05

namespace C06
open M Consts

/-- the closure of `rcu` is handed a live value — from the ledger's assumptions alone -/
theorem C06_closure_sees_live_value_no_fault_assumed_partial (K N T : Nat) (hK : 0 < K) (cfg : Cfg)
    (progs : Nat → List (String × Op)) (sched : List (Nat × Bool))
    (he : EnvRun0 K N T (State.initial cfg progs) sched)
    (t : Nat) (ht : t < T) (c out tries : Nat) (cur : Guard) (hp : cur.ptr ≠ 0)
    (hop : ((run (State.initial cfg progs) sched).th t).op = .rcu c out tries (.attempt cur)) :
    ((run (State.initial cfg progs) sched).sh.heap cur.ptr).live = true :=
  C06_closure_sees_live_value_partial K N T hK cfg progs sched he
    (env_run_fault_free K N T hK cfg progs sched he) t ht c out tries cur hp hop

/-- `rcu`'s exchange adds exactly one to what it replaces — from the ledger's assumptions alone -/
theorem C06_exchange_adds_one_no_fault_assumed_partial (K N T : Nat) (hK : 0 < K) (cfg : Cfg)
    (progs : Nat → List (String × Op)) (sched : List (Nat × Bool))
    (he : EnvRun0 K N T (State.initial cfg progs) sched)
    (t c out tries : Nat) (cur : Guard) (a : Nat) (old : Guard)
    (hop : ((run (State.initial cfg progs) sched).th t).op = .rcu c out tries (.cas cur a (.cx old)))
    (hq : (run (State.initial cfg progs) sched).sh.cells c = some cur.ptr) :
    (microStep (run (State.initial cfg progs) sched) t false).1.sh.cells c = some a ∧
      valOf (microStep (run (State.initial cfg progs) sched) t false).1.sh a =
        valOf (run (State.initial cfg progs) sched).sh cur.ptr + 1 :=
  C06_exchange_adds_one_partial K N T hK cfg progs sched he
    (env_run_fault_free K N T hK cfg progs sched he) t c out tries cur a old hop hq

end C06

namespace C10
open M Consts

/-- a guard stays valid whatever happens to the container and to the other threads — from the
    ledger's assumptions alone -/
theorem C10_guard_value_outlives_everything_no_fault_assumed_partial (K N T : Nat) (hK : 0 < K) (cfg : Cfg)
    (progs : Nat → List (String × Op)) (sched : List (Nat × Bool))
    (he : EnvRun0 K N T (State.initial cfg progs) sched)
    (g : Nat) (hg : g < N) (gd : Guard) (hreg : (run (State.initial cfg progs) sched).sh.greg g = some gd)
    (hp : gd.ptr ≠ 0) :
    1 ≤ ((run (State.initial cfg progs) sched).sh.heap gd.ptr).cnt ∧
      ((run (State.initial cfg progs) sched).sh.heap gd.ptr).live = true :=
  C10_guard_value_outlives_everything_partial K N T hK cfg progs sched he
    (env_run_fault_free K N T hK cfg progs sched he) g hg gd hreg hp

/-- dereferencing it raises no fault, whichever thread does it -/
theorem C10_guard_deref_anywhere_no_fault_assumed_partial (K N T : Nat) (hK : 0 < K) (cfg : Cfg)
    (progs : Nat → List (String × Op)) (sched : List (Nat × Bool))
    (he : EnvRun0 K N T (State.initial cfg progs) sched)
    (t g : Nat) (hg : g < N) (b : Bool) (txt : String) (rest : List (String × Op))
    (hidle : ((run (State.initial cfg progs) sched).th t).op = .idle)
    (hprog : ((run (State.initial cfg progs) sched).th t).prog = (txt, .gderef g) :: rest) :
    (microStep (run (State.initial cfg progs) sched) t b).1.sh.fault = none :=
  C10_guard_deref_anywhere_no_fault_partial K N T hK cfg progs sched he
    (env_run_fault_free K N T hK cfg progs sched he) t g hg b txt rest hidle hprog

end C10
