import ArcSwapModel.Inv.Own
import ArcSwapModel.Inv.Probe
import ArcSwapModel.Inv.Check
import ArcSwapModel.Props.C03
import ArcSwapModel.Tie.ListNewHelping
import ArcSwapModel.Tie.ListNewFast
import ArcSwapModel.Tie.ListConfirmHelping
import ArcSwapModel.Tie.ListHelp
import ArcSwapModel.Tie.ListWith
import ArcSwapModel.Tie.ListStartCooldown
import ArcSwapModel.Tie.ListNodeGet
import ArcSwapModel.Tie.HelpingGetDebt
import ArcSwapModel.Tie.HelpingWrapsNext
import ArcSwapModel.Tie.HelpingHelp
import ArcSwapModel.Tie.HelpingConfirm
import ArcSwapModel.Tie.HybridFallback
import ArcSwapModel.Tie.HybridLoad
import ArcSwapModel.Tie.Sites
import ArcSwapModel.Inv.LpBack

/-!
# C13 — operations are total, however long the history
(partial: the two panic classes that involve the node — including the wrap — are proved; see the end)

For every wrap modulus `W` (the crate's is `2^64`; `Cfg.W` is a parameter of every theorem), i.e.
for histories of any length, with or without writers helping at the wrap.
-/

namespace C13
open M Consts

/-- **`expect("LocalNode::with ensures it is set")` never fires inside a load**, wrap included:
    once `LocalNode::with` has set the thread's node it stays set through the whole load, also when
    the load moves to another node because the transaction counter wraps (the defect D1 was exactly
    a `None` here).  For any shared state before each step (any concurrent behaviour). -/
theorem C13_node_stays_set (cfg : Cfg) (c : Nat) (s : Shared) (l : Locals) (b : Bool) (lp : LP)
    (h : l.node.isSome = true) : (stepLP cfg c s l b lp).2.1.node.isSome = true :=
  C03.node_some_step cfg c s l b lp h

/-- with the node set, the three `expect` sites on the read path raise nothing -/
theorem C13_no_expect_panic (cfg : Cfg) (c : Nat) (s : Shared) (l : Locals) (b : Bool) (lp : LP)
    (h : l.node.isSome = true) (hf : s.fault = none) :
    (stepLP cfg c s l b lp).1.fault ≠ some expectPanic := by
  obtain ⟨n, hn⟩ := Option.isSome_iff_exists.mp h
  have nf : ∀ (x : Shared) (f : Fault), x.fault = none → f ≠ expectPanic → (x.setFault f).fault ≠ some expectPanic := by
    intro x f hx hne; rw [setFault_fault_of_none _ _ hx]; intro e; cases e; exact hne rfl
  have keep : ∀ x : Shared, x.fault = none → x.fault ≠ some expectPanic := fun x hx => by rw [hx]; simp
  have dbg : ∀ (m : Nat) (site : String), (dbgInUse s m site).fault ≠ some expectPanic := by
    intro m site; unfold dbgInUse; split
    · exact keep s hf
    · exact nf s _ hf (by simp [expectPanic])
  have inc : ∀ a, (incObj s a).1.fault ≠ some expectPanic := by
    intro a; simp only [incObj]; split
    · simpa using keep s hf
    · exact nf s _ hf (by simp [expectPanic])
  have dec : ∀ a, (decObj s a).1.fault ≠ some expectPanic := by
    intro a; simp only [decObj]; (repeat' split)
    · exact nf s _ hf (by simp [expectPanic])
    · simpa using keep s hf
    · simpa using keep s hf
    · exact nf s _ hf (by simp [expectPanic])
  cases lp with
  | get ng =>
    simp only [stepLP]
    have hng : (stepNG s b ng).1.fault ≠ some expectPanic := by
      rcases stepNG_fault s b ng with e | ⟨e, _⟩
      · rw [e]; exact keep s hf
      · rw [e]; exact nf s _ hf (by simp [expectPanic, chkAssert])
    split <;> simp_all
  | reget ng =>
    simp only [stepLP]
    have hng : (stepNG s b ng).1.fault ≠ some expectPanic := by
      rcases stepNG_fault s b ng with e | ⟨e, _⟩
      · rw [e]; exact keep s hf
      · rw [e]; exact nf s _ hf (by simp [expectPanic, chkAssert])
    split <;> simp_all
  | cool cd =>
    simp only [stepLP]
    have := stepCD_fault s cd hf
    split <;> (rcases this with h1 | h1 <;> simp_all [expectPanic])
  | _ =>
    simp only [stepLP, hn] <;>
    (first
      | exact keep s hf
      | exact dbg _ _
      | exact inc _
      | exact dec _
      | ((repeat' split) <;> first
          | exact keep s hf
          | exact dbg _ _
          | (simpa using keep s hf)
          | (exact nf _ _ (by simpa using hf) (by simp [expectPanic]))
          | (exact nf s _ hf (by simp [expectPanic]))))

/-- **`assert_eq!(NODE_USED, self.in_use.swap(NODE_COOLDOWN, ..))` in `start_cooldown` never fires**,
    neither at thread exit nor at the generation wrap (also when the wrap happens in the load a
    writer performs to produce a replacement): in every reachable state, a thread that is about to
    execute that swap on node `n` owns `n`, and an owned node is `NODE_USED`. -/
theorem C13_cooldown_assert {st : State} (h : Reachable st) (t n : Nat)
    (hcd : (st.th t).op.cd? = some (.swap n)) : (st.sh.nodes n).inUse = nodeUsed :=
  (OwnInv.reachable h).used t n (owns_of_cooldown (st.th t) n hcd)

/-- … so that step raises no panic -/
theorem C13_cooldown_step_no_panic (s : Shared) (n : Nat) (h : (s.nodes n).inUse = nodeUsed) (hf : s.fault = none) :
    (stepCD s (.swap n)).1.fault = none := by
  simp [stepCD, h, hf]

/-- `debug_assert_eq!(node.in_use.load(Relaxed), NODE_USED)` (four sites in `list.rs`) holds whenever
    the thread is past `LocalNode::with` and not retiring its node: the node it uses is owned -/
theorem C13_debug_in_use {st : State} (h : Reachable st) (t n : Nat) (ho : ownsT (st.th t) = some n) :
    dbgInUse st.sh n "any" = st.sh := by
  simp [dbgInUse, (OwnInv.reachable h).used t n ho]

/-- `assert_eq!(my_space as usize & TAG_MASK, 0)` in `help`: `Handover` is aligned so that its
    address has the tag bits free; `unreachable!("Invalid control value")`: the three kinds of
    control content are told apart by distinct tags and a generation never carries tag bits (the
    counter moves in steps that are multiples of the tag mask + 1) — obligations on the constants
    of the current source. -/
theorem C13_tags : Consts.handoverAlign &&& Consts.tagMask = 0 ∧ Consts.genStep &&& Consts.tagMask = 0 ∧
    Consts.genTag ≠ Consts.replTag ∧ Consts.genTag ≠ 0 ∧ Consts.replTag ≠ 0 ∧ Consts.idle = 0 := by
  have := Consts.tags_ok
  exact ⟨this.2.2.2.2.2.2.2.2.2.1, this.2.2.2.2.2.2.1, this.2.1, this.2.2.1, this.2.2.2.1, this.1⟩

/-! ## The debug assertions on the control word (from the control-word invariant, `Inv/Ctl.lean`) -/

/-- `debug_assert_eq!(prev, IDLE, "Left control in wrong state")` in `helping::get_debt` and
    `debug_assert_eq!(IDLE, self.control.load(..))` at the top of `help`: in every reachable state
    without a fault, the control word of the node a thread owns is `IDLE` whenever that thread is
    not inside its own fallback window — in particular right before it publishes a new generation,
    and while it walks other nodes as a writer. -/
theorem C13_own_control_idle {st : State} (h : Reachable st) (hf : st.sh.fault = none) (t n : Nat)
    (hown : ownsT (st.th t) = some n) (hw : (st.th t).op.win = none) : (st.sh.nodes n).control = .idle :=
  control_idle_outside (CtlInv.reachable h hf) (OwnInv.reachable h) t n hown hw

/-- the same, at the very step: a thread about to swap its generation in (`f2`) finds `IDLE`, so
    that step raises no debug assertion -/
theorem C13_get_debt_assert {st : State} (h : Reachable st) (hf : st.sh.fault = none) (t n g : Nat)
    (hlp : (st.th t).op.lp? = some (.f2 g)) (hn : (st.th t).loc.node = some n) :
    (st.sh.nodes n).control = .idle := by
  refine C13_own_control_idle h hf t n ?_ ?_
  · rw [ownsT_of_lp _ _ hlp]; exact hn
  · rw [OpSt.win_lp, hlp]; rfl

/-- `confirm`: "control is neither our generation nor a replacement" never fires: a thread about to
    swap `IDLE` back (`f5`) finds its own generation or an envelope -/
theorem C13_confirm_assert {st : State} (h : Reachable st) (hf : st.sh.fault = none) (t n g cand : Nat)
    (hlp : (st.th t).op.lp? = some (.f5 g cand)) (hn : (st.th t).loc.node = some n) :
    (st.sh.nodes n).control = .gen g ∨ ∃ j, (st.sh.nodes n).control = .env j :=
  (CtlInv.reachable h hf).inside t g n (by rw [OpSt.win_lp, hlp]; rfl) hn

/-- a control word that is not idle always belongs to the thread inside its window on that node -/
theorem C13_control_owner {st : State} (h : Reachable st) (hf : st.sh.fault = none) (n : Nat)
    (hne : (st.sh.nodes n).control ≠ .idle) :
    ∃ t g, (st.th t).loc.node = some n ∧ (st.th t).op.win = some g ∧
      ((st.sh.nodes n).control = .gen g ∨ ∃ j, (st.sh.nodes n).control = .env j) :=
  (CtlInv.reachable h hf).owner n hne

/-- `confirm`: "slot not NONE" — the value part: a thread about to publish into the helping slot of
    its node (`f4`) finds no value there (a holder would be another thread owning the same node) -/
theorem C13_confirm_slot_names_nothing {st : State} (h : Reachable st) (hf : st.sh.fault = none) (t n g cand : Nat)
    (hlp : (st.th t).op.lp? = some (.f4 g cand)) (hn : (st.th t).loc.node = some n) (a : Nat) :
    (st.sh.nodes n).hslot ≠ .ptr a := by
  refine hslot_free_unless_held (HHoldInv.reachable h hf) (OwnInv.reachable h) t n ?_ a (fun hh => ?_)
  · rw [ownsT_of_lp _ _ hlp]; exact hn
  · obtain ⟨ld, h1, h2⟩ := OpSt.hholds_lp hh
    rw [hlp] at h1; cases h1; exact h2

/-- … and since a slot holds `NONE` or a value, the slot is `NONE`: `confirm`'s
    `debug_assert_eq!(prev, NONE)` holds -/
theorem C13_confirm_slot_assert {st : State} (h : Reachable st) (hf : st.sh.fault = none) (t n g cand : Nat)
    (hlp : (st.th t).op.lp? = some (.f4 g cand)) (hn : (st.th t).loc.node = some n) :
    (st.sh.nodes n).hslot = .none := by
  cases hv : (st.sh.nodes n).hslot with
  | none => rfl
  | ptr a => exact absurd hv (C13_confirm_slot_names_nothing h hf t n g cand hlp hn a)

/-- `fast::get_debt`: "slot not NONE" never fires — a thread about to swap its debt into slot `i`
    of its node (the slot its probe found empty) still finds it empty: nobody but the owner of a
    node fills its slots.  Every reachable state, any nesting of the load (inside a writer's help,
    a `compare_and_swap`, an `rcu`). -/
theorem C13_get_debt_slot_assert {st : State} (h : Reachable st) (t p i n : Nat)
    (hlp : (st.th t).op.lp? = some (.pswap p i)) (hn : (st.th t).loc.node = some n) :
    (st.sh.nodes n).fast i = .none :=
  ProbeInv.reachable h t p i n hlp hn

/-- the step itself, for a plain `load`: no fault is raised by the swap -/
theorem C13_get_debt_swap_no_fault {st : State} (h : Reachable st) (t c g p i : Nat) (b : Bool)
    (hop : (st.th t).op = .load c g (.pswap p i)) (hf : st.sh.fault = none) :
    (microStep st t b).1.sh.fault = none :=
  pswap_no_fault h t c g p i b hop hf

/-- `check_cooldown`: "Somebody took a node while it was being checked" never fires — the node a
    `Node::get` holds for its look at `active_writers` is in the checking state when the exchange at
    the end of the check finds it: nobody else touches a node in that state (`CheckInv`,
    `Inv/Check.lean`; the state was introduced by the repair of D12). -/
theorem C13_check_cooldown_assert {st : State} (h : Reachable st) (t n : Nat)
    (hc : (st.th t).op.chk = some n) : (st.sh.nodes n).inUse = Consts.nodeChecking :=
  (CheckInv.reachable h).held t n hc

/-- **an operation never finds its container gone**: along every execution of threads that use
    registers and cells below `N` and create containers on fresh cells only, the container an
    operation in progress works on (a load, a store, a swap, a compare-and-swap, an rcu) exists and
    is not being destroyed — the stuck states "load of / cas on a dropped container" of the model
    are not reachable.  (In Rust: `into_inner` and `Drop` take the container by value; in the
    model: the `busy` discipline, proved as an invariant in `Inv/Busy3.lean`.) -/
theorem C13_operated_container_exists (N T : Nat) (cfg : Cfg) (progs : Nat → List (String × Op))
    (sched : List (Nat × Bool)) (ht : TameRun2 N T (State.initial cfg progs) sched) (t c : Nat)
    (hcell : ((run (State.initial cfg progs) sched).th t).op.cell? = some c)
    (hcons : ((run (State.initial cfg progs) sched).th t).op.cons = false) :
    (run (State.initial cfg progs) sched).sh.cells c ≠ none ∧ c < N ∧
      (run (State.initial cfg progs) sched).ctaken c = false := by
  obtain ⟨L, hL⟩ := (HazAllD.initial N T cfg progs).run sched ht
  exact hL.busy.free t c hcell hcons

/-- … and a container being destroyed is worked on by its destroyer alone, and keeps its value
    until the destroyer's walk is over -/
theorem C13_destroyed_container_exclusive (N T : Nat) (cfg : Cfg) (progs : Nat → List (String × Op))
    (sched : List (Nat × Bool)) (ht : TameRun2 N T (State.initial cfg progs) sched) (t u c : Nat)
    (h1 : ((run (State.initial cfg progs) sched).th t).op.cons = true)
    (h2 : ((run (State.initial cfg progs) sched).th t).op.cell? = some c)
    (h3 : ((run (State.initial cfg progs) sched).th u).op.cell? = some c) : u = t := by
  obtain ⟨L, hL⟩ := (HazAllD.initial N T cfg progs).run sched ht
  cases hcb : ((run (State.initial cfg progs) sched).th u).op.cons with
  | true => exact hL.busy.uniq u t c hcb h1 h3 h2
  | false =>
    have := (hL.busy.free u c h3 hcb).2.2
    rw [hL.busy.taken t c h1 h2] at this; cases this

/-- `help`: "Refusing to help myself" never fires — in every reachable fault-free state a writer
    that is in the helping branch of `Slots::help` (it has seen a generation in the control word of
    the node it is at) is at a node that is not its own: at the entry of a help call the helper's
    node is the thread's node, and outside a load of its own the control word of the node a thread
    owns is idle (`SelfInv`, `Inv/SelfHelp.lean`, from `CtlInv` and node exclusivity). -/
theorem C13_refusing_to_help_myself_assert {st : State} (h : Reachable st) (hf : st.sh.fault = none) (t a : Nat)
    (hh : HL) (hw : (st.th t).op.walkC? = some (a, .h2 hh)) : hh.own ≠ hh.who :=
  help_not_self h hf t a hh hw

/-- **C13, the panics: no assertion of the crate fires and no `expect` panics — in any execution.**
    In every reachable state (any number of threads, any programs, any schedule, any spurious
    failures, any wrap modulus of the transaction counter) the fault flag of the machine, if it is
    set at all, is a use-after-free, a double free or a stuck state of the model: never one of the
    crate's `debug_assert!`s, `assert!`s or `expect`s (`Fault.isAssert`).  All of them, at once: the
    five `expect("LocalNode::with ensures it is set")`, the four in-use debug assertions,
    `assert_eq!(NODE_USED, …)` of `start_cooldown`, the assertion at the end of `check_cooldown`,
    "slot not NONE" of both `get_debt`s and of `confirm`, "Left control in wrong state", "own
    control not IDLE", "control is neither our generation nor a replacement", "Refusing to help
    myself".  No hypothesis: the induction goes over the execution, and in a state that has raised
    no fault so far the invariants provide what each assertion checks (`pre_reachable`). -/
theorem C13_no_assertion_ever_fires {st : State} (h : Reachable st) (f : Fault) (hf : st.sh.fault = some f) :
    f.isAssert = false :=
  never_an_assertion h f hf

/-- the step form: from a reachable state that has raised no fault, no step of any thread raises an
    assertion or a panic -/
theorem C13_step_raises_no_assertion {st : State} (h : Reachable st) (hf : st.sh.fault = none) (t : Nat) (b : Bool)
    (f : Fault) (hf' : (microStep st t b).1.sh.fault = some f) : f.isAssert = false :=
  no_assertion_fires h hf t b f hf'

/-- what counts as an assertion -/
example : (Fault.debugAssert "x").isAssert = true ∧ expectPanic.isAssert = true ∧ chkAssert.isAssert = true ∧
    (Fault.uaf "inc" 1).isAssert = false ∧ (Fault.stuck "x").isAssert = false := ⟨rfl, rfl, rfl, rfl, rfl⟩

/-- **without a successful hand-over no load is at its receiving end**: along every execution that
    satisfies the ledger's assumptions (in particular: no control word ever holds an envelope), no
    thread is ever in the states that take a replacement out of an envelope — so the stuck state
    "envelope holds NONE" of the model is not reached there, and every load returns by one of the
    direct paths (`C03_load_window_partial` applies to all of them) -/
theorem C13_no_receiving_end_without_handover (K N T : Nat) (cfg : Cfg) (progs : Nat → List (String × Op))
    (sched : List (Nat × Bool)) (he : EnvRun0 K N T (State.initial cfg progs) sched) (t : Nat) (lp : LP)
    (hlp : ((run (State.initial cfg progs) sched).th t).op.lp? = some lp) : lp.isFr = false :=
  noFr_of_env K N T cfg progs sched he t lp hlp

/-!
Not proved: `envelope holds NONE` in executions *with* a hand-over (a stuck state of the model: the
envelope a helped reader is pointed to holds a value — needs the envelope invariant of the
hand-over).
No hang: reads are
bounded (C08); writers: C09.  The harness runs every execution with debug assertions on and
`catch_unwind` around each operation; the wrap is reached by presetting the counter (`wrap` family
and the two D1 scenarios in the corpus).
-/

example : (State.initial {} (fun _ => [])).sh.fault = none := rfl

end C13
