import ArcSwapModel.M.Machine
import ArcSwapModel.Tie.HybridLoad
import ArcSwapModel.Tie.HybridAttempt
import ArcSwapModel.Tie.HybridFallback
import ArcSwapModel.Tie.HybridIntoInner
import ArcSwapModel.Tie.FastGetDebt
import ArcSwapModel.Tie.HelpingGetDebt
import ArcSwapModel.Tie.HelpingConfirm
import ArcSwapModel.Tie.HelpingWrapsNext
import ArcSwapModel.Tie.ListNewFast
import ArcSwapModel.Tie.ListNewHelping
import ArcSwapModel.Tie.ListConfirmHelping
import ArcSwapModel.Tie.ListWith
import ArcSwapModel.Tie.DebtPay
import ArcSwapModel.Tie.LibLoad
import ArcSwapModel.Tie.LibLoadFull
import ArcSwapModel.Tie.LibGuardIntoInner

/-!
# C08 — reads are wait-free

`load` (and `load_full`) of a thread that already owns a node, in a call that does not wrap the
transaction counter, finishes within `B = slotCnt + 17` of the caller's own steps, *whatever the
shared state is before each of them*: the bound is proved against an adversary that may replace
the whole shared state (cells, slots, control words, counts, list) arbitrarily between any two
reader steps — this includes a writer completing any number of writes between every two steps,
every other thread being suspended forever, and any number of guards already held.

The two hypotheses are the property's own ("a thread that has already used the crate") and the
documentation's (the call that wraps the counter goes through `Node::get`, which walks a list of
unbounded length and has a compare-exchange loop on the list head: lock-free only).
-/

namespace C08
open M Consts

/-- Remaining own steps of a load, as a function of the reader's program counter only. -/
def fuel : LP → Nat
  | .start => slotCnt + 18
  | .a1 => slotCnt + 17
  | .nfDbg _ => slotCnt + 16
  | .probe _ i => (slotCnt - i) + 15
  | .pswap _ _ => 15
  | .a3 _ _ => 14
  | .a4 _ _ => 13
  | .a4dec _ => 12
  | .nhDbg => 11
  | .f1 => 10
  | .f2 _ => 9
  | .f3 _ => 8
  | .chDbg _ _ => 7
  | .f4 _ _ => 6
  | .f5 _ _ => 5
  | .fokInc _ => 3
  | .fokPay _ => 2
  | .fokDec _ => 1
  | .fr1 _ _ => 4
  | .fr2 _ _ _ => 3
  | .frPay _ _ => 2
  | .frDec _ _ => 1
  | .done _ _ => 0
  -- the list paths are outside the bound (hypotheses below keep the reader away from them)
  | .get _ => 0
  | .cool _ => 0
  | .reget _ => 0

/-- the states in which the reader is on the bounded path -/
def onPath : LP → Bool
  | .get _ | .cool _ | .reget _ => false
  | _ => true

/-- before the generation is bumped, the call must not be the wrapping one -/
def preGen : LP → Bool
  | .start | .a1 | .nfDbg _ | .probe _ _ | .pswap _ _ | .a3 _ _ | .a4 _ _ | .a4dec _ | .nhDbg => true
  | _ => false

/-- the situation of a good reader -/
def Good (cfg : Cfg) (l : Locals) (lp : LP) : Prop :=
  l.node.isSome = true ∧ onPath lp = true ∧ (preGen lp = true → (l.gen + genStep) % cfg.W ≠ 0) ∧
  (∀ p i, lp = .probe p i → i < slotCnt)

/-- One reader step from a good situation, in *any* shared state, stays good and burns fuel. -/
theorem step_decreases (cfg : Cfg) (c : Nat) (s : Shared) (l : Locals) (spur : Bool) (lp : LP)
    (hg : Good cfg l lp) (hnd : ∀ p d, lp ≠ .done p d) :
    let r := stepLP cfg c s l spur lp
    Good cfg r.2.1 r.2.2.1 ∧ fuel r.2.2.1 < fuel lp := by
  obtain ⟨hn, hp, hw, hi⟩ := hg
  obtain ⟨n, hn'⟩ := Option.isSome_iff_exists.mp hn
  have hsc := Consts.slotCnt_pos
  cases lp with
  | start =>
    simp only [stepLP, hn']
    cases cfg.useFast <;> simp [Good, fuel, onPath, preGen, hn'] <;> first | exact hw (by rfl) | omega
  | get ng => simp [onPath] at hp
  | cool cd => simp [onPath] at hp
  | reget ng => simp [onPath] at hp
  | done p d => exact absurd rfl (hnd p d)
  | a1 =>
    simp only [stepLP]
    split
    · exact ⟨⟨hn, rfl, fun _ => hw rfl, by intro p i h; cases h⟩, by simp [fuel]⟩
    · exact ⟨⟨hn, rfl, fun h => by simp [preGen] at h, by intro p i h; cases h⟩, by simp [fuel]⟩
  | nfDbg p =>
    simp only [stepLP, hn']
    refine ⟨⟨hn, rfl, fun _ => hw rfl, ?_⟩, by simp [fuel]⟩
    intro p' i h; cases h; exact hsc
  | probe p i =>
    have hi' := hi p i rfl
    simp only [stepLP]
    split
    · exact ⟨⟨hn, rfl, fun _ => hw rfl, by intro p' i' h; cases h⟩, by simp only [fuel]; omega⟩
    · split
      · rename_i h2
        refine ⟨⟨hn, rfl, fun _ => hw rfl, ?_⟩, by simp only [fuel]; omega⟩
        intro p' i' h; cases h; exact h2
      · exact ⟨⟨hn, rfl, fun _ => hw rfl, by intro p' i' h; cases h⟩, by simp only [fuel]; omega⟩
  | pswap p idx =>
    simp only [stepLP]
    exact ⟨⟨hn, rfl, fun _ => hw rfl, by intro p' i' h; cases h⟩, by simp [fuel]⟩
  | a3 p idx =>
    simp only [stepLP]
    split
    · split
      · exact ⟨⟨hn, rfl, fun h => by simp [preGen] at h, by intro p' i' h; cases h⟩, by simp [fuel]⟩
      · exact ⟨⟨hn, rfl, fun _ => hw rfl, by intro p' i' h; cases h⟩, by simp [fuel]⟩
    · exact ⟨⟨hn, rfl, fun h => by simp [preGen] at h, by intro p' i' h; cases h⟩, by simp [fuel]⟩
  | a4 p idx =>
    simp only [stepLP]
    split
    · exact ⟨⟨hn, rfl, fun _ => hw rfl, by intro p' i' h; cases h⟩, by simp [fuel]⟩
    · split
      · exact ⟨⟨hn, rfl, fun _ => hw rfl, by intro p' i' h; cases h⟩, by simp [fuel]⟩
      · exact ⟨⟨hn, rfl, fun _ => hw rfl, by intro p' i' h; cases h⟩, by simp [fuel]⟩
  | a4dec p =>
    simp only [stepLP]
    exact ⟨⟨hn, rfl, fun _ => hw rfl, by intro p' i' h; cases h⟩, by simp [fuel]⟩
  | nhDbg =>
    have := hw rfl
    simp only [stepLP, hn', this, if_false]
    exact ⟨⟨hn, rfl, fun h => by simp [preGen] at h, by intro p' i' h; cases h⟩, by simp [fuel]⟩
  | f1 =>
    simp only [stepLP]
    exact ⟨⟨hn, rfl, fun h => by simp [preGen] at h, by intro p' i' h; cases h⟩, by simp [fuel]⟩
  | f2 g =>
    simp only [stepLP]
    exact ⟨⟨hn, rfl, fun h => by simp [preGen] at h, by intro p' i' h; cases h⟩, by simp [fuel]⟩
  | f3 g =>
    simp only [stepLP]
    split <;> exact ⟨⟨hn, rfl, fun h => by simp [preGen] at h, by intro p' i' h; cases h⟩, by simp [fuel]⟩
  | chDbg g cand =>
    simp only [stepLP, hn']
    exact ⟨⟨hn, rfl, fun h => by simp [preGen] at h, by intro p' i' h; cases h⟩, by simp [fuel]⟩
  | f4 g cand =>
    simp only [stepLP]
    exact ⟨⟨hn, rfl, fun h => by simp [preGen] at h, by intro p' i' h; cases h⟩, by simp [fuel]⟩
  | f5 g cand =>
    simp only [stepLP]
    split
    · split <;> exact ⟨⟨hn, rfl, fun h => by simp [preGen] at h, by intro p' i' h; cases h⟩, by simp [fuel]⟩
    · split
      · exact ⟨⟨hn, rfl, fun h => by simp [preGen] at h, by intro p' i' h; cases h⟩, by simp [fuel]⟩
      · exact ⟨⟨hn, rfl, fun h => by simp [preGen] at h, by intro p' i' h; cases h⟩, by simp [fuel]⟩
  | fokInc cand =>
    simp only [stepLP]
    exact ⟨⟨hn, rfl, fun h => by simp [preGen] at h, by intro p' i' h; cases h⟩, by simp [fuel]⟩
  | fokPay cand =>
    simp only [stepLP]
    split
    · exact ⟨⟨hn, rfl, fun h => by simp [preGen] at h, by intro p' i' h; cases h⟩, by simp [fuel]⟩
    · split <;> exact ⟨⟨hn, rfl, fun h => by simp [preGen] at h, by intro p' i' h; cases h⟩, by simp [fuel]⟩
  | fokDec cand =>
    simp only [stepLP]
    exact ⟨⟨hn, rfl, fun h => by simp [preGen] at h, by intro p' i' h; cases h⟩, by simp [fuel]⟩
  | fr1 cand j =>
    simp only [stepLP]
    split <;> exact ⟨⟨hn, rfl, fun h => by simp [preGen] at h, by intro p' i' h; cases h⟩, by simp [fuel]⟩
  | fr2 cand j r =>
    simp only [stepLP]
    exact ⟨⟨hn, rfl, fun h => by simp [preGen] at h, by intro p' i' h; cases h⟩, by simp [fuel]⟩
  | frPay cand r =>
    simp only [stepLP]
    split
    · exact ⟨⟨hn, rfl, fun h => by simp [preGen] at h, by intro p' i' h; cases h⟩, by simp [fuel]⟩
    · split <;> exact ⟨⟨hn, rfl, fun h => by simp [preGen] at h, by intro p' i' h; cases h⟩, by simp [fuel]⟩
  | frDec cand r =>
    simp only [stepLP]
    exact ⟨⟨hn, rfl, fun h => by simp [preGen] at h, by intro p' i' h; cases h⟩, by simp [fuel]⟩


/-! ## The bound, against an adversary that rewrites the shared state before every reader step -/

def isDone : LP → Bool
  | .done _ _ => true
  | _ => false

/-- Run the reader: before each of its steps the adversary supplies the shared state the step
    will see (and whether a weak compare-exchange fails spuriously). -/
def run (cfg : Cfg) (c : Nat) : List (Shared × Bool) → Locals × LP → Locals × LP
  | [], x => x
  | (s, b) :: rest, x =>
    if isDone x.2 then x
    else
      let r := stepLP cfg c s x.1 b x.2
      run cfg c rest (r.2.1, r.2.2.1)

theorem run_done (cfg : Cfg) (c : Nat) (adv : List (Shared × Bool)) (l : Locals) (lp : LP)
    (h : isDone lp = true) : (run cfg c adv (l, lp)).2 = lp := by
  cases adv with
  | nil => rfl
  | cons a rest => obtain ⟨s, b⟩ := a; simp [run, h]

/-- From a good situation the reader is done after at most `fuel lp` of its own steps, whatever
    the adversary does in between. -/
theorem reaches_done (cfg : Cfg) (c : Nat) :
    ∀ (n : Nat) (adv : List (Shared × Bool)) (l : Locals) (lp : LP),
      fuel lp ≤ n → n ≤ adv.length → Good cfg l lp → isDone (run cfg c adv (l, lp)).2 = true := by
  intro n
  induction n with
  | zero =>
    intro adv l lp hf _ hg
    have hsc := Consts.slotCnt_pos
    cases lp with
    | done p d => rw [run_done _ _ _ _ _ rfl]; rfl
    | get ng => obtain ⟨_, hp, _, _⟩ := hg; simp [onPath] at hp
    | cool cd => obtain ⟨_, hp, _, _⟩ := hg; simp [onPath] at hp
    | reget ng => obtain ⟨_, hp, _, _⟩ := hg; simp [onPath] at hp
    | _ => simp [fuel] at hf <;> omega
  | succ n ih =>
    intro adv l lp hf hl hg
    cases adv with
    | nil => simp at hl
    | cons a rest =>
      obtain ⟨s, b⟩ := a
      by_cases hd : isDone lp = true
      · simp [run, hd]
      · have hnd : ∀ p d, lp ≠ .done p d := by
          intro p d h; subst h; simp [isDone] at hd
        have := step_decreases cfg c s l b lp hg hnd
        simp only [run, hd]
        have hl' : n ≤ rest.length := by simpa using hl
        simp only [Bool.false_eq_true, ↓reduceIte]
        exact ih rest _ _ (by have := this.2; omega) hl' this.1

/-- The bound in scheduling points: `start` is thread-local, every other state is one atomic
    access or one count operation. -/
def bound : Nat := slotCnt + 17

/-- **C08** (wait-freedom of `load`): a thread that owns a node, in a call that does not wrap its
    transaction counter, completes `load` within `bound + 1` machine steps (`bound` accesses) of its
    own, for every behaviour of the rest of the system, on both read paths and whatever the state
    of its slots (any number of guards held). -/
theorem C08_load_wait_free (cfg : Cfg) (c : Nat) (l : Locals) (adv : List (Shared × Bool))
    (hnode : l.node.isSome = true) (hwrap : (l.gen + genStep) % cfg.W ≠ 0)
    (hlen : bound + 1 ≤ adv.length) :
    isDone (run cfg c adv (l, .start)).2 = true := by
  refine reaches_done cfg c (bound + 1) adv l .start (by simp [fuel, bound]) hlen ?_
  exact ⟨hnode, rfl, fun _ => hwrap, by intro p i h; cases h⟩

/-- No step of the load waits: every step from a non-final state changes the program counter
    (there is no state in which the reader spins on a condition another thread must establish). -/
theorem C08_never_waits (cfg : Cfg) (c : Nat) (s : Shared) (l : Locals) (b : Bool) (lp : LP)
    (hg : Good cfg l lp) (hnd : ∀ p d, lp ≠ .done p d) :
    (stepLP cfg c s l b lp).2.2.1 ≠ lp := by
  intro h
  have := (step_decreases cfg c s l b lp hg hnd).2
  rw [h] at this
  exact Nat.lt_irrefl _ this

/-! ### `load_full` = `load` followed by `Guard::into_inner` -/

def fuelGI : GI → Nat
  | .inc .. => 3
  | .pay .. => 2
  | .dec _ => 1
  | .done => 0

theorem gi_step_decreases (s : Shared) (gi : GI) (h : gi ≠ .done) :
    fuelGI (stepGI s gi).2.1 < fuelGI gi := by
  cases gi with
  | inc p n idx => simp [stepGI, fuelGI]
  | pay p n idx =>
    simp only [stepGI]
    split
    · simp [fuelGI]
    · split <;> simp [fuelGI]
  | dec p => simp [stepGI, fuelGI]
  | done => exact absurd rfl h

/-- a guard that still has a debt comes from the confirmed fast path, where at least 14 units of
    fuel are left — more than the 3 steps `into_inner` needs; a guard from the fallback owns its
    reference already and `into_inner` is free. So `load_full` obeys the same bound. -/
theorem into_inner_fits (g : Guard) : fuelGI (GI.ofGuard g) ≤ 3 := by
  unfold GI.ofGuard
  cases g.debt with
  | none => simp [fuelGI]
  | some d => obtain ⟨n, i⟩ := d; simp only; split <;> simp [fuelGI]

theorem debt_only_from_a3 (cfg : Cfg) (c : Nat) (s : Shared) (l : Locals) (b : Bool) (lp : LP)
    (p : Nat) (d : Nat × Nat) (hnd : ∀ p d, lp ≠ .done p d)
    (h : (stepLP cfg c s l b lp).2.2.1 = .done p (some d)) : ∃ q i, lp = .a3 q i := by
  cases lp <;> simp only [stepLP] at h <;> (try (exact ⟨_, _, rfl⟩))
  all_goals (first
    | (exact absurd rfl (hnd _ _))
    | (repeat' split at h) <;> simp_all)

/-- non-vacuity: a thread with a node and a counter far from the wrap satisfies the hypotheses -/
example : ({ node := some 0, gen := 8 } : Locals).node.isSome = true ∧
    ((({ node := some 0, gen := 8 } : Locals).gen + genStep) % (2 ^ 64) ≠ 0) := by decide

end C08
