import ArcSwapModel.Props.C10
import ArcSwapModel.Inv.HazD4

/-!
# C10 — what a guard denotes stays alive: after the container is dropped or consumed, on any
thread, after its creator has exited (partial: the ledger's assumptions)

`Props/C10.lean` is about the guard's debt slot.  Here: the object.  The theorems are those of the
hazard clause of C01 (`Inv/HazD*`), stated for the situations C10 names.  A guard in a register of
the machine belongs to no thread: any thread may use or drop it, and the state in which it is
looked at is any state of any execution — its creator may be inside another operation, between
operations, or have exited.
-/

namespace C10
open M Consts

/-- **a guard stays valid whatever happens to the container and to the other threads** — along
    every execution that satisfies the ledger's assumptions and has raised no fault, the value of
    every guard in a register has a positive count and has not been destroyed; the execution may
    have replaced the value any number of times, consumed the container (`into_inner`) or dropped
    it, and the thread that created the guard may have exited. -/
theorem C10_guard_value_outlives_everything_partial (K N T : Nat) (hK : 0 < K) (cfg : Cfg)
    (progs : Nat → List (String × Op)) (sched : List (Nat × Bool))
    (he : EnvRun0 K N T (State.initial cfg progs) sched)
    (hf : (run (State.initial cfg progs) sched).sh.fault = none)
    (g : Nat) (hg : g < N) (gd : Guard) (hreg : (run (State.initial cfg progs) sched).sh.greg g = some gd)
    (hp : gd.ptr ≠ 0) :
    1 ≤ ((run (State.initial cfg progs) sched).sh.heap gd.ptr).cnt ∧
      ((run (State.initial cfg progs) sched).sh.heap gd.ptr).live = true :=
  guard_value_alive_env K N T hK cfg progs sched he hf gd.ptr hp g hg gd hreg rfl

/-- … in particular in a state in which the container the guard came from has been taken for
    destruction -/
theorem C10_guard_valid_while_container_destroyed_partial (K N T : Nat) (hK : 0 < K) (cfg : Cfg)
    (progs : Nat → List (String × Op)) (sched : List (Nat × Bool))
    (he : EnvRun0 K N T (State.initial cfg progs) sched)
    (hf : (run (State.initial cfg progs) sched).sh.fault = none)
    (g : Nat) (hg : g < N) (gd : Guard) (hreg : (run (State.initial cfg progs) sched).sh.greg g = some gd)
    (hp : gd.ptr ≠ 0) (c : Nat) (_htaken : (run (State.initial cfg progs) sched).ctaken c = true) :
    ((run (State.initial cfg progs) sched).sh.heap gd.ptr).live = true :=
  (guard_value_alive_env K N T hK cfg progs sched he hf gd.ptr hp g hg gd hreg rfl).2

/-- dereferencing it raises no fault, whichever thread does it -/
theorem C10_guard_deref_anywhere_no_fault_partial (K N T : Nat) (hK : 0 < K) (cfg : Cfg)
    (progs : Nat → List (String × Op)) (sched : List (Nat × Bool))
    (he : EnvRun0 K N T (State.initial cfg progs) sched)
    (hf : (run (State.initial cfg progs) sched).sh.fault = none)
    (t g : Nat) (hg : g < N) (b : Bool) (txt : String) (rest : List (String × Op))
    (hidle : ((run (State.initial cfg progs) sched).th t).op = .idle)
    (hprog : ((run (State.initial cfg progs) sched).th t).prog = (txt, .gderef g) :: rest) :
    (microStep (run (State.initial cfg progs) sched) t b).1.sh.fault = none :=
  gderef_no_fault_env K N T hK cfg progs sched he hf t g hg b txt rest hidle hprog

/-- non-vacuity: in the execution `hazSchedD` of `hazExD` thread 0 holds a borrowed guard of value
    1 in register 0 while thread 1 has taken the container for destruction -/
example : (run hazExD hazSchedD).sh.greg 0 = some { ptr := 1, debt := some (0, 0) } ∧
    (run hazExD hazSchedD).ctaken 0 = true := ⟨by decide +kernel, by decide +kernel⟩

end C10
