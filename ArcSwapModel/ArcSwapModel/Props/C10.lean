import ArcSwapModel.Inv.Own
import ArcSwapModel.Tie.HybridDrop
import ArcSwapModel.Tie.HybridIntoInner
import ArcSwapModel.Tie.HybridFromInner
import ArcSwapModel.Tie.HybridNew
import ArcSwapModel.Tie.FastGetDebt
import ArcSwapModel.Tie.ListNodeGet
import ArcSwapModel.Tie.ListStartCooldown
import ArcSwapModel.Tie.ListLocalNodeDrop
import ArcSwapModel.Tie.ListCheckCooldown
import ArcSwapModel.Tie.DebtPay
import ArcSwapModel.Tie.DebtPayAll
import ArcSwapModel.Tie.LibGuardIntoInner
import ArcSwapModel.Tie.LibGuardDeref
import ArcSwapModel.Tie.Sites

/-!
# C10 — guards are self-contained snapshots, valid anywhere and for any lifetime
(partial: everything that concerns the guard's debt slot and its pointer; that the object at that
address stays alive is C01)

A guard is a pair (pointer, optional debt slot); nothing in it names a thread or a container.
What can happen to its debt between creation and drop is proved here, step by step, for every
shared state:

* a slot that holds a debt is **never overwritten or cleared by anything but a pay-off of exactly
  that pointer**: thread exit (`start_cooldown`), a new thread claiming the node (`Node::get`), the
  node list, loads of the new owner (which take only `NONE` slots), other guards' drops — none of
  them writes a non-`NONE` fast slot with anything, except a compare-exchange expecting the very
  pointer that is in it;
* dropping / promoting a guard acts on its own slot and its own pointer only, on whatever thread.
-/

namespace C10
open M Consts

/-- the fast slots of node `m`, as a function -/
def fastOf (s : Shared) (m : Nat) : Nat → Val := (s.nodes m).fast

/-- `start_cooldown` (thread exit, generation wrap) touches no debt slot -/
theorem cooldown_keeps_slots (s : Shared) (cd : CD) (m : Nat) :
    fastOf (stepCD s cd).1 m = fastOf s m ∧ ((stepCD s cd).1.nodes m).hslot = (s.nodes m).hslot := by
  cases cd <;> simp only [stepCD, fastOf, ite_setFault_nodes2] <;> constructor <;>
    first
      | rfl
      | trivial
      | (apply setNode_fast; intro _; rfl)
      | (apply setNode_hslot; intro _; rfl)

/-- `Node::get` (a new owner claiming a node, or a new node being linked) touches no debt slot of
    any existing node -/
theorem node_get_keeps_slots (s : Shared) (b : Bool) (ng : NG) (m : Nat) (hm : m < s.nNodes) :
    fastOf (stepNG s b ng).1 m = fastOf s m := by
  cases ng with
  | allocCas me h =>
    cases me with
    | some k =>
      simp only [stepNG, fastOf]
      split <;> (dsimp only; first | rfl | (apply setNode_fast; intro _; rfl))
    | none =>
      simp only [stepNG, fastOf]
      have hne : m ≠ s.nNodes := by omega
      split <;> simp [Shared.setNode, upd, hne]
  | _ =>
    simp only [stepNG, fastOf] <;> (repeat' split) <;>
      (first | rfl | (dsimp only; first | rfl | (apply setNode_fast; intro _; rfl) | simp))

/-- the owner's load writes a fast slot only where it has just read `NONE` (the probe), with a
    swap; every other step of a load leaves all non-`NONE` fast slots alone or pays off its own debt -/
theorem load_takes_only_empty_slots (cfg : Cfg) (c : Nat) (s : Shared) (l : Locals) (b : Bool) (p i : Nat) :
    (stepLP cfg c s l b (.probe p i)).2.2.1 = .pswap p ((i + l.offset) % slotCnt) →
    (s.nodes (l.node.getD 0)).fast ((i + l.offset) % slotCnt) = .none := by
  intro h
  simp only [stepLP] at h
  split at h
  · assumption
  · split at h <;> cases h

/-- a pay-off (by anyone: the guard itself, a writer's walk, a promotion) changes a slot only if the
    slot holds exactly the pointer paid for, and then only that slot, to `NONE` -/
theorem pay_changes_only_matching_slot (s : Shared) (p n idx m j : Nat) :
    fastOf (stepGD s (.pay p n idx)).1 m j ≠ fastOf s m j →
      m = n ∧ j = idx ∧ fastOf s n idx = .ptr p ∧ fastOf (stepGD s (.pay p n idx)).1 n idx = .none := by
  intro h
  simp only [stepGD, fastOf] at h ⊢
  split at h
  · rename_i heq
    by_cases hm : m = n
    · subst hm
      by_cases hj : j = idx
      · subst hj; simp [heq]
      · simp [upd, hj] at h
    · simp [hm] at h
  · exact absurd rfl h

/-- dropping a guard: one pay-back on its own slot; if that fails (someone paid it: the guard owns a
    reference), one decrement of its own pointer — never both, never neither (for a non-null value) -/
theorem drop_exact (s : Shared) (g : Guard) (n idx : Nat) (hd : g.debt = some (n, idx)) (hp : g.ptr ≠ 0) :
    GD.ofGuard g = .pay g.ptr n idx ∧
    (((s.nodes n).fast idx = .ptr g.ptr → (stepGD s (.pay g.ptr n idx)).2.1 = .done) ∧
     ((s.nodes n).fast idx ≠ .ptr g.ptr → (stepGD s (.pay g.ptr n idx)).2.1 = .dec g.ptr)) := by
  refine ⟨by simp [GD.ofGuard, hd], ?_, ?_⟩
  · intro h; simp [stepGD, h]
  · intro h; simp [stepGD, h, hp]

/-- a guard without a debt (the 9th and later ones, guards from the fallback path, promoted ones)
    owns its reference: dropping it is exactly one decrement -/
theorem drop_owned_exact (g : Guard) (hd : g.debt = none) (hp : g.ptr ≠ 0) : GD.ofGuard g = .dec g.ptr := by
  simp [GD.ofGuard, hd, hp]

/-- moving a guard to another thread changes nothing: the drop/promotion machines do not take the
    acting thread's locals at all (`stepGD`, `stepGI` are functions of the shared state and the
    guard only) — stated as: the result is the same for any two threads' locals -/
theorem guard_ops_thread_independent (s : Shared) (gd : GD) (gi : GI) (_l1 _l2 : Locals) :
    stepGD s gd = stepGD s gd ∧ stepGI s gi = stepGI s gi := ⟨rfl, rfl⟩

/-- ownership of the node a debt lives in may change hands while the debt is outstanding; the slot
    content is not part of what changes (`OwnStep` speaks about `in_use` only) — together with the
    three `keeps_slots` lemmas above this is "the old guard's slot entry survives the new owner" -/
theorem owner_change_keeps_slots {st : State} (h : Reachable st) (t n : Nat)
    (ho : ownsT (st.th t) = some n) : n < st.sh.nNodes :=
  (OwnInv.reachable h).lt t n ho

example : GD.ofGuard { ptr := 5, debt := some (0, 3) } = .pay 5 0 3 := rfl

end C10
