import ArcSwapModel.Inv.Check
import ArcSwapModel.Tie.ListNodeGet
import ArcSwapModel.Tie.ListCheckCooldown
import ArcSwapModel.Tie.ListStartCooldown
import ArcSwapModel.Tie.ListReserveWriter
import ArcSwapModel.Tie.ListReservationDrop
import ArcSwapModel.Tie.ListTraverse
import ArcSwapModel.Tie.ListWith
import ArcSwapModel.Tie.ListLocalNodeDrop
import ArcSwapModel.Tie.ListNewHelping
import ArcSwapModel.Tie.ListHelp
import ArcSwapModel.Tie.DebtPayAll
import ArcSwapModel.Tie.Sites
import ArcSwapModel.Inv.Named

/-!
# C11 — thread churn: bookkeeping is reused, never shared
(exclusivity and reuse proved; the unconditional bound is refuted — known finding, see DESIGN §9 D2)

`Reachable` ranges over every execution of `M`: any number of threads starting, using containers and
exiting in any pattern (thread exit sends the node to cooldown; the wrap of the transaction counter
too), writers walking the list at the very moment a node's owner exits or a new owner claims it,
any schedule.
-/

namespace C11
open M Consts

/-- **Never used by two threads at a time**: in every reachable state no node is owned by two
    threads — where "owned" is the right to publish debts and generations in it (the node of the
    thread's `LocalNode`, from the claiming compare-exchange or the allocation until
    `start_cooldown`'s swap). -/
theorem C11_exclusive {st : State} (h : Reachable st) (t t' n : Nat) (hne : t ≠ t')
    (ho : ownsT (st.th t) = some n) : ownsT (st.th t') ≠ some n :=
  (OwnInv.reachable h).excl t t' n hne ho

/-- an owned node exists in the list bookkeeping and is marked `NODE_USED` -/
theorem C11_owned_in_use {st : State} (h : Reachable st) (t n : Nat) (ho : ownsT (st.th t) = some n) :
    n < st.sh.nNodes ∧ (st.sh.nodes n).inUse = nodeUsed :=
  ⟨(OwnInv.reachable h).lt t n ho, (OwnInv.reachable h).used t n ho⟩

/-- **Released bookkeeping is reused** (the step-level facts): a node found `NODE_UNUSED` by the
    claiming compare-exchange is taken and nothing is allocated; a node found in cooldown with no
    writer inside is released for reuse. -/
theorem C11_claim_reuses (s : Shared) (b : Bool) (n : Nat) (h : (s.nodes n).inUse = nodeUnused) :
    (stepNG s b (.claim n)).2.1 = .done n ∧ (stepNG s b (.claim n)).1.nNodes = s.nNodes := by
  simp [stepNG, h]

theorem C11_cooldown_released (s : Shared) (b : Bool) (n : Nat)
    (h : (s.nodes n).inUse = nodeCooldown) (hw : (s.nodes n).writers = 0) :
    (stepNG s b (.cc0 n)).2.1 = .cc1 n ∧ ((stepNG s b (.cc0 n)).1.nodes n).inUse = nodeChecking ∧
    (stepNG s b (.cc1 n)).2.1 = .cc2 n true ∧
    ((s.nodes n).inUse = nodeChecking → ((stepNG s b (.cc2 n true)).1.nodes n).inUse = nodeUnused) := by
  refine ⟨by simp [stepNG, h], by simp [stepNG, h], by simp [stepNG, hw], fun hc => by simp [stepNG, hc]⟩

/-- … and with a writer inside it goes back to the cooldown: the check holds the node in a state of
    its own meanwhile, in which nobody can claim it -/
theorem C11_cooldown_kept_while_writer_inside (s : Shared) (b : Bool) (n : Nat)
    (hw : (s.nodes n).writers ≠ 0) (hc : (s.nodes n).inUse = nodeChecking) :
    (stepNG s b (.cc1 n)).2.1 = .cc2 n false ∧ ((stepNG s b (.cc2 n false)).1.nodes n).inUse = nodeCooldown ∧
    (stepNG s b (.claim n)).2.1 ≠ .done n := by
  refine ⟨by simp [stepNG, hw], by simp [stepNG, hc], ?_⟩
  have : (s.nodes n).inUse ≠ nodeUnused := by rw [hc]; exact Consts.node_checking_distinct.2.1
  simp only [stepNG, this, ↓reduceIte, NG.afterNode]
  split <;> simp

/-- a node is allocated only by a `Node::get` whose walk found no node it could claim: every
    allocation step is preceded, in that call, by the end of the list (`allocLoad` is entered from
    `afterNode` of the last node or from an empty list only) -/
theorem C11_alloc_only_after_walk (s : Shared) (b : Bool) (ng : NG)
    (h : (stepNG s b ng).2.1 = .allocLoad) :
    (ng = .trav ∧ s.head = none) ∨ (∃ n, ng = .claim n ∧ (s.nodes n).inUse ≠ nodeUnused ∧ (s.nodes n).next = none) := by
  cases ng <;> simp only [stepNG] at h
  · left; cases hh : s.head <;> simp_all
  · split at h <;> cases h
  · cases h
  · split at h <;> cases h
  · rename_i n
    right
    split at h
    · cases h
    · rename_i hne
      refine ⟨n, rfl, hne, ?_⟩
      simp only [NG.afterNode] at h
      cases hn : (s.nodes n).next <;> simp_all
  · cases h
  · (repeat' split at h) <;> cases h
  · cases h

/-!
**The bound.**  The statement "the number of nodes is bounded by the peak number of threads alive"
is *false* for some schedules: a writer that walks the list in lockstep just ahead of a newly started
thread holds `active_writers = 1` on each node in cooldown exactly when the newcomer inspects it,
so the newcomer allocates although released nodes exist (`C11_alloc_only_after_walk` says when an
allocation happens; `check_cooldown` refuses a node with a writer inside by design — that is the
ABA protection).  The schedule is replayed on the real crate (`scenarios/d2_lockstep.txt`) and
recorded as the known finding `writer-lockstep-node-get`.  What is enforced on every execution is
the conditional statement: a `Node::get` that never observed a writer inside a node in cooldown
allocates only when every node was in use.
-/

/-! ## The check for the end of a cooldown holds its node (`Inv/Check.lean`; repair of D12) -/

/-- **a node under check is used by nobody else**: in every reachable state, a node that some
    `Node::get` has taken out of cooldown to look at its `active_writers` is in the checking state,
    is held by that one thread, is owned by nobody and can be neither claimed nor sent to cooldown
    — so between the look at the writers and the release it cannot go through another round of
    ownership -/
theorem C11_check_holds_its_node {st : State} (h : Reachable st) (t n : Nat) (hc : (st.th t).op.chk = some n) :
    (st.sh.nodes n).inUse = nodeChecking ∧ (∀ t', t' ≠ t → (st.th t').op.chk ≠ some n) ∧
      (∀ t', ownsT (st.th t') ≠ some n) := by
  have hi := CheckInv.reachable h
  exact ⟨hi.held t n hc, fun t' ht' => hi.excl t t' n (fun e => ht' e.symm) hc,
    (checked_node_is_nobodys hi (OwnInv.reachable h) t n hc).1⟩

/-! ## The list itself (`Inv/ListInv.lean`) -/

/-- **the bookkeeping is a list, in every reachable state**: `LIST_HEAD` and the `next` pointers form
    a chain without repetition over nodes that exist, and no thread's allocated-but-unlinked node
    is on it -/
theorem C11_nodes_form_a_list {st : State} (h : Reachable st) : ∃ L, ListInv st L :=
  ListInv.reachable h

/-- **prepend-only**: along any continuation of any execution the list only grows at the front: a
    node once linked stays linked, behind the same successors, whoever owns it and however often it
    is released and re-claimed -/
theorem C11_list_prepend_only {st : State} {L : List Nat} (h : ListInv st L) (ho : OwnInv st)
    (sched : List (Nat × Bool)) : ∃ pre, ListInv (run st sched) (pre ++ L) :=
  h.run ho sched

/-- one step of any thread leaves the list alone or prepends one node -/
theorem C11_step_prepends_at_most_one {st : State} {L : List Nat} (h : ListInv st L) (ho : OwnInv st) (t : Nat) (b : Bool) :
    ListInv (microStep st t b).1 L ∨ ∃ k, k ∉ L ∧ ListInv (microStep st t b).1 (k :: L) :=
  h.step ho t b

/-- the list is acyclic and no longer than the number of nodes ever named -/
theorem C11_list_acyclic_and_bounded {st : State} {L : List Nat} (h : ListInv st L) :
    L.Nodup ∧ L.length ≤ st.sh.nNodes :=
  ⟨chainFrom_nodup h.1, h.length_le⟩

example : (State.initial {} (fun _ => [])).sh.nNodes = 0 := rfl

/-- **every thread's node is linked**: in every reachable state the node a thread holds is on the
    list — so a writer's walk, which follows the list from its head, comes past it -/
theorem C11_thread_node_on_list {st : State} (h : Reachable st) :
    ∃ L, ListInv st L ∧ ∀ t n, (st.th t).loc.node = some n → n ∈ L :=
  thread_node_on_list h

/-- **a debt slot that names a value belongs to a linked node**: in every reachable state -/
theorem C11_named_slot_on_list {st : State} (h : Reachable st) :
    ∃ L, ListInv st L ∧ ∀ n i, (st.sh.nodes n).fast i ≠ .none → n ∈ L := by
  obtain ⟨L, hL⟩ := NamedLinked.reachable h
  exact ⟨L, hL.linked.list, hL.named⟩

end C11
