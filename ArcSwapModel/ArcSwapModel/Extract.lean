import ArcSwapModel.Sexp
import ArcSwapModel.Generated.All

/-!
# Extraction from the generated trees

Everything here is a total function evaluated by the kernel (`decide`) on the trees that
`rs2lean` printed from the *current* source.  The model takes its constants, orderings, skeletons
and the bodies of the small trait impls from here *by name*, so that a change in the source changes
a definition some theorem or tie obligation mentions.
-/

namespace Extract
open S

/-! ## Lookup -/

def itemName (s : S) : Option String := (s.kid 0).atom?

/-- The items of one source file (path relative to `src/`). -/
def fileItems (file : String) : List S :=
  match Generated.files.find? (fun p => p.1 == file) with
  | some p => p.2
  | none => []

/-- A tagged item (`fn`, `const`, `structdef`, …) by file and qualified name. -/
def findItem (tag file name : String) : Option S :=
  (fileItems file).find? (fun s => s.isTag tag && itemName s == some name)

/-- Body (`block` node) of a function. -/
def fnBody (file name : String) : Option S :=
  (findItem "fn" file name).map (fun s => s.kid 3)

def fnNames (file : String) : List String :=
  (fileItems file).filterMap (fun s => if s.isTag "fn" then itemName s else none)

/-! ## Integer literals (Rust syntax → `Nat`), on `List Char` so that the kernel can reduce it -/

def digitVal (c : Char) : Option Nat :=
  if '0' ≤ c ∧ c ≤ '9' then some (c.toNat - '0'.toNat)
  else if 'a' ≤ c ∧ c ≤ 'f' then some (c.toNat - 'a'.toNat + 10)
  else if 'A' ≤ c ∧ c ≤ 'F' then some (c.toNat - 'A'.toNat + 10)
  else none

/-- Digits in `base`, `_` ignored, stops at the first non-digit (a type suffix such as `usize`). -/
def parseDigits (base : Nat) : List Char → Nat → Bool → Option Nat
  | [], acc, seen => if seen then some acc else none
  | c :: cs, acc, seen =>
    if c = '_' then parseDigits base cs acc seen
    else match digitVal c with
      | some d => if d < base then parseDigits base cs (acc * base + d) true
                  else if seen then some acc else none
      | none => if seen then some acc else none

def parseNatLit (s : String) : Option Nat :=
  match s.toList with
  | '0' :: 'b' :: cs => parseDigits 2 cs 0 false
  | '0' :: 'x' :: cs => parseDigits 16 cs 0 false
  | '0' :: 'o' :: cs => parseDigits 8 cs 0 false
  | cs => parseDigits 10 cs 0 false

/-- Value of `const NAME: _ = <integer literal>;` -/
def constNat (file name : String) : Option Nat := do
  let c ← findItem "const" file name
  let e := c.kid 2
  if e.isTag "lit" then parseNatLit ((e.kid 0).atom?.getD "") else none

/-- Value of `const NAME: bool = true|false;` (associated consts are named `<T as Trait>::NAME`). -/
def constBool (file name : String) : Option Bool := do
  let c ← findItem "const" file name
  let e := c.kid 2
  if e.isTag "lit" then
    match (e.kid 0).atom? with
    | some "true" => some true
    | some "false" => some false
    | _ => none
  else none

/-! ## Atomic call sites -/

inductive Ord where
  | relaxed | acquire | release | acqRel | seqCst
  deriving DecidableEq, Repr, Inhabited

/-- `a ⊒ b`: ordering `a` is at least as strong as `b` (the usual lattice; Acquire and Release
    are incomparable). -/
def Ord.ge : Ord → Ord → Bool
  | _, .relaxed => true
  | .seqCst, _ => true
  | .acqRel, .acquire => true
  | .acqRel, .release => true
  | .acqRel, .acqRel => true
  | .acquire, .acquire => true
  | .release, .release => true
  | _, _ => false

def isSuffix (suf l : List Char) : Bool := suf.isSuffixOf l

def ordOfAtom (s : String) : Option Ord :=
  let cs := s.toList
  if isSuffix "SeqCst".toList cs then some .seqCst
  else if isSuffix "AcqRel".toList cs then some .acqRel
  else if isSuffix "Acquire".toList cs then some .acquire
  else if isSuffix "Release".toList cs then some .release
  else if isSuffix "Relaxed".toList cs then some .relaxed
  else none

def ordOfExpr (e : S) : Option Ord :=
  if e.isTag "path" then (e.kid 0).atom?.bind ordOfAtom else none

structure Site where
  op : String
  /-- canonical token text of the receiver expression, e.g. `["field","path","self","control"]` -/
  recv : List String
  ords : List Ord
  deriving DecidableEq, Repr, Inhabited

def atomicOps : List String :=
  ["load", "store", "swap", "compare_exchange", "compare_exchange_weak", "fetch_add", "fetch_sub",
   "fetch_or", "fetch_and", "fetch_update", "fetch_max", "fetch_min", "fetch_xor", "fetch_nand"]

/-- A method call whose name is an atomic operation and which is given at least one
    `Ordering` argument. -/
def siteOf (s : S) : Option Site :=
  if s.isTag "mcall" then
    match s.kids with
    | nm :: rest =>
      let name := nm.atom?.getD ""
      -- skip an optional turbofish
      let rest := match rest with
        | t :: r => if t.isTag "turbofish" then r else t :: r
        | [] => []
      match rest with
      | recv :: args =>
        let ords := args.filterMap ordOfExpr
        if atomicOps.contains name && !ords.isEmpty then
          some { op := name, recv := recv.atoms.filter (fun t => t != "path" && t != "field"), ords := ords }
        else none
      | [] => none
    | [] => none
  else none

/-- Atomic call sites of a tree, in source (evaluation) order. -/
def sites (s : S) : List Site := s.collect siteOf

def fnSites (file name : String) : List Site :=
  match fnBody file name with
  | some b => sites b
  | none => []

/-- Every atomic call site of the crate: (file, function, ordinal, site). -/
def allSites : List (String × String × Nat × Site) :=
  Generated.files.flatMap fun (file, items) =>
    items.flatMap fun it =>
      if it.isTag "fn" then
        let nm := (itemName it).getD ""
        let rec number (k : Nat) : List Site → List (String × String × Nat × Site)
          | [] => []
          | x :: xs => (file, nm, k, x) :: number (k + 1) xs
        number 0 (sites (it.kid 3))
      else []

/-! ## Skeletons

The *shape* of a function: which atomic operations, calls, branches, loops, returns and panic
sites occur, in source order, with branch conditions and match patterns kept as canonical token
text.  Local variable names inside `let` patterns and plain expressions without calls are dropped.
-/

def panicMacros : List String :=
  ["assert", "assert_eq", "assert_ne", "unreachable", "panic", "unimplemented", "todo"]
def debugMacros : List String :=
  ["debug_assert", "debug_assert_eq", "debug_assert_ne"]

/-- Skeleton of a tree as a flat list of tokens in prefix notation. -/
def skel : S → List String
  | a _ => []
  | nil => []
  | cons h t => skel h ++ skel t
  | n tg k =>
    match tg with
    | "mcall" =>
      match siteOf (n tg k) with
      | some st => skel k ++ ["atomic:" ++ st.op ++ ":" ++ String.intercalate "." st.recv]
      | none => skel k ++ ["mcall:" ++ ((toList k).head?.bind atom?).getD ""]
    | "call" =>
      let f := (toList k).head?.getD nil
      skel k ++ ["call:" ++ String.intercalate "" (f.atoms.filter (· != "path"))]
    | "if" => ["if("] ++ ((toList k).head?.getD nil).atoms ++ [")"] ++ skel k ++ ["endif"]
    | "iflet" => ["iflet"] ++ skel k
    | "match" => ["match("] ++ skel k ++ ["endmatch"]
    | "arm" => ["arm:" ++ String.intercalate " " (((toList k).head?.getD nil).atoms.drop 1)] ++ skel k
    | "guard" => ["guard:" ++ String.intercalate " " (atoms k)] ++ skel k
    | "loop" => ["loop("] ++ skel k ++ ["endloop"]
    | "while" => ["while("] ++ skel k ++ ["endwhile"]
    | "for" => ["for("] ++ skel k ++ ["endfor"]
    | "closure" => ["closure("] ++ skel k ++ ["endclosure"]
    | "return" => skel k ++ ["return"]
    | "break" => skel k ++ ["break"]
    | "continue" => ["continue"]
    | "try" => skel k ++ ["?"]
    | "macro" =>
      let nm := ((toList k).head?.bind atom?).getD ""
      if panicMacros.contains nm then skel k ++ ["panic:" ++ nm]
      else if debugMacros.contains nm then skel k ++ ["debug:" ++ nm]
      else skel k ++ ["macro:" ++ nm]
    | "pat" => []
    | "lit" => []
    | "path" => []
    | "turbofish" => []
    | _ => skel k

def fnSkel (file name : String) : List String :=
  match fnBody file name with
  | some b => skel b
  | none => ["<missing>"]

/-! ## Panic sites -/

def panicSiteOf (s : S) : Option String :=
  if s.isTag "macro" then
    let nm := (s.kid 0).atom?.getD ""
    if panicMacros.contains nm then some (nm ++ "!") else none
  else if s.isTag "mcall" then
    let nm := (s.kid 0).atom?.getD ""
    if nm == "expect" || nm == "unwrap" then some ("." ++ nm) else none
  else if s.isTag "index" then some "[]"
  else none

def debugSiteOf (s : S) : Option String :=
  if s.isTag "macro" then
    let nm := (s.kid 0).atom?.getD ""
    if debugMacros.contains nm then some (nm ++ "!") else none
  else none

def fnPanicSites (file name : String) : List String :=
  match fnBody file name with
  | some b => b.collect panicSiteOf
  | none => ["<missing>"]

def fnDebugSites (file name : String) : List String :=
  match fnBody file name with
  | some b => b.collect debugSiteOf
  | none => ["<missing>"]

end Extract
