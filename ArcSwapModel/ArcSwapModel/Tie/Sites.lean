import ArcSwapModel.M.Machine

/-!
# Tie obligations: the atomic call sites of `M` against the generated trees

Checked by the kernel on every run, against what `rs2lean` printed from the current source.
-/

namespace Tie.Sites
open Extract

/-- the source parsed completely -/
theorem no_parse_failures : Generated.parseFailures = [] := by decide

/-! ## Sites: every atomic access of the machine exists in the source with the operation and the
orderings the machine (and the ordering lemmas) assume -/

structure SiteSpec where
  file : String
  fn : String
  idx : Nat
  op : String
  ords : List Ord
  deriving DecidableEq, Repr

open M in
def spec : M.Site → SiteSpec
  | .attempt0 => ⟨"strategy/hybrid.rs", "HybridProtection<T>::attempt", 0, "load", [.relaxed]⟩
  | .attempt1 => ⟨"strategy/hybrid.rs", "HybridProtection<T>::attempt", 1, "load", [.seqCst]⟩
  | .fallback0 => ⟨"strategy/hybrid.rs", "HybridProtection<T>::fallback", 0, "load", [.seqCst]⟩
  | .casCx => ⟨"strategy/hybrid.rs", "<HybridStrategy<Cfg> as CaS<T>>::compare_and_swap", 0, "compare_exchange_weak", [.seqCst, .relaxed]⟩
  | .swap0 => ⟨"lib.rs", "ArcSwapAny<T,S>::swap", 0, "swap", [.seqCst]⟩
  | .fastGet0 => ⟨"debt/fast.rs", "Slots::get_debt", 0, "load", [.relaxed]⟩
  | .fastGet1 => ⟨"debt/fast.rs", "Slots::get_debt", 1, "swap", [.seqCst]⟩
  | .helpGet0 => ⟨"debt/helping.rs", "Slots::get_debt", 0, "store", [.seqCst]⟩
  | .helpGet1 => ⟨"debt/helping.rs", "Slots::get_debt", 1, "swap", [.seqCst]⟩
  | .help0 => ⟨"debt/helping.rs", "Slots::help", 0, "load", [.relaxed]⟩
  | .help1 => ⟨"debt/helping.rs", "Slots::help", 1, "load", [.seqCst]⟩
  | .help2 => ⟨"debt/helping.rs", "Slots::help", 2, "load", [.seqCst]⟩
  | .help3 => ⟨"debt/helping.rs", "Slots::help", 3, "load", [.seqCst]⟩
  | .help4 => ⟨"debt/helping.rs", "Slots::help", 4, "load", [.seqCst]⟩
  | .help5 => ⟨"debt/helping.rs", "Slots::help", 5, "load", [.seqCst]⟩
  | .help6 => ⟨"debt/helping.rs", "Slots::help", 6, "store", [.seqCst]⟩
  | .help7 => ⟨"debt/helping.rs", "Slots::help", 7, "compare_exchange", [.seqCst, .seqCst]⟩
  | .help8 => ⟨"debt/helping.rs", "Slots::help", 8, "store", [.seqCst]⟩
  | .confirm0 => ⟨"debt/helping.rs", "Slots::confirm", 0, "swap", [.seqCst]⟩
  | .confirm1 => ⟨"debt/helping.rs", "Slots::confirm", 1, "swap", [.seqCst]⟩
  | .confirm2 => ⟨"debt/helping.rs", "Slots::confirm", 2, "load", [.seqCst]⟩
  | .confirm3 => ⟨"debt/helping.rs", "Slots::confirm", 3, "store", [.seqCst]⟩
  | .resDrop => ⟨"debt/list.rs", "<NodeReservation<'_> as Drop>::drop", 0, "fetch_sub", [.release]⟩
  | .traverse0 => ⟨"debt/list.rs", "Node::traverse", 0, "load", [.seqCst]⟩
  | .cooldown0 => ⟨"debt/list.rs", "Node::start_cooldown", 0, "swap", [.release]⟩
  | .cc0 => ⟨"debt/list.rs", "Node::check_cooldown", 0, "compare_exchange", [.acquire, .relaxed]⟩
  | .cc1 => ⟨"debt/list.rs", "Node::check_cooldown", 1, "load", [.relaxed]⟩
  | .cc2 => ⟨"debt/list.rs", "Node::check_cooldown", 2, "compare_exchange", [.relaxed, .relaxed]⟩
  | .reserve0 => ⟨"debt/list.rs", "Node::reserve_writer", 0, "fetch_add", [.acquire]⟩
  | .get0 => ⟨"debt/list.rs", "Node::get", 0, "compare_exchange", [.seqCst, .relaxed]⟩
  | .get1 => ⟨"debt/list.rs", "Node::get", 1, "load", [.relaxed]⟩
  | .get2 => ⟨"debt/list.rs", "Node::get", 2, "compare_exchange_weak", [.seqCst, .relaxed]⟩
  | .newFast0 => ⟨"debt/list.rs", "LocalNode::new_fast", 0, "load", [.relaxed]⟩
  | .newHelping0 => ⟨"debt/list.rs", "LocalNode::new_helping", 0, "load", [.relaxed]⟩
  | .confirmHelping0 => ⟨"debt/list.rs", "LocalNode::confirm_helping", 0, "load", [.relaxed]⟩
  | .lnHelp0 => ⟨"debt/list.rs", "LocalNode::help", 0, "load", [.relaxed]⟩
  | .pay0 => ⟨"debt/mod.rs", "Debt::pay", 0, "compare_exchange", [.acqRel, .acquire]⟩

def allModelSites : List M.Site :=
  [.attempt0, .attempt1, .fallback0, .casCx, .swap0, .fastGet0, .fastGet1, .helpGet0, .helpGet1,
   .help0, .help1, .help2, .help3, .help4, .help5, .help6, .help7, .help8,
   .confirm0, .confirm1, .confirm2, .confirm3, .resDrop, .traverse0, .cooldown0, .cc0, .cc1, .cc2,
   .reserve0, .get0, .get1, .get2, .newFast0, .newHelping0, .confirmHelping0, .lnHelp0, .pay0]

theorem allModelSites_complete (s : M.Site) : s ∈ allModelSites := by
  cases s <;> decide

/-- the site exists in the current source, with the same operation, and every ordering there is at
    least as strong as the one recorded here -/
def siteOk (s : M.Site) : Bool :=
  let sp := spec s
  match (fnSites sp.file sp.fn)[sp.idx]? with
  | some st => st.op == sp.op && st.ords.length == sp.ords.length &&
      (List.zip st.ords sp.ords).all (fun p => p.1.ge p.2)
  | none => false

def siteMismatches : List M.Site := allModelSites.filter (fun s => !siteOk s)

theorem sites_match : siteMismatches = [] := by decide

end Tie.Sites
