import ArcSwapModel.AutoTraitsExtract
import ArcSwapModel.AutoTraitsTable
/-! Tie obligation for C19: the struct table the auto-trait verdicts were proved for is the one the
current source gives (struct definitions with field types, explicit `Send`/`Sync` impls, type
aliases, associated-type definitions). -/
namespace Tie.AutoTraitsTable
theorem table_tie : AutoTraits.extractTable = AutoTraits.Golden.table := by decide
end Tie.AutoTraitsTable
