/-!
# `CacheM`: one `Cache` over an atomic pointer cell, with address reuse and an arbitrary environment

The container is one cell holding (the address of) an object; objects have identities (`Nat`) and
addresses; an address may be given to a new object only when no live object has it.  The cache
under test holds one reference to `cached`.  Everything else that can own references — other
caches, their clones, mapped caches (which wrap a cache), guards, user handles — is the
*environment*: it may take a further reference to any live object and give back what it took.

`Cache::load` is `revalidate(); &self.cached`, and `revalidate` is, as in `src/cache.rs`,

    let cached_ptr = as_ptr(&self.cached);
    let shared_ptr = self.arc_swap.ptr.load(Relaxed);                      -- event `peek`
    if cached_ptr != shared_ptr { self.cached = self.arc_swap.load_full(); }  -- event `finish`

with any number of environment events between the two.  `load_full` is one event here (its own
linearizability is C03; the environment may act before it).
-/

namespace CacheM

def upd {α : Type} (f : Nat → α) (i : Nat) (v : α) : Nat → α := fun j => if j = i then v else f j
@[simp] theorem upd_same {α} (f : Nat → α) (i : Nat) (v : α) : upd f i v i = v := by simp [upd]
@[simp] theorem upd_other {α} (f : Nat → α) (i j : Nat) (v : α) (h : j ≠ i) : upd f i v j = f j := by
  simp [upd, h]

structure State where
  n : Nat                         -- number of objects allocated so far (ids `0 … n-1`)
  addr : Nat → Nat
  owners : Nat → Nat              -- strong count of each object
  cur : Nat                       -- the object the cell holds
  hist : List Nat                 -- ghost: every object ever installed, newest first
  cached : Nat                    -- the object the cache holds a reference to
  pending : Option Bool           -- between `peek` and `finish`: is a reload due?
  lastIdx : Nat                   -- ghost: `hist.length` at the instant the last returned value was current
  others : Nat → Nat              -- references held by the environment
  callStart : Nat                 -- ghost: `hist.length` when the current/last `Cache::load` started

inductive Ev where
  | storeNew (a : Nat)            -- store a freshly allocated object at address `a`
  | storeOld (i : Nat)            -- store again an object the environment still owns
  | envInc (i : Nat)              -- the environment clones a reference to a live object
  | envDec (i : Nat)              -- the environment drops one of its references
  | peek
  | finish
  deriving DecidableEq, Repr

/-- no live object has address `a` -/
def addrFree (s : State) (a : Nat) : Prop := ∀ i, i < s.n → 0 < s.owners i → s.addr i ≠ a

/-- the cell's reference moves from the current object to `i` -/
def install (s : State) (i : Nat) : State :=
  let ow := upd s.owners i (s.owners i + 1)
  { s with owners := upd ow s.cur (ow s.cur - 1), cur := i, hist := i :: s.hist }

/-- the step relation (an event may be disabled; `ret` is what `Cache::load` returns at `finish`) -/
inductive Step : State → Ev → State → Option Nat → Prop
  | storeNew (s : State) (a : Nat) (h : addrFree s a) :
      Step s (.storeNew a)
        (install { s with n := s.n + 1, addr := upd s.addr s.n a, owners := upd s.owners s.n 0 } s.n) none
  | storeOld (s : State) (i : Nat) (hi : i < s.n) (h : 0 < s.others i) :
      Step s (.storeOld i) (install s i) none
  | envInc (s : State) (i : Nat) (hi : i < s.n) (h : 0 < s.owners i) :
      Step s (.envInc i) { s with owners := upd s.owners i (s.owners i + 1), others := upd s.others i (s.others i + 1) } none
  | envDec (s : State) (i : Nat) (hi : i < s.n) (h : 0 < s.others i) :
      Step s (.envDec i) { s with owners := upd s.owners i (s.owners i - 1), others := upd s.others i (s.others i - 1) } none
  | peekSame (s : State) (hp : s.pending = none) (h : s.addr s.cached = s.addr s.cur) :
      Step s .peek { s with pending := some false, lastIdx := s.hist.length, callStart := s.hist.length } none
  | peekDiff (s : State) (hp : s.pending = none) (h : s.addr s.cached ≠ s.addr s.cur) :
      Step s .peek { s with pending := some true, callStart := s.hist.length } none
  | finishSame (s : State) (hp : s.pending = some false) :
      Step s .finish { s with pending := none } (some s.cached)
  | finishReload (s : State) (hp : s.pending = some true) :
      -- `self.cached = load_full()`: a reference to the current object, the old one released
      Step s .finish
        (let ow := upd s.owners s.cur (s.owners s.cur + 1)
         { s with owners := upd ow s.cached (ow s.cached - 1), cached := s.cur, pending := none,
                  lastIdx := s.hist.length })
        (some s.cur)

/-- initial state: one object at address `a0`, stored in the cell; the cache was just created by
    `Cache::new` (a `load_full`) -/
def init (a0 : Nat) : State :=
  { n := 1, addr := fun _ => a0, owners := fun i => if i = 0 then 2 else 0, cur := 0, hist := [0],
    cached := 0, pending := none, lastIdx := 1, others := fun _ => 0, callStart := 1 }

inductive Reachable (a0 : Nat) : State → Prop
  | init : Reachable a0 (init a0)
  | step {s s' e r} : Reachable a0 s → Step s e s' r → Reachable a0 s'

/-- the object that was current when the history had length `k` (`k ≥ 1`) -/
def atLen (hist : List Nat) (k : Nat) : Option Nat := hist[hist.length - k]?

end CacheM

namespace CacheM

/-! ## Executable version (for the correspondence), sound w.r.t. `Step` -/

def addrFreeB (s : State) (a : Nat) : Bool :=
  (List.range s.n).all fun i => s.owners i = 0 || s.addr i ≠ a

theorem addrFreeB_sound (s : State) (a : Nat) (h : addrFreeB s a = true) : addrFree s a := by
  intro i hi ho
  have := List.all_eq_true.mp h i (List.mem_range.mpr hi)
  simp at this
  rcases this with h0 | h1
  · omega
  · exact h1

def exec (s : State) : Ev → Option (State × Option Nat)
  | .storeNew a =>
    if addrFreeB s a then
      some (install { s with n := s.n + 1, addr := upd s.addr s.n a, owners := upd s.owners s.n 0 } s.n, none)
    else none
  | .storeOld i => if i < s.n ∧ 0 < s.others i then some (install s i, none) else none
  | .envInc i =>
    if i < s.n ∧ 0 < s.owners i then
      some ({ s with owners := upd s.owners i (s.owners i + 1), others := upd s.others i (s.others i + 1) }, none)
    else none
  | .envDec i =>
    if i < s.n ∧ 0 < s.others i then
      some ({ s with owners := upd s.owners i (s.owners i - 1), others := upd s.others i (s.others i - 1) }, none)
    else none
  | .peek =>
    match s.pending with
    | some _ => none
    | none =>
      if s.addr s.cached = s.addr s.cur then
        some ({ s with pending := some false, lastIdx := s.hist.length, callStart := s.hist.length }, none)
      else some ({ s with pending := some true, callStart := s.hist.length }, none)
  | .finish =>
    match s.pending with
    | some false => some ({ s with pending := none }, some s.cached)
    | some true =>
      let ow := upd s.owners s.cur (s.owners s.cur + 1)
      some ({ s with owners := upd ow s.cached (ow s.cached - 1), cached := s.cur, pending := none,
                     lastIdx := s.hist.length }, some s.cur)
    | none => none

theorem exec_sound (s s' : State) (e : Ev) (r : Option Nat) (h : exec s e = some (s', r)) : Step s e s' r := by
  cases e with
  | storeNew a =>
    simp only [exec] at h
    split at h
    · rename_i hf; cases h; exact Step.storeNew s a (addrFreeB_sound s a hf)
    · cases h
  | storeOld i =>
    simp only [exec] at h
    split at h
    · rename_i hf; cases h; exact Step.storeOld s i hf.1 hf.2
    · cases h
  | envInc i =>
    simp only [exec] at h
    split at h
    · rename_i hf; cases h; exact Step.envInc s i hf.1 hf.2
    · cases h
  | envDec i =>
    simp only [exec] at h
    split at h
    · rename_i hf; cases h; exact Step.envDec s i hf.1 hf.2
    · cases h
  | peek =>
    simp only [exec] at h
    split at h
    · cases h
    · rename_i hp
      split at h
      · rename_i ha; cases h; exact Step.peekSame s hp ha
      · rename_i ha; cases h; exact Step.peekDiff s hp ha
  | finish =>
    simp only [exec] at h
    split at h
    · rename_i hp; cases h; exact Step.finishSame s hp
    · rename_i hp; cases h; exact Step.finishReload s hp
    · cases h

/-- driver: events as text (`new <addr>`, `old <id>`, `inc <id>`, `dec <id>`, `peek`, `finish`);
    one output line per event: what `finish` returned and the strong count of every object -/
def parseEv (l : String) : Option Ev :=
  match (l.splitOn " ").filter (· ≠ "") with
  | ["new", a] => a.toNat?.map Ev.storeNew
  | ["old", i] => i.toNat?.map Ev.storeOld
  | ["inc", i] => i.toNat?.map Ev.envInc
  | ["dec", i] => i.toNat?.map Ev.envDec
  | ["peek"] => some .peek
  | ["finish"] => some .finish
  | _ => none

def render (s : State) (r : Option Nat) : String :=
  let counts := (List.range s.n).map fun i => toString (s.owners i)
  s!"ret={match r with | some x => toString x | none => "-"} cur={s.cur} owners={",".intercalate counts}"

def runLines (a0 : Nat) (lines : List String) : List String :=
  let rec go (s : State) : List String → List String
    | [] => []
    | l :: ls =>
      match parseEv l with
      | none => go s ls
      | some e =>
        match exec s e with
        | some (s', r) => render s' r :: go s' ls
        | none => "disabled" :: go s ls
  go (init a0) lines

end CacheM
