import ArcSwapModel.M.Driver
import ArcSwapModel.KindsDriver
import ArcSwapModel.AutoTraits
import ArcSwapModel.SerdeM
import ArcSwapModel.CacheM
import ArcSwapModel.AccessM
import ArcSwapModel.SpecDriver
open M

/-- `driver <exec-file>`: replays every execution of the file on `M`. -/
partial def readExecs (lines : Array String) : Array Exec := Id.run do
  let mut out : Array Exec := #[]
  let mut cur : Exec := {}
  let mut inTrace := false
  for l in lines do
    if l.startsWith "exec " then
      let idx := ((l.splitOn " ").getD 1 "0").toNat?.getD 0
      cur := { idx := idx }
      inTrace := false
    else if l == "trace" then inTrace := true
    else if l == "endtrace" then inTrace := false
    else if l == "endexec" then out := out.push cur
    else if inTrace || l.startsWith "violation " then pure ()
    else if l.startsWith "strategy " then
      cur := { cur with strategy := (l.drop 9).trimAscii.toString.toNat?.getD 0 }
    else if l.startsWith "setup" then
      cur := { cur with setup := parseOps (l.drop 5).toString }
    else if l.startsWith "thread " then
      let rest := (l.drop 7).toString
      let body := match rest.splitOn " " with
        | _ :: xs => " ".intercalate xs
        | [] => ""
      cur := { cur with threads := cur.threads ++ [parseOps body] }
    else if l.startsWith "sched" then
      cur := { cur with sched := parseSched (l.drop 5).toString }
  return out

def main (args : List String) : IO UInt32 := do
  match args with
  | ["serde", path] =>
    let text ← IO.FS.readFile path
    for l in text.splitOn "\n" do
      if l.startsWith "case " then IO.println (SerdeM.caseLine l)
    return 0
  | ["cache", path] =>
    let text ← IO.FS.readFile path
    let mut cur : List String := []
    let mut a0 := 0
    for l in text.splitOn "\n" do
      if l.startsWith "exec " then
        IO.println l
        cur := []
        a0 := (((l.splitOn "a0=").getD 1 "0").trimAscii.toString.toNat?).getD 0
      else if l.startsWith "ev " then
        cur := cur ++ [(((l.drop 3).toString.splitOn " | ").getD 0 "")]
      else if l == "endexec" then
        for o in CacheM.runLines a0 cur do IO.println o
        IO.println "endexec"
    return 0
  | ["access", path] =>
    let text ← IO.FS.readFile path
    for l in text.splitOn "\n" do
      if l.startsWith "shape=" then IO.println (AccessM.predict l)
    return 0
  | ["spec", path] =>
    let text ← IO.FS.readFile path
    for l in text.splitOn "\n" do
      if l.startsWith "prog " then IO.println l
      else if l.startsWith "ops " then
        for o in Spec.runLine (l.drop 4).toString do IO.println o
        IO.println "endprog"
    return 0
  | ["autotraits"] =>
    for l in AutoTraits.tableLines do IO.println l
    return 0
  | ["kinds"] =>
    for l in Kinds.lines do IO.println l
    return 0
  | [path] =>
    let text ← IO.FS.readFile path
    let lines := (text.splitOn "\n").toArray
    let out ← IO.getStdout
    for e in readExecs lines do
      out.putStrLn s!"exec {e.idx}"
      for l in runExec e (2 ^ 64) do
        out.putStrLn l
      out.putStrLn "endexec"
    return 0
  | _ =>
    IO.eprintln "usage: driver <exec-file>"
    return 2
